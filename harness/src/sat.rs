//! Satellite drivers: row search (C23), SortedBuffer / tree search (C16),
//! lower allocator alone (C12).

use std::cell::RefCell;

use llfree::util::SortedBuffer;
use llfree::verif::{RowId, Trees, first_zeros_aligned};
use llfree::*;
use serde_json::{Value, json};

use crate::seq::{Out, Rng};
use crate::world::*;

fn bits(v: u64) -> Vec<u32> {
    (0..64).filter(|i| v >> i & 1 == 1).collect()
}

// ---------------------------------------------------------------------------
// C23: the compiled row search on concrete rows
// ---------------------------------------------------------------------------

fn row_event(out: &mut Out, v: u64, k: usize) {
    let r = std::panic::catch_unwind(|| first_zeros_aligned(v, k));
    match r {
        Ok(Some((n, off))) => out.push(json!({"ev":"row","k":k,"s":bits(v),"off":off,"n":bits(n)})),
        Ok(None) => out.push(json!({"ev":"row","k":k,"s":bits(v),"off":-1,"n":[]})),
        Err(_) => out.push(json!({"ev":"row","k":k,"s":bits(v),"off":-2,"n":[]})),
    }
}

pub fn rowsearch(out: &mut Out, seed: u64, part: usize, parts: usize, nrand: usize) {
    let mut rng = Rng(seed ^ 0x0c23);
    let mut rows: Vec<(u64, usize)> = vec![];
    for k in 0..=6usize {
        let w = 1usize << k;
        let nb = 64 / w;
        let blockmask = if w == 64 { u64::MAX } else { (1u64 << w) - 1 };
        // non-free fill patterns of one block
        let pats: Vec<u64> = {
            let mut p = vec![blockmask, 1, 1u64 << (w - 1)];
            if w > 1 {
                p.push(blockmask & !1);
                p.push(blockmask & !(1u64 << (w - 1)));
                p.push(blockmask & 0x5555_5555_5555_5555);
            }
            p.sort();
            p.dedup();
            p.retain(|x| *x != 0);
            p
        };
        // first free block at position p (or none), blocks below filled with one pattern,
        // blocks above: zero / ones / pattern / random
        for p in 0..=nb {
            for (pi, below) in pats.iter().enumerate() {
                for above in 0..4 {
                    let mut v = 0u64;
                    for b in 0..nb {
                        let fill = if b < p {
                            *below
                        } else if b == p {
                            0
                        } else {
                            match above {
                                0 => 0,
                                1 => blockmask,
                                2 => pats[(pi + b) % pats.len()],
                                _ => rng.next() & blockmask,
                            }
                        };
                        v |= fill << (b * w);
                    }
                    rows.push((v, k));
                }
            }
            // mixed patterns below
            for _ in 0..4 {
                let mut v = 0u64;
                for b in 0..nb {
                    let fill = if b < p {
                        *rng.pick(&pats)
                    } else if b == p {
                        0
                    } else {
                        rng.next() & blockmask
                    };
                    v |= fill << (b * w);
                }
                rows.push((v, k));
            }
        }
        // single bits, single holes, single free blocks
        for i in 0..64 {
            rows.push((1u64 << i, k));
            rows.push((!(1u64 << i), k));
        }
        for b in 0..nb {
            rows.push((!(blockmask << (b * w)), k));
            // a free block that is not aligned (must not be found for k > 0)
            if k > 0 && b + 1 < nb {
                rows.push((!(blockmask << (b * w + w / 2)), k));
            }
        }
        rows.push((0, k));
        rows.push((u64::MAX, k));
        for i in 0..nrand {
            let dens = i % 5;
            let mut v = rng.next();
            for _ in 0..dens {
                v |= rng.next();
            }
            if i % 7 == 0 {
                v &= rng.next();
            }
            rows.push((v, k));
        }
    }
    for (i, (v, k)) in rows.iter().enumerate() {
        if i % parts == part {
            row_event(out, *v, *k);
        }
    }
}

// ---------------------------------------------------------------------------
// C16: SortedBuffer
// ---------------------------------------------------------------------------

fn sb_run<const N: usize>(ins: &[u8]) -> Vec<u8> {
    let mut b = SortedBuffer::<N, u8>::new();
    for &x in ins {
        b.add(x);
    }
    b.iter().rev().cloned().collect()
}
fn sb_any(n: usize, ins: &[u8]) -> Vec<u8> {
    match n {
        1 => sb_run::<1>(ins),
        2 => sb_run::<2>(ins),
        3 => sb_run::<3>(ins),
        4 => sb_run::<4>(ins),
        5 => sb_run::<5>(ins),
        6 => sb_run::<6>(ins),
        7 => sb_run::<7>(ins),
        _ => sb_run::<8>(ins),
    }
}

pub fn sortbuf(out: &mut Out, seed: u64, maxlen: usize, dom: u8, part: usize, parts: usize, nrand: usize) {
    // every insertion sequence up to maxlen over 0..dom, for every capacity 1..=8
    let mut idx = 0usize;
    for len in 0..=maxlen {
        let total = (dom as usize).pow(len as u32);
        for code in 0..total {
            let mut c = code;
            let ins: Vec<u8> = (0..len)
                .map(|_| {
                    let d = (c % dom as usize) as u8;
                    c /= dom as usize;
                    d
                })
                .collect();
            idx += 1;
            if idx % parts != part {
                continue;
            }
            for n in 1..=8 {
                let r = std::panic::catch_unwind(|| sb_any(n, &ins));
                match r {
                    Ok(o) => out.push(json!({"ev":"sb","n":n,"ins":ins,"out":o})),
                    Err(_) => out.push(json!({"ev":"sb","n":n,"ins":ins,"out":[-1]})),
                }
            }
        }
    }
    let mut rng = Rng(seed ^ 0x5b);
    for i in 0..nrand {
        if i % parts != part {
            continue;
        }
        let len = 1 + rng.below(64);
        let d = 2 + rng.below(40) as u64;
        let ins: Vec<u8> = (0..len).map(|_| (rng.next() % d) as u8).collect();
        let n = 1 + rng.below(8);
        let o = sb_any(n, &ins);
        out.push(json!({"ev":"sb","n":n,"ins":ins,"out":o}));
    }
}

// ---------------------------------------------------------------------------
// C16: Trees::search_best over random tree arrays
// ---------------------------------------------------------------------------

fn rank(p: Policy, full: bool) -> i64 {
    let b = match p {
        Policy::Match(x) => x as i64,
        Policy::Demote => 256,
        Policy::Steal => 257,
        Policy::Invalid => return -1,
    };
    b * 2 + full as i64
}

fn ts_policy(requested: Class, target: Class, free: usize) -> Policy {
    // priorities spread over many values so that the order among candidates matters
    if requested.0 > target.0 {
        return Policy::Steal;
    } else if requested.0 < target.0 {
        return Policy::Demote;
    }
    match free * 16 / (TREE_FRAMES + 1) {
        15 | 14 => Policy::Match(1),
        8..=13 => Policy::Match(u8::MAX),
        x => Policy::Match(10 + x as u8),
    }
}

fn ts_search<const N: usize>(
    trees: &Trees,
    start: usize,
    offset: usize,
    len: usize,
    req: Class,
    need: usize,
) -> (Vec<(usize, i64)>, Vec<usize>) {
    let rated = RefCell::new(vec![]);
    let accessed = RefCell::new(vec![]);
    // the index of the tree being rated is not passed to `rate`; recover it through stats_at order:
    // search_best loads tree i right before rating it, so we re-derive the id in `access` only.
    let _ = trees.search_best::<N, ()>(
        TreeId(start),
        offset,
        len,
        |c, f| {
            let p = if f < need { Policy::Invalid } else { ts_policy(req, c, f) };
            rated.borrow_mut().push((c.0 as usize, f, rank(p, f == TREE_FRAMES)));
            p
        },
        |i| {
            accessed.borrow_mut().push(i.0);
            Err(Error::Memory)
        },
    );
    let r: Vec<(usize, i64)> = rated.into_inner().into_iter().map(|(_, f, rk)| (f, rk)).collect();
    (r, accessed.into_inner())
}

pub fn treesearch(out: &mut Out, seed: u64, runs: usize) {
    let mut rng = Rng(seed ^ 0x7ee5);
    for _ in 0..runs {
        let nt = 1 + rng.below(24);
        let frames = nt * TF;
        let buf = Buf::new(Trees::metadata_size(frames));
        let frees: Vec<usize> = (0..nt)
            .map(|_| match rng.below(6) {
                0 => TF,
                1 => 0,
                2 => rng.below(TF / 64 + 1),
                _ => rng.below(TF + 1),
            })
            .collect();
        let fr2 = frees.clone();
        let trees = Trees::new(frames, buf.slice(), Some(move |start: usize| fr2[start / TF]), Class(1));
        let mut classes = vec![1u8; nt];
        for i in 0..nt {
            if rng.chance(60) {
                let c = rng.below(3) as u8;
                let _ = trees.change(
                    TreeMatch { id: Some(TreeId(i)), class: None, free: 0 },
                    TreeChange { class: Some(Class(c)), operation: None },
                    |_| 0,
                );
                classes[i] = c;
            }
        }
        // some reserved trees (skipped by the search)
        let mut reserved = vec![0u8; nt];
        for i in 0..nt {
            if rng.chance(15) && frees[i] > 0 {
                if trees.reserve_or_steal(TreeId(i), Class(classes[i]), 1, |_, _, _| Policy::Match(1)).is_some() {
                    reserved[i] = 1;
                }
            }
        }
        let req = Class(rng.below(3) as u8);
        let need = 1usize << *rng.pick(&[0usize, 0, 3, 6, HO]);
        let start = rng.below(nt);
        let (offset, len) = if rng.chance(50) { (0, nt) } else { (rng.below(2), 1 + rng.below(nt)) };
        let n = *rng.pick(&[1usize, 2, 3, 4, 8]);
        let (rated, accessed) = match n {
            1 => ts_search::<1>(&trees, start, offset, len, req, need),
            2 => ts_search::<2>(&trees, start, offset, len, req, need),
            3 => ts_search::<3>(&trees, start, offset, len, req, need),
            4 => ts_search::<4>(&trees, start, offset, len, req, need),
            _ => ts_search::<8>(&trees, start, offset, len, req, need),
        };
        // rank of every tree under the same rating function (the input of the search)
        let ranks: Vec<i64> = (0..nt)
            .map(|i| {
                if reserved[i] == 1 {
                    -2
                } else {
                    let f = frees[i];
                    let p = if f < need { Policy::Invalid } else { ts_policy(req, Class(classes[i]), f) };
                    rank(p, f == TF)
                }
            })
            .collect();
        out.push(json!({"ev":"ts","n":n,"nt":nt,"start":start,"offset":offset,"len":len,
            "ranks":ranks,"rated":rated.iter().map(|r| r.1).collect::<Vec<_>>(),"accessed":accessed,
            "perfect": rank(Policy::Match(u8::MAX), false)}));
    }
}

// ---------------------------------------------------------------------------
// C12: the lower allocator alone
// ---------------------------------------------------------------------------

pub struct LowerWorld {
    pub frames: usize,
    pub buf: Buf,
    pub lower: llfree::verif::Lower<'static>,
    pub last: Vec<bool>,
}
impl LowerWorld {
    pub fn new(frames: usize, init: &str) -> Option<Self> {
        let buf = Buf::new(llfree::verif::Lower::metadata_size(frames));
        let lower = std::panic::catch_unwind(std::panic::AssertUnwindSafe(|| {
            llfree::verif::Lower::new(frames, parse_init(init), buf.slice())
        }))
        .ok()?
        .ok()?;
        Some(LowerWorld { frames, buf, lower, last: vec![] })
    }
    fn read(&self) -> Vec<bool> {
        (0..self.frames).map(|f| self.lower.stats_at(FrameId(f), 0).free_frames == 1).collect()
    }
    pub fn obs(&mut self, full: bool) -> Value {
        let cur = self.read();
        let nh = self.frames.div_ceil(HF);
        let mut chg = vec![];
        for h in 0..nh {
            let lo = h * HF;
            let hi = ((h + 1) * HF).min(self.frames);
            if full || self.last.len() != cur.len() || self.last[lo..hi] != cur[lo..hi] {
                chg.push(json!([h, ranges(&cur[lo..hi])]));
            }
        }
        self.last = cur;
        let huge: Vec<usize> = (0..nh).map(|h| self.lower.stats_at(FrameId(h * HF), HO).free_frames).collect();
        json!({"chg": chg, "huge": huge})
    }
}

fn lcall(lw: &mut LowerWorld, out: &mut Out, op: &str, row: usize, frame: Option<usize>, order: usize) -> Value {
    let l = &lw.lower;
    let r = std::panic::catch_unwind(std::panic::AssertUnwindSafe(|| match op {
        "lget" => match l.get(RowId(row), order, frame.map(FrameId)) {
            Ok(f) => json!({"res":"ok","frame":f.0}),
            Err(e) => json!({"res":err_str(e),"frame":-1}),
        },
        _ => match l.put(FrameId(frame.unwrap()), order) {
            Ok(()) => json!({"res":"ok","frame":frame.unwrap()}),
            Err(e) => json!({"res":err_str(e),"frame":frame.unwrap()}),
        },
    }));
    let res = match r {
        Ok(v) => v,
        Err(p) => json!({"res":"panic","msg":panic_msg(p),"frame":-1}),
    };
    let obs = lw.obs(false);
    let ev = merge(
        json!({"ev":op,"row":row,"order":order,"target":opt(if op == "lget" { frame } else { None }),"obs":obs}),
        res.clone(),
    );
    out.push(ev);
    res
}

/// Patterns of one tree (plus neighbours), then directed allocations from every row hint.
pub fn lower_runs(out: &mut Out, seed: u64, runs: usize) {
    let mut rng = Rng(seed ^ 0x10e4);
    let rows_per_tree = TF / 64;
    for r in 0..runs {
        let ntrees = 1 + rng.below(2);
        let partial = *rng.pick(&[0usize, 0, 0, 1, HF / 2 + 3, HF + 64]);
        let frames = if partial > 0 && partial < ntrees * TF { ntrees * TF - partial } else { ntrees * TF };
        let init = if rng.chance(50) { "alloc" } else { "free" };
        let Some(mut lw) = LowerWorld::new(frames, init) else { continue };
        let obs = lw.obs(true);
        out.push(json!({"ev":"lreset","run":format!("lower:{seed}:{r}:{frames}:{init}"),"frames":frames,
            "init":init,"th":TH,"ho":HO,"obs":obs}));
        // build a pattern: per huge frame one of {untouched, entirely free, one free block of order k at
        // position p, random sub-blocks free, whole}
        let nh = frames.div_ceil(HF);
        let mut dead = false;
        for h in 0..nh {
            let base = h * HF;
            let hfull = base + HF <= frames;
            let kind = rng.below(7);
            if init == "alloc" {
                match kind {
                    0 => {}
                    1 if hfull => {
                        dead |= lcall(&mut lw, out, "lput", 0, Some(base), HO)["res"] == "panic";
                    }
                    2 | 3 => {
                        let k = rng.below(HO);
                        let p = rng.below(HF >> k);
                        let f = base + (p << k);
                        if f + (1 << k) <= frames {
                            dead |= lcall(&mut lw, out, "lput", 0, Some(f), k)["res"] == "panic";
                        }
                    }
                    _ => {
                        for _ in 0..(1 + rng.below(6)) {
                            let k = rng.below(8);
                            let p = rng.below(HF >> k);
                            let f = base + (p << k);
                            if f + (1 << k) <= frames {
                                dead |= lcall(&mut lw, out, "lput", 0, Some(f), k)["res"] == "panic";
                            }
                        }
                    }
                }
            } else {
                match kind {
                    0 => {}
                    1 if hfull => {
                        dead |= lcall(&mut lw, out, "lget", base / 64, Some(base), HO)["res"] == "panic";
                    }
                    2 => {
                        // fill everything but one block
                        let k = rng.below(HO);
                        let keep = rng.below(HF >> k) << k;
                        let mut f = 0;
                        while f < HF {
                            // allocate maximal aligned blocks outside [keep, keep + 2^k)
                            let mut o = HO - 1;
                            loop {
                                let sz = 1usize << o;
                                let ok = f % sz == 0 && f + sz <= HF && (f + sz <= keep || f >= keep + (1 << k));
                                if ok || o == 0 {
                                    break;
                                }
                                o -= 1;
                            }
                            let sz = 1usize << o;
                            if f >= keep && f < keep + (1 << k) {
                                f = keep + (1 << k);
                                continue;
                            }
                            if base + f + sz <= frames {
                                dead |= lcall(&mut lw, out, "lget", (base + f) / 64, Some(base + f), o)["res"] == "panic";
                            }
                            f += sz;
                        }
                    }
                    _ => {
                        for _ in 0..(1 + rng.below(8)) {
                            let k = rng.below(8);
                            let p = rng.below(HF >> k);
                            let f = base + (p << k);
                            if f + (1 << k) <= frames {
                                dead |= lcall(&mut lw, out, "lget", f / 64, Some(f), k)["res"] == "panic";
                            }
                        }
                    }
                }
            }
            if dead {
                break;
            }
        }
        if dead {
            continue;
        }
        // directed allocations: every order, from sampled row hints, until the tree is exhausted
        let nprobe = 14 + rng.below(10);
        for _ in 0..nprobe {
            let order = match rng.below(10) {
                0..=3 => rng.below(7),
                4 | 5 => 7 + rng.below(2),
                6 | 7 => HO,
                _ => HO + rng.below(TO - HO + 1),
            };
            let tree = rng.below(ntrees);
            let row = tree * rows_per_tree + rng.below(rows_per_tree);
            if row * 64 >= frames {
                continue;
            }
            if lcall(&mut lw, out, "lget", row, None, order)["res"] == "panic" {
                break;
            }
        }
    }
}


// ---------------------------------------------------------------------------
// C08: validation of the metadata buffers handed to LLFree::new
// ---------------------------------------------------------------------------

/// One arena, three slices carved out at chosen offsets / lengths; logged relative to the arena base.
pub fn meta_runs(out: &mut Out, seed: u64, runs: usize) {
    let mut rng = Rng(seed ^ 0x0e7a);
    for r in 0..runs {
        let frames = *rng.pick(&[TF, TF + HF + 3, 2 * TF, 3 * TF + 65, HF - 1]);
        let (cls, k) = *rng.pick(&[("simple", 1usize), ("simple", 3), ("movable", 2)]);
        let c = classing(cls, k);
        let ms = LLFree::metadata_size(&c, frames);
        let req = [ms.local, ms.trees, ms.lower];
        let arena_len = 4 * (ms.local + ms.trees + ms.lower) + 4096;
        let arena = Buf::new(arena_len);
        // a valid layout first: consecutive, 64-byte aligned
        let al = |x: usize| x.next_multiple_of(64);
        let mut off = [256usize, 0, 0];
        off[1] = al(off[0] + req[0]) + 64;
        off[2] = al(off[1] + req[1]) + 64;
        let mut len = req;
        // then one corruption
        let kind = r % 12;
        let a = rng.below(3);
        let b = (a + 1 + rng.below(2)) % 3;
        match kind {
            0 => {}
            1 => len[a] = req[a] - 1,                                  // one byte short
            2 => len[a] = req[a] + 1 + rng.below(200),                 // longer is fine
            3 => off[a] += 1 + rng.below(63),                          // misaligned
            4 => off[b] = off[a],                                      // identical start
            5 => {                                                     // b starts inside a
                off[b] = off[a] + al(1 + rng.below(req[a].max(2) - 1)).min(al(req[a]) - 64).max(0);
                if off[b] == off[a] { off[b] = off[a]; }
            }
            6 => {                                                     // a strictly inside an enlarged b
                len[b] = req[b] + 2 * al(req[a]) + 256;
                off[b] = al(off[a].max(256 + len[b])) ;
                off[a] = off[b] + 64;
            }
            7 => {                                                     // b ends inside a
                if off[a] >= al(len[b]) { off[b] = off[a] + 64 - al(len[b]).min(off[a]); }
                len[b] = len[b].max(req[b]);
                off[b] = off[a].saturating_sub(al(len[b]) - 64);
            }
            8 => {                                                     // exactly adjacent (valid)
                off[b] = al(off[a] + len[a]);
                if b != 2 && a != 2 { off[2] = al(off[0].max(off[1]) + len[0].max(len[1])) + al(len[0] + len[1]) + 64; }
            }
            9 => len[a] = 0,                                           // empty buffer although bytes are required
            10 => { len[a] = req[a] + 64; len[b] = req[b] + 128; }     // both longer (valid)
            _ => off[a] += 64 * (1 + rng.below(4)),                    // shifted but aligned (may overlap the next)
        }
        if (0..3).any(|i| off[i] + len[i] > arena_len) {
            continue;
        }
        let sl = |i: usize| -> &'static mut [u8] {
            unsafe { std::slice::from_raw_parts_mut((arena.base() + off[i]) as *mut u8, len[i]) }
        };
        let meta = MetaData { local: sl(0), trees: sl(1), lower: sl(2) };
        let res = std::panic::catch_unwind(std::panic::AssertUnwindSafe(|| {
            LLFree::new(frames, Init::FreeAll, &c, meta).map(|_| ())
        }));
        let res = match res {
            Ok(Ok(())) => "ok",
            Ok(Err(e)) => err_str(e),
            Err(_) => "panic",
        };
        out.push(json!({"ev":"meta","kind":kind,"frames":frames,"req":req,"off":off,"len":len,
            "basealign": arena.base() % 64, "res":res}));
    }
}

//! Glue behind `llfree::verif`: per-thread mode, recorder, baton scheduler.
//!
//! Modes (thread local):
//!   OFF    – hooks are no-ops (setup, observation, crash probes)
//!   RECORD – accesses are recorded, no scheduling (sequential drivers)
//!   SCHED  – the thread parks in `before()` until the controller grants it
//!            the baton; exactly one SCHED thread runs at any time, so the
//!            global sequence of recorded accesses is a true total order.

use std::cell::Cell;
use std::sync::{Condvar, Mutex, OnceLock};

pub const OFF: u8 = 0;
pub const RECORD: u8 = 1;
pub const SCHED: u8 = 2;

pub const K_LOAD: u8 = 0;
pub const K_STORE: u8 = 1;
pub const K_SWAP: u8 = 2;
pub const K_CAS: u8 = 3;
/// pseudo access: start of a call (scheduling point only)
pub const K_CALL: u8 = 9;

thread_local! {
    static MODE: Cell<u8> = const { Cell::new(OFF) };
    static TID: Cell<usize> = const { Cell::new(0) };
}

pub fn set_mode(m: u8) -> u8 {
    MODE.with(|c| c.replace(m))
}
pub fn mode() -> u8 {
    MODE.with(|c| c.get())
}
pub fn set_tid(t: usize) {
    TID.with(|c| c.set(t));
}
pub fn tid() -> usize {
    TID.with(|c| c.get())
}

/// One recorded atomic access
#[derive(Clone, Debug)]
pub struct OpRec {
    pub t: usize,
    pub kind: u8,
    pub addr: usize,
    pub size: usize,
    pub old: u64,
    pub new: u64,
    pub ok: bool,
}

/// Entries of the global log, in true execution order
#[derive(Clone, Debug)]
pub enum Rec {
    Op(OpRec),
    /// arbitrary event emitted by the running thread (call/ret/crash/...)
    Ev(serde_json::Value),
}

pub struct Recorder {
    pub log: Vec<Rec>,
    pub keep_ops: bool,
    /// number of accesses per thread
    pub nops: Vec<usize>,
    /// called in `before()` of a write access (crash enumeration)
    pub on_write: Option<Box<dyn FnMut(usize, &OpRecPre) -> Option<serde_json::Value> + Send>>,
    pub writes: usize,
}
pub struct OpRecPre {
    pub t: usize,
    pub kind: u8,
    pub addr: usize,
    pub size: usize,
}

fn recorder() -> &'static Mutex<Recorder> {
    static R: OnceLock<Mutex<Recorder>> = OnceLock::new();
    R.get_or_init(|| {
        Mutex::new(Recorder {
            log: Vec::new(),
            keep_ops: false,
            nops: vec![0; 8],
            on_write: None,
            writes: 0,
        })
    })
}

pub fn rec_reset(keep_ops: bool) {
    let mut r = recorder().lock().unwrap_or_else(|e| e.into_inner());
    r.log.clear();
    r.keep_ops = keep_ops;
    r.nops = vec![0; 8];
    r.on_write = None;
    r.writes = 0;
}
pub fn rec_set_on_write(
    f: Option<Box<dyn FnMut(usize, &OpRecPre) -> Option<serde_json::Value> + Send>>,
) {
    recorder().lock().unwrap_or_else(|e| e.into_inner()).on_write = f;
}
pub fn rec_event(v: serde_json::Value) {
    recorder()
        .lock()
        .unwrap_or_else(|e| e.into_inner())
        .log
        .push(Rec::Ev(v));
}
pub fn rec_take() -> Vec<Rec> {
    std::mem::take(&mut recorder().lock().unwrap_or_else(|e| e.into_inner()).log)
}
pub fn rec_nops(t: usize) -> usize {
    recorder().lock().unwrap_or_else(|e| e.into_inner()).nops[t]
}
pub fn rec_writes() -> usize {
    recorder().lock().unwrap_or_else(|e| e.into_inner()).writes
}

// ---------------------------------------------------------------------------
// Scheduler
// ---------------------------------------------------------------------------

#[derive(Clone, Debug, Default)]
pub struct Step {
    /// threads that were parked (enabled) when the decision was taken
    pub enabled: Vec<usize>,
    pub chosen: usize,
    /// kind of the access the chosen thread is about to perform
    pub kind: u8,
}

struct St {
    n: usize,
    parked: Vec<bool>,
    /// kind of the access the thread is parked before
    pkind: Vec<u8>,
    finished: Vec<bool>,
    running: Option<usize>,
    grant: Option<usize>,
    /// set when the execution is being torn down: every thread runs freely
    free_run: bool,
}

pub struct Sched {
    m: Mutex<St>,
    cv: Condvar,
}

fn sched() -> &'static Sched {
    static S: OnceLock<Sched> = OnceLock::new();
    S.get_or_init(|| Sched {
        m: Mutex::new(St {
            n: 0,
            parked: vec![],
            pkind: vec![],
            finished: vec![],
            running: None,
            grant: None,
            free_run: false,
        }),
        cv: Condvar::new(),
    })
}

pub fn sched_reset(n: usize) {
    abort_clear();
    let s = sched();
    let mut st = s.m.lock().unwrap_or_else(|e| e.into_inner());
    st.n = n;
    st.parked = vec![false; n];
    st.pkind = vec![0; n];
    st.finished = vec![false; n];
    st.running = None;
    st.grant = None;
    st.free_run = false;
}

/// Worker side: park until granted. Called from `before()` and at call starts.
pub fn park(kind: u8) {
    let me = tid();
    let s = sched();
    let mut st = s.m.lock().unwrap_or_else(|e| e.into_inner());
    if st.free_run {
        return;
    }
    st.parked[me] = true;
    st.pkind[me] = kind;
    if st.running == Some(me) {
        st.running = None;
    }
    s.cv.notify_all();
    while st.grant != Some(me) && !st.free_run {
        st = s.cv.wait(st).unwrap_or_else(|e| e.into_inner());
    }
    if st.grant == Some(me) {
        st.grant = None;
    }
    st.parked[me] = false;
    st.running = Some(me);
    s.cv.notify_all();
}

/// Worker side: the thread's program is over.
pub fn finish() {
    let me = tid();
    let s = sched();
    let mut st = s.m.lock().unwrap_or_else(|e| e.into_inner());
    st.finished[me] = true;
    if st.running == Some(me) {
        st.running = None;
    }
    s.cv.notify_all();
}

/// Controller side: wait until nobody runs, return the parked threads
/// (empty = all finished) with the kind of access each waits at.
pub fn wait_quiet() -> Vec<(usize, u8)> {
    let s = sched();
    let mut st = s.m.lock().unwrap_or_else(|e| e.into_inner());
    loop {
        let all_settled = st.grant.is_none()
            && st.running.is_none()
            && (0..st.n).all(|t| st.parked[t] || st.finished[t]);
        if all_settled {
            return (0..st.n)
                .filter(|&t| st.parked[t] && !st.finished[t])
                .map(|t| (t, st.pkind[t]))
                .collect();
        }
        st = s.cv.wait(st).unwrap_or_else(|e| e.into_inner());
    }
}

/// Controller side: let thread `t` perform its next step.
pub fn grant(t: usize) {
    let s = sched();
    let mut st = s.m.lock().unwrap_or_else(|e| e.into_inner());
    st.grant = Some(t);
    s.cv.notify_all();
}

/// Controller side: the step budget is exhausted.  Every thread runs unscheduled from now on and
/// panics ("step budget exhausted") at its next atomic access, which unwinds the call in flight
/// (the harness catches the panic per call); threads can therefore always be joined.
pub fn abort_all() {
    ABORT.store(true, std::sync::atomic::Ordering::SeqCst);
    release_all();
}
pub fn abort_clear() {
    ABORT.store(false, std::sync::atomic::Ordering::SeqCst);
}
static ABORT: std::sync::atomic::AtomicBool = std::sync::atomic::AtomicBool::new(false);

/// Controller side: abandon the execution; every thread runs to its end unscheduled.
pub fn release_all() {
    let s = sched();
    let mut st = s.m.lock().unwrap_or_else(|e| e.into_inner());
    st.free_run = true;
    s.cv.notify_all();
}

// ---------------------------------------------------------------------------
// The callbacks installed into llfree::verif
// ---------------------------------------------------------------------------

fn before(kind: u8, addr: usize, size: usize) {
    let m = mode();
    if m == OFF {
        return;
    }
    if m == SCHED {
        if ABORT.load(std::sync::atomic::Ordering::SeqCst) {
            panic!("step budget exhausted");
        }
        park(kind);
        if ABORT.load(std::sync::atomic::Ordering::SeqCst) {
            panic!("step budget exhausted");
        }
    }
    if kind != K_LOAD {
        // crash enumeration: run the probe before the write happens
        let me = tid();
        let mut r = recorder().lock().unwrap_or_else(|e| e.into_inner());
        r.writes += 1;
        let w = r.writes;
        if let Some(mut f) = r.on_write.take() {
            drop(r);
            let old = set_mode(OFF);
            let ev = f(
                w,
                &OpRecPre {
                    t: me,
                    kind,
                    addr,
                    size,
                },
            );
            set_mode(old);
            let mut r = recorder().lock().unwrap_or_else(|e| e.into_inner());
            if let Some(ev) = ev {
                r.log.push(Rec::Ev(ev));
            }
            r.on_write = Some(f);
        }
    }
}

fn after(kind: u8, addr: usize, size: usize, old: u64, new: u64, ok: bool) {
    let m = mode();
    if m == OFF {
        return;
    }
    let me = tid();
    let mut r = recorder().lock().unwrap_or_else(|e| e.into_inner());
    r.nops[me] += 1;
    if r.keep_ops {
        r.log.push(Rec::Op(OpRec {
            t: me,
            kind,
            addr,
            size,
            old,
            new,
            ok,
        }));
    }
}

pub fn install() {
    llfree::verif::install(before, after);
}

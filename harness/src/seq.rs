//! Sequential drivers: random / scripted histories on the real allocator,
//! recorded as ndjson events for TraceAbs.tla.

use serde_json::{Value, json};

use crate::world::*;

pub struct Rng(pub u64);
impl Rng {
    pub fn next(&mut self) -> u64 {
        self.0 = self.0.wrapping_add(0x9e37_79b9_7f4a_7c15);
        let mut z = self.0;
        z = (z ^ (z >> 30)).wrapping_mul(0xbf58_476d_1ce4_e5b9);
        z = (z ^ (z >> 27)).wrapping_mul(0x94d0_49bb_1331_11eb);
        z ^ (z >> 31)
    }
    pub fn below(&mut self, n: usize) -> usize {
        if n == 0 { 0 } else { (self.next() % n as u64) as usize }
    }
    pub fn chance(&mut self, pct: usize) -> bool {
        self.below(100) < pct
    }
    pub fn pick<'a, T>(&mut self, v: &'a [T]) -> &'a T {
        &v[self.below(v.len())]
    }
}

pub struct Out {
    pub lines: Vec<String>,
}
impl Out {
    pub fn new() -> Self {
        Out { lines: vec![] }
    }
    pub fn push(&mut self, v: Value) {
        self.lines.push(serde_json::to_string(&v).unwrap());
    }
}

pub fn reset_event(w: &mut World, run: &str, init: &str, kind: &str, c11: bool) -> Value {
    let obs = if w.has_alloc() { w.obs(true) } else { json!({}) };
    json!({"ev":"reset","run":run,"kind":kind,"frames":w.frames,"init":init,"cls":w.cls_name,
           "k":w.k,"th":TH,"ho":HO,"c11":c11 as u8,"zoff":w.shift,
           "ierr": w.init_err.clone().unwrap_or_default(), "obs": obs})
}

/// One sequential history with bookkeeping of held blocks
pub struct Hist<'a> {
    pub w: World,
    pub held: Vec<(usize, usize)>,
    pub rng: Rng,
    pub out: &'a mut Out,
    pub twin: Option<World>,
    pub twin_age: usize,
    pub ncalls: usize,
    /// a call panicked: the allocator's state is undefined, the run is over
    pub dead: bool,
    /// last block freed successfully (for double-free letters)
    pub last_freed: Option<(usize, usize)>,
    /// focused histories: most calls use this (class, slot); targeted gets aim into its reserved tree
    pub focus: Option<(u8, usize)>,
}

impl<'a> Hist<'a> {
    pub fn start(
        out: &'a mut Out,
        run: &str,
        frames: usize,
        init: &str,
        cls: &str,
        k: usize,
        seed: u64,
        c11: bool,
    ) -> Self {
        // every third run starts from metadata buffers with arbitrary previous content
        let dirty = if seed % 3 == 1 { Some(seed.wrapping_mul(0x9e37_79b9_7f4a_7c15) | 1) } else { None };
        let mut w = World::new_dirty(frames, init, cls, k, dirty);
        out.push(reset_event(&mut w, run, init, "seq", c11));
        Hist {
            w,
            held: vec![],
            rng: Rng(seed),
            out,
            twin: None,
            twin_age: 0,
            ncalls: 0,
            dead: false,
            last_freed: None,
            focus: None,
        }
    }
    /// continue with an already constructed (wrapped) allocator
    pub fn adopt(out: &'a mut Out, w: World, seed: u64) -> Self {
        Hist { w, held: vec![], rng: Rng(seed), out, twin: None, twin_age: 0, ncalls: 0, dead: false, last_freed: None, focus: None }
    }
    fn wrapped(&self) -> bool {
        self.w.zone.is_some() || self.w.nvm.is_some()
    }
    pub fn alive(&self) -> bool {
        self.w.has_alloc() && !self.dead
    }

    fn rand_class(&mut self) -> u8 {
        let i = self.rng.below(self.w.classes.len());
        self.w.classes[i].0
    }
    fn rand_slot(&mut self, class: u8) -> Option<usize> {
        let n = self
            .w
            .classes
            .iter()
            .find(|c| c.0 == class)
            .map(|c| c.1)
            .unwrap_or(0);
        if n > 0 && self.rng.chance(70) {
            Some(self.rng.below(n))
        } else {
            None
        }
    }
    fn rand_order(&mut self) -> usize {
        let r = self.rng.below(100);
        match r {
            0..=39 => 0,
            40..=59 => 1 + self.rng.below(5),
            60..=69 => 6,
            70..=79 => 7 + self.rng.below(2),
            80..=91 => HO,
            92..=96 => HO + self.rng.below(TO - HO + 1),
            _ => TO,
        }
    }

    pub fn gen_op(&mut self) -> Op {
        let frames = self.w.frames.max(1);
        let r = self.rng.below(100);
        let mut class = self.rand_class();
        let mut slot = self.rand_slot(class);
        let mut focus_tree = None;
        if let Some((fc, fs)) = self.focus {
            if self.rng.chance(80) {
                class = fc;
                slot = Some(fs);
            }
            if let Some(a) = self.w.alloc.as_ref() {
                focus_tree = a.verif_local(llfree::Class(fc), fs).map(|(row, _)| row * 64 / TF);
            }
        }
        match r {
            0..=29 => Op::Get(self.rand_order(), class, slot, None),
            30..=41 => {
                // targeted allocation
                let o = self.rand_order();
                let kind = self.rng.below(4);
                let f = match (kind, focus_tree) {
                    (_, Some(t)) if self.rng.chance(60) => (t * TF + self.rng.below(TF)).min(frames - 1),
                    (0, _) if !self.held.is_empty() => {
                        let (f, _) = *self.rng.pick(&self.held.clone());
                        f
                    }
                    (1, _) => frames - 1,
                    _ => self.rng.below(frames),
                };
                let f = (f >> o) << o;
                Op::Get(o, class, slot, Some(f))
            }
            42..=66 if !self.held.is_empty() => {
                let i = self.rng.below(self.held.len());
                let (f, o) = self.held[i];
                Op::Put(f, o, class, slot)
            }
            67..=72 if self.held.iter().any(|h| h.1 > 0) => {
                // partial free of a held block
                let cands: Vec<_> = self.held.iter().filter(|h| h.1 > 0).cloned().collect();
                let (f, o) = *self.rng.pick(&cands);
                let so = self.rng.below(o);
                let part = self.rng.below(1 << (o - so));
                Op::Put(f + part * (1 << so), so, class, slot)
            }
            73..=79 => {
                // free of something we do not hold (never allocated, partly allocated,
                // wrong order, double free)
                let o = self.rand_order();
                let f = if !self.held.is_empty() && self.rng.chance(40) {
                    self.rng.pick(&self.held.clone()).0
                } else {
                    self.rng.below(frames)
                };
                Op::Put((f >> o) << o, o, class, slot)
            }
            80..=86 => Op::Drain,
            87..=95 => {
                let nt = self.w.ntrees();
                let id = if self.rng.chance(60) {
                    Some(self.rng.below(nt + 2))
                } else {
                    None
                };
                let mclass = if self.rng.chance(50) { Some(self.rand_class()) } else { None };
                let mfree = *self.rng.pick(&[0, 0, 1, TF / 2, TF]);
                let cclass = if self.rng.chance(50) { Some(self.rand_class()) } else { None };
                let cop = *self.rng.pick(&[0u8, 1, 2, 2]);
                Op::Change(id, mclass, mfree, cclass, cop)
            }
            _ => {
                // invalid arguments
                // orders beyond the tree order include the widths at which `1 << order` overflows
                let big = *self.rng.pick(&[TO + 1, TO + 2, TO + 3, 31, 32, 63, 64, 65, 127, 255]);
                match self.rng.below(7) {
                    0 => Op::Get(big, class, slot, None),
                    5 => Op::Put(if frames > 1 { self.rng.below(frames) & !1 } else { 0 }, big, class, slot),
                    6 => Op::Get(if self.rng.chance(50) { big } else { 0 }, class, slot, Some((1 << 30) + self.rng.below(5) * 64)),
                    1 => {
                        let o = 1 + self.rng.below(6);
                        let f = self.rng.below(frames) | 1;
                        Op::Get(o, class, slot, Some(f))
                    }
                    2 => Op::Get(0, class, slot, Some(frames + self.rng.below(3))),
                    3 => Op::Get(0, 3 + self.rng.below(5) as u8, None, None),
                    _ => {
                        let o = self.rng.below(4);
                        Op::Put(frames - 1 + self.rng.below(3), o, class, slot)
                    }
                }
            }
        }
    }

    /// run one call on the allocator (and its twin), log it, update bookkeeping
    pub fn step(&mut self, op: &Op) -> Value {
        if !self.alive() {
            return json!({"res":"dead"});
        }
        let res = self.w.exec(op);
        let obs = self.w.obs(false);
        let mut ev = merge(op.to_json(), res.clone());
        ev = merge(ev, json!({"ev":"sc","obs":obs}));
        if let Some(tw) = self.twin.as_mut() {
            let r2 = tw.exec(op);
            let o2 = tw.obs(false);
            let mut t = r2.clone();
            t = merge(t, json!({"obs": o2}));
            if t.get("frame").is_none() {
                t = merge(t, json!({"frame": -1, "rclass": -1}));
            }
            ev = merge(ev, json!({"tw": t}));
            self.twin_age += 1;
        }
        self.out.push(ev);
        self.ncalls += 1;
        if res["res"] == "panic" {
            self.dead = true;
        }
        // bookkeeping
        let ok = res["res"] == "ok";
        match *op {
            Op::Get(o, _, _, _) if ok => {
                self.held.push((res["frame"].as_u64().unwrap() as usize, o));
            }
            Op::Put(f, o, _, _) if ok => {
                self.last_freed = Some((f, o));
                // remove / split every held block that overlaps
                let mut nh = vec![];
                for &(hf, ho) in &self.held {
                    let hend = hf + (1 << ho);
                    let pend = f + (1 << o);
                    if pend <= hf || hend <= f {
                        nh.push((hf, ho));
                    } else if hf <= f && pend <= hend {
                        // buddies that remain
                        let (mut bf, mut bo) = (hf, ho);
                        while bo > o {
                            let half = 1 << (bo - 1);
                            if f < bf + half {
                                nh.push((bf + half, bo - 1));
                            } else {
                                nh.push((bf, bo - 1));
                                bf += half;
                            }
                            bo -= 1;
                        }
                    }
                }
                self.held = nh;
            }
            _ => {}
        }
        res
    }

    pub fn maybe_twin(&mut self) {
        if self.twin.is_some() && self.twin_age > 40 {
            self.twin = None;
        }
        if self.twin.is_none() && self.rng.chance(4) {
            let mut t = self.w.fork("none");
            if t.alloc.is_some() {
                t.last = self.w.last.clone();
                self.twin = Some(t);
                self.twin_age = 0;
            }
        }
    }

    /// replace the allocator by one rebuilt from its own metadata
    pub fn reinit(&mut self, init: &str) {
        let mut n = self.w.fork(init);
        let obs = if n.alloc.is_some() { n.obs(true) } else { json!({}) };
        self.out.push(json!({"ev":"reinit","init":init,
            "ierr": n.init_err.clone().unwrap_or_default(),"obs":obs}));
        self.twin = None;
        self.w = n;
    }

    pub fn random(&mut self, len: usize, twins: bool) {
        for _ in 0..len {
            if !self.alive() {
                return;
            }
            if twins && !self.wrapped() {
                self.maybe_twin();
            }
            if self.wrapped() && self.rng.chance(6) {
                // frames below the zone's offset
                let op = Op::ZBelow(self.rng.below(2) as u8, self.rng.below(self.w.shift.min(3 * TF)), self.rng.below(3));
                self.step(&op);
                continue;
            }
            if !self.wrapped() && self.rng.chance(1) {
                let init = if self.rng.chance(50) { "recover" } else { "none" };
                self.reinit(init);
                if !self.alive() {
                    return;
                }
                continue;
            }
            let op = self.gen_op();
            self.step(&op);
            // C10: probe right after a drain
            if matches!(op, Op::Drain) && self.rng.chance(80) {
                let class = self.rand_class();
                let slot = self.rand_slot(class);
                let p = if self.rng.chance(50) {
                    Op::Get(0, class, slot, None)
                } else {
                    let o = self.rand_order();
                    let f = (self.rng.below(self.w.frames.max(1)) >> o) << o;
                    Op::Get(o, class, slot, Some(f))
                };
                self.step(&p);
            }
        }
    }

    /// gets of one kind until the first failure, as one "bulkget" event
    pub fn bulk_get(&mut self, order: usize, class: u8, slot: Option<usize>, exhaust: bool) -> usize {
        if !self.alive() {
            return 0;
        }
        let mut runs: Vec<(usize, usize)> = vec![];
        let mut rclasses = std::collections::BTreeSet::new();
        let mut n = 0;
        let st = 1usize << order;
        let last;
        loop {
            let r = self.w.exec(&Op::Get(order, class, slot, None));
            if r["res"] == "ok" {
                let f = r["frame"].as_u64().unwrap() as usize;
                rclasses.insert(r["rclass"].as_u64().unwrap());
                match runs.last_mut() {
                    Some(l) if l.1 + st == f => l.1 = f,
                    _ => runs.push((f, f)),
                }
                self.held.push((f, order));
                n += 1;
                if n > self.w.frames + 4 {
                    last = "runaway".to_string();
                    break;
                }
            } else {
                last = r["res"].as_str().unwrap().to_string();
                if last == "panic" {
                    self.dead = true;
                }
                break;
            }
        }
        let obs = self.w.obs(false);
        self.out.push(json!({"ev":"bulkget","order":order,"class":class,"slot":opt(slot),
            "runs": runs.iter().map(|r| json!([r.0, r.1])).collect::<Vec<_>>(),
            "rclasses": rclasses.into_iter().collect::<Vec<_>>(),
            "last": last, "exhaust": exhaust as u8, "obs": obs}));
        n
    }

    pub fn bulk_put(&mut self, blocks: &[(usize, usize)], class: u8, slot: Option<usize>, allfree: bool) {
        if !self.alive() {
            return;
        }
        let mut res = vec![];
        let mut panic = String::new();
        for &(f, o) in blocks {
            let r = self.w.exec(&Op::Put(f, o, class, slot));
            if r["res"] == "panic" {
                panic = r["msg"].as_str().unwrap_or("").to_string();
                self.dead = true;
                res.push(json!([f, o, 0]));
                break;
            }
            res.push(json!([f, o, (r["res"] == "ok") as u8]));
        }
        let obs = self.w.obs(false);
        self.out.push(json!({"ev":"bulkput","blocks":res,"panic":panic,"allfree":allfree as u8,"obs":obs}));
    }
}

// ---------------------------------------------------------------------------
// configuration tables
// ---------------------------------------------------------------------------

pub fn frame_counts() -> Vec<usize> {
    vec![
        0,
        1,
        63,
        64,
        65,
        HF - 1,
        HF,
        HF + 1,
        TF - 1,
        TF,
        TF + 1,
        TF + HF,
        2 * TF - 1,
        2 * TF,
        2 * TF + HF + 7,
        3 * TF + 65,
        4 * TF,
    ]
}
pub const CLASSINGS: &[(&str, usize)] = &[
    ("simple", 1),
    ("simple", 2),
    ("movable", 1),
    ("movable", 3),
    ("zeroed", 1),
    ("zeroed", 2),
    ("zeroslot", 1),
    ("zeroslot0", 1),
    ("uneven", 1),
    ("custom", 1),
    ("single", 1),
];

/// random histories over rotating configurations
pub fn random_runs(out: &mut Out, seed: u64, runs: usize, len: usize, twins: bool) {
    let fcs = frame_counts();
    let mut rng = Rng(seed ^ 0x5eed);
    for r in 0..runs {
        let frames = fcs[(r + rng.below(fcs.len())) % fcs.len()];
        let (cls, k) = CLASSINGS[(r / 2 + rng.below(CLASSINGS.len())) % CLASSINGS.len()];
        let init = if rng.chance(65) { "free" } else { "alloc" };
        let run = format!("rand:{seed}:{r}:{frames}:{init}:{cls}:{k}");
        let mut h = Hist::start(out, &run, frames, init, cls, k, seed.wrapping_mul(1000) + r as u64, false);
        if r % 2 == 1 {
            // focused history: stay on one class and slot
            let cands: Vec<(u8, usize)> = h.w.classes.iter().filter(|c| c.1 > 0).map(|c| (c.0, c.1)).collect();
            if !cands.is_empty() {
                let (c, n) = cands[rng.below(cands.len())];
                h.focus = Some((c, rng.below(n)));
            }
        }
        h.random(len, twins);
    }
}

/// C06: initialization sweep over frame counts
pub fn init_sweep(out: &mut Out, counts: &[usize]) {
    for &n in counts {
        for (cls, k) in [("simple", 1usize), ("movable", 2)] {
            if (n % 2 == 0) != (cls == "simple") && n > 3 * HF {
                continue; // alternate classings for the larger counts
            }
            // free-all: allocate everything
            let run = format!("init:free:{n}:{cls}");
            let mut h = Hist::start(out, &run, n, "free", cls, k, n as u64, false);
            if h.alive() && n > 0 {
                loop {
                    let got = h.bulk_get(0, 0, Some(0), false);
                    if !h.alive() {
                        break;
                    }
                    h.step(&Op::Drain);
                    if got == 0 || !h.alive() {
                        break;
                    }
                }
                // nothing may be left
                h.bulk_get(0, 0, None, true);
                // and no frame can be allocated directly either
                for f in [0, n / 2, n - 1] {
                    h.step(&Op::Get(0, 0, None, Some(f)));
                }
            }
            // allocate-all: free everything once, then a second time
            let run = format!("init:alloc:{n}:{cls}");
            let mut h = Hist::start(out, &run, n, "alloc", cls, k, n as u64, false);
            if h.alive() && n > 0 {
                let mut blocks = vec![];
                let nfull = n / HF;
                for hh in 0..nfull {
                    blocks.push((hh * HF, HO));
                }
                for f in nfull * HF..n {
                    blocks.push((f, 0));
                }
                h.bulk_put(&blocks, 0, None, true);
                h.bulk_put(&blocks, 0, None, false);
                // all frames can now be allocated exactly once
                loop {
                    let got = h.bulk_get(0, 0, Some(0), false);
                    if !h.alive() {
                        break;
                    }
                    h.step(&Op::Drain);
                    if got == 0 || !h.alive() {
                        break;
                    }
                }
                h.bulk_get(0, 0, None, true);
            }
        }
    }
}

/// C11: single slot, base frames only, no drain
pub fn c11_runs(out: &mut Out, seed: u64, runs: usize) {
    let mut rng = Rng(seed ^ 0xc11);
    for r in 0..runs {
        let ntrees = 2 + r % 3;
        let extra = *rng.pick(&[0usize, 0, 1, HF + 3, TF - 1]);
        let frames = ntrees * TF - if extra > 0 { TF - extra.min(TF - 1) } else { 0 };
        let (cls, k) = if r % 2 == 0 { ("simple", 1) } else { ("single", 1) };
        let run = format!("c11:{seed}:{r}:{frames}:{cls}");
        let mut h = Hist::start(out, &run, frames, "free", cls, k, seed + r as u64, true);
        if !h.alive() {
            continue;
        }
        // exhaust memory through the slot
        h.bulk_get(0, 0, Some(0), false);
        for _round in 0..4 {
            // free a subset: each frame through the slot or without a slot
            let mode = rng.below(4);
            let count = match mode {
                0 => 1,
                1 => 1 << rng.below(7),
                _ => 1 + rng.below(40),
            };
            let mut blocks = vec![];
            for _ in 0..count {
                if h.held.is_empty() {
                    break;
                }
                let i = if mode == 1 {
                    // the slot's own reserved tree: most recently allocated frames
                    h.held.len() - 1
                } else {
                    rng.below(h.held.len())
                };
                blocks.push(h.held.swap_remove(i));
            }
            let with_slot = rng.chance(40);
            // individual frees, so that each may or may not name the slot
            let mut bl = vec![];
            for b in &blocks {
                bl.push(*b);
            }
            if with_slot {
                h.bulk_put(&bl, 0, Some(0), false);
            } else {
                h.bulk_put(&bl, 0, None, false);
            }
            // allocate until out of memory: every freed frame must be found
            h.bulk_get(0, 0, Some(0), false);
        }
    }
}


// ---------------------------------------------------------------------------
// scripted histories over a symbolic alphabet (sequences generated by TLC from spec/Gen.tla)
// ---------------------------------------------------------------------------

fn sym(v: &Value) -> usize {
    if let Some(s) = v.as_str() {
        if let Ok(n) = s.parse::<usize>() {
            return n;
        }
        let (base, off) = if let Some((b, o)) = s.split_once('+') {
            (b, o.parse::<isize>().unwrap())
        } else if let Some((b, o)) = s.split_once('-') {
            (b, -o.parse::<isize>().unwrap())
        } else {
            (s, 0)
        };
        let b = match base {
            "HO" => HO,
            "TO" => TO,
            "HF" => HF,
            "TF" => TF,
            _ => panic!("symbol {s}"),
        } as isize;
        return (b + off) as usize;
    }
    v.as_u64().unwrap_or(0) as usize
}
fn osl(v: &Value) -> Option<usize> {
    if let Some(s) = v.as_str() {
        return s.parse::<i64>().ok().and_then(|x| if x < 0 { None } else { Some(x as usize) });
    }
    v.as_i64().and_then(|x| if x < 0 { None } else { Some(x as usize) })
}

impl<'a> Hist<'a> {
    /// resolve one symbolic letter against the current bookkeeping; None = not applicable now
    /// a slot index is a valid parameter only below the class's slot count (C09): otherwise no slot
    fn valid_slot(&self, class: u8, slot: Option<usize>) -> Option<usize> {
        let n = self.w.classes.iter().find(|c| c.0 == class).map(|c| c.1).unwrap_or(0);
        slot.filter(|s| *s < n)
    }
    pub fn resolve_letter(&self, l: &Value) -> Option<Op> {
        let op = self.resolve_letter_raw(l)?;
        Some(match op {
            Op::Get(o, c, s, t) => Op::Get(o, c, self.valid_slot(c, s), t),
            Op::Put(f, o, c, s) => Op::Put(f, o, c, self.valid_slot(c, s)),
            x => x,
        })
    }
    fn resolve_letter_raw(&self, l: &Value) -> Option<Op> {
        let a = l.as_array()?;
        let frames = self.w.frames;
        match a[0].as_str()? {
            "get" => Some(Op::Get(sym(&a[1]), sym(&a[2]) as u8, osl(&a[3]), None)),
            "gat" => {
                let o = sym(&a[1]);
                let f = match a[4].as_str()? {
                    "zero" => 0,
                    "held" => self.held.last()?.0,
                    "last" => frames.checked_sub(1)?,
                    "mid" => frames / 2,
                    "tree1" => TF + HF / 2,
                    "freed" => self.last_freed?.0,
                    k if k.starts_with("f:") => k[2..].parse().ok()?,
                    _ => return None,
                };
                Some(Op::Get(o, sym(&a[2]) as u8, osl(&a[3]), Some((f >> o) << o)))
            }
            "putnew" => {
                let (f, o) = *self.held.last()?;
                Some(Op::Put(f, o, sym(&a[1]) as u8, osl(&a[2])))
            }
            "putold" => {
                let (f, o) = *self.held.first()?;
                Some(Op::Put(f, o, sym(&a[1]) as u8, osl(&a[2])))
            }
            "partnew" => {
                let (f, o) = *self.held.last()?;
                let sub = sym(&a[1]).min(o);
                let parts = 1usize << (o - sub);
                let part = match sym(&a[2]) {
                    0 => 0,
                    1 => parts / 2,
                    _ => parts - 1,
                };
                Some(Op::Put(f + part * (1 << sub), sub, sym(&a[3]) as u8, osl(&a[4])))
            }
            "putbad" => match a[1].as_str()? {
                "again" => {
                    let (f, o) = self.last_freed?;
                    Some(Op::Put(f, o, 0, None))
                }
                "bigger" => {
                    let (f, o) = *self.held.last()?;
                    let o2 = (o + 1).min(TO);
                    Some(Op::Put((f >> o2) << o2, o2, 0, None))
                }
                "hugeover" => {
                    let (f, _) = *self.held.last()?;
                    Some(Op::Put((f >> HO) << HO, HO, 0, None))
                }
                "never" => Some(Op::Put(((frames.checked_sub(1)?) >> 3) << 3, 3, 0, None)),
                _ => None,
            },
            "putraw" => Some(Op::Put(sym(&a[1]), sym(&a[2]), 0, None)),
            "drain" => Some(Op::Drain),
            "change" => Some(Op::Change(
                osl(&a[1]),
                osl(&a[2]).map(|x| x as u8),
                sym(&a[3]),
                osl(&a[4]).map(|x| x as u8),
                sym(&a[5]) as u8,
            )),
            _ => None,
        }
    }
}

/// input: one JSON object per line {"run":..,"frames":..(number or {"tf","hf","plus"}),"init","cls","k","ops":[letters]}
pub fn script_runs(out: &mut Out, path: &str) {
    let text = std::fs::read_to_string(path).expect("script file");
    for (i, line) in text.lines().enumerate() {
        if line.trim().is_empty() {
            continue;
        }
        let v: Value = serde_json::from_str(line).expect("script line");
        let fr = &v["frames"];
        let frames = if fr.is_object() {
            sym(&fr["tf"]) * TF + sym(&fr["hf"]) * HF + sym(&fr["plus"])
        } else {
            sym(fr)
        };
        let init = v["init"].as_str().unwrap_or("free");
        let cls = v["cls"].as_str().unwrap_or("simple");
        let k = v["k"].as_u64().unwrap_or(1) as usize;
        let run = format!("script:{}:{i}", v["run"].as_str().unwrap_or("?"));
        let mut h = Hist::start(out, &run, frames, init, cls, k, i as u64, false);
        for l in v["ops"].as_array().unwrap() {
            if !h.alive() {
                break;
            }
            // macro letter: fragment a tree (one base frame allocated in every row), so that its counter
            // stays high while no block of order >= 6 is free
            if l[0] == "twin" {
                // C07: hand the metadata over to a second allocator (Init::None over byte copies) right here
                if h.twin.is_none() {
                    let mut t = h.w.fork("none");
                    if t.alloc.is_some() {
                        t.last = h.w.last.clone();
                        h.twin = Some(t);
                        h.twin_age = 0;
                    } else {
                        h.out.push(json!({"ev":"reinit","init":"none","ierr": t.init_err.clone().unwrap_or_default(),"obs":{}}));
                    }
                }
                continue;
            }
            if l[0] == "rfree" {
                // macro letter: a whole tree allocated through a slot, then freed without naming the slot
                let c = sym(&l[1]) as u8;
                let sl = h.valid_slot(c, osl(&l[2]));
                let r = h.step(&Op::Get(TO, c, sl, None));
                if r["res"] == "ok" && h.alive() {
                    let f = r["frame"].as_u64().unwrap() as usize;
                    h.step(&Op::Put(f, TO, c, None));
                }
                continue;
            }
            if l[0] == "frag" {
                let t = sym(&l[1]);
                for r in 0..(TF / 64) {
                    let f = t * TF + r * 64 + 1;
                    if f < h.w.frames && h.alive() {
                        h.step(&Op::Get(0, 0, None, Some(f)));
                    }
                }
                continue;
            }
            if let Some(op) = h.resolve_letter(l) {
                h.step(&op);
            }
        }
    }
}

//! Address -> specification location, raw bits -> specification value
//! (layout of the three metadata buffers as the specification defines it).

use serde_json::{Value, json};

use crate::world::*;

#[derive(Clone, Debug)]
pub struct Layout {
    pub lower: usize,
    pub lower_len: usize,
    pub nhuge: usize,
    pub ntrees: usize,
    pub trees: usize,
    pub local: usize,
    pub local_len: usize,
    /// (class, count) in buffer order
    pub classes: Vec<(u8, usize)>,
}

pub const ROW_BYTES: usize = 8;
pub fn bitfield_bytes() -> usize {
    HF / 8
}

impl Layout {
    pub fn of(w: &World) -> Layout {
        Layout {
            lower: w.lower.base(),
            lower_len: w.lower.len,
            nhuge: w.nhuge(),
            ntrees: w.ntrees(),
            trees: w.trees.base(),
            local: w.local.base(),
            local_len: w.local.len,
            classes: w.classes.clone(),
        }
    }
    /// location as JSON: ["row",h,r] | ["entry",h] | ["tree",t] | ["slot",c,k]; None if outside
    pub fn loc(&self, addr: usize, size: usize) -> Option<(Value, usize)> {
        let bf_total = self.nhuge * bitfield_bytes();
        if addr >= self.lower && addr + size <= self.lower + self.lower_len {
            let off = addr - self.lower;
            if off < bf_total {
                let h = off / bitfield_bytes();
                let r = (off % bitfield_bytes()) / ROW_BYTES;
                let byte = off % ROW_BYTES;
                return Some((json!(["row", h, r]), byte));
            }
            let toff = off - bf_total;
            let t = toff / 64;
            let i = (toff % 64) / 2;
            if t < self.ntrees && i < TH && size == 2 {
                return Some((json!(["entry", t * TH + i]), 0));
            }
            return None;
        }
        if addr >= self.trees && addr + size <= self.trees + self.ntrees * 4 && size == 4 {
            return Some((json!(["tree", (addr - self.trees) / 4]), 0));
        }
        if addr >= self.local && addr + size <= self.local + self.local_len && size == 8 {
            let idx = (addr - self.local) / 64;
            let mut base = 0;
            for &(c, n) in &self.classes {
                if idx < base + n {
                    return Some((json!(["slot", c, idx - base]), 0));
                }
                base += n;
            }
        }
        None
    }
}

pub fn bits_of(v: u64) -> Vec<u32> {
    (0..64).filter(|i| v >> i & 1 == 1).collect()
}
pub fn dec_entry(v: u64) -> i64 {
    if v & 0xffff == 0xffff { -1 } else { (v & 0xffff) as i64 }
}
pub fn dec_tree(v: u64) -> Value {
    json!([v & ((1 << 28) - 1), (v >> 28) & 1, (v >> 29) & 7])
}
pub fn dec_slot(v: u64) -> Value {
    json!([(v >> 63) & 1, v & ((1 << 44) - 1), (v >> 44) & ((1 << 19) - 1)])
}

/// full memory image in specification terms
pub fn dump_mem(w: &World) -> Value {
    let lower = w.lower.bytes();
    let nh = w.nhuge();
    let nt = w.ntrees();
    let rows_per = bitfield_bytes() / 8;
    let mut rows = vec![];
    for h in 0..nh {
        let mut rr = vec![];
        for r in 0..rows_per {
            let o = h * bitfield_bytes() + r * 8;
            let v = u64::from_le_bytes(lower[o..o + 8].try_into().unwrap());
            rr.push(bits_of(v));
        }
        rows.push(rr);
    }
    let toff = nh * bitfield_bytes();
    let mut entries = vec![];
    for t in 0..nt {
        for i in 0..TH {
            let o = toff + t * 64 + i * 2;
            let v = u16::from_le_bytes(lower[o..o + 2].try_into().unwrap());
            entries.push(dec_entry(v as u64));
        }
    }
    let tb = w.trees.bytes();
    let trees: Vec<Value> = (0..nt)
        .map(|t| dec_tree(u32::from_le_bytes(tb[t * 4..t * 4 + 4].try_into().unwrap()) as u64))
        .collect();
    let lb = w.local.bytes();
    let mut slots = vec![];
    let mut idx = 0;
    for &(c, n) in &w.classes {
        for k in 0..n {
            let v = u64::from_le_bytes(lb[idx * 64..idx * 64 + 8].try_into().unwrap());
            slots.push(json!([c, k, dec_slot(v)]));
            idx += 1;
        }
    }
    json!({"rows": rows, "entries": entries, "trees": trees, "slots": slots})
}

//! Allocator instances over harness-owned metadata buffers, classing table,
//! observation (projection of the allocator onto the abstract state).

use std::alloc::{Layout, alloc_zeroed, dealloc};
use std::panic::{AssertUnwindSafe, catch_unwind};

use llfree::*;
use serde_json::{Value, json};

use crate::hook;

pub const TH: usize = TREE_HUGE;
pub const HO: usize = HUGE_ORDER;
pub const HF: usize = HUGE_FRAMES;
pub const TF: usize = TREE_FRAMES;
pub const TO: usize = TREE_ORDER;

/// 64-byte aligned, zeroed buffer (may be empty)
pub struct Buf {
    ptr: *mut u8,
    pub len: usize,
    cap: usize,
    align: usize,
}
unsafe impl Send for Buf {}
unsafe impl Sync for Buf {}
impl Buf {
    pub fn new(len: usize) -> Self {
        Self::new_aligned(len, 64)
    }
    pub fn new_aligned(len: usize, align: usize) -> Self {
        let cap = len.max(64);
        let ptr = unsafe { alloc_zeroed(Layout::from_size_align(cap, align).unwrap()) };
        assert!(!ptr.is_null());
        Buf { ptr, len, cap, align }
    }
    pub fn base(&self) -> usize {
        self.ptr as usize
    }
    pub fn slice(&self) -> &'static mut [u8] {
        unsafe { std::slice::from_raw_parts_mut(self.ptr, self.len) }
    }
    pub fn copy_from(&self, o: &Buf) {
        assert_eq!(self.len, o.len);
        unsafe { std::ptr::copy_nonoverlapping(o.ptr, self.ptr, self.len) }
    }
    pub fn bytes(&self) -> Vec<u8> {
        unsafe { std::slice::from_raw_parts(self.ptr, self.len) }.to_vec()
    }
    pub fn set_bytes(&self, b: &[u8]) {
        assert_eq!(self.len, b.len());
        unsafe { std::ptr::copy_nonoverlapping(b.as_ptr(), self.ptr, self.len) }
    }
}
impl Drop for Buf {
    fn drop(&mut self) {
        unsafe { dealloc(self.ptr, Layout::from_size_align(self.cap, self.align).unwrap()) }
    }
}

// ---------------------------------------------------------------------------
// Classings
// ---------------------------------------------------------------------------

fn shape_policy(requested: Class, target: Class, free: usize, low: u8) -> Policy {
    if requested.0 > target.0 {
        return Policy::Steal;
    } else if requested.0 < target.0 {
        return Policy::Demote;
    }
    match free {
        f if f >= TREE_FRAMES / 2 => Policy::Match(1),
        f if f >= TREE_FRAMES / 64 => Policy::Match(u8::MAX),
        _ => Policy::Match(low),
    }
}
/// The repository's zeroed policy (eval/tests/integration.rs, zeroed_steals_from_huge)
fn zeroed_policy(requested: Class, target: Class, free: usize) -> Policy {
    shape_policy(requested, target, free, 0)
}
/// Custom policy that declares some class pairs unusable:
/// class 0 may never use class-2 trees and class 2 may never use class-0 trees.
fn custom_policy(requested: Class, target: Class, free: usize) -> Policy {
    if (requested.0 == 0 && target.0 == 2) || (requested.0 == 2 && target.0 == 0) {
        return Policy::Invalid;
    }
    shape_policy(requested, target, free, 0)
}
/// Single class, everything matches
fn single_policy(_requested: Class, _target: Class, free: usize) -> Policy {
    shape_policy(Class(0), Class(0), free, 0)
}

/// name: simple | movable | zeroed | zeroslot | custom | single ; k = slots per class
pub fn classing(name: &str, k: usize) -> Classing {
    match name {
        "simple" => Classing::simple(k).0,
        "movable" => Classing::movable(k).0,
        "zeroed" => Classing::new(
            &[(Class(0), k), (Class(1), k), (Class(2), k)],
            Class(1),
            zeroed_policy,
        ),
        // class 1 (the default class of fresh trees) has no local slots
        "zeroslot" => Classing::new(&[(Class(0), k), (Class(1), 0)], Class(1), zeroed_policy),
        // class 0 (the lowest class) has no local slots
        "zeroslot0" => Classing::new(&[(Class(0), 0), (Class(1), k)], Class(1), zeroed_policy),
        "custom" => Classing::new(
            &[(Class(0), k), (Class(1), k), (Class(2), k)],
            Class(1),
            custom_policy,
        ),
        "single" => Classing::new(&[(Class(0), k)], Class(0), single_policy),
        // class 0 has one slot more than class 1 (with as many slots as trees a class never reserves on its own)
        "uneven" => Classing::new(&[(Class(0), k + 1), (Class(1), k)], Class(1), zeroed_policy),
        _ => panic!("unknown classing {name}"),
    }
}

pub fn parse_init(s: &str) -> Init {
    match s {
        "free" => Init::FreeAll,
        "alloc" => Init::AllocAll,
        "recover" => Init::Recover,
        "none" => Init::None,
        _ => panic!("init {s}"),
    }
}

// ---------------------------------------------------------------------------
// World
// ---------------------------------------------------------------------------

pub struct World {
    pub frames: usize,
    pub cls_name: String,
    pub k: usize,
    pub classes: Vec<(u8, usize)>,
    pub local: Buf,
    pub trees: Buf,
    pub lower: Buf,
    pub alloc: Option<LLFree<'static>>,
    /// calls go through a zone wrapper (C17); `alloc` is then None and the inner allocator is inside
    pub zone: Option<llfree::wrapper::ZoneAlloc<'static, LLFree<'static>>>,
    pub nvm: Option<llfree::wrapper::NvmAlloc<'static, LLFree<'static>>>,
    /// frame numbers seen by the wrapper = logged frame + shift
    pub shift: usize,
    /// per-frame free status at the last observation
    pub last: Vec<bool>,
    pub init_err: Option<String>,
}

pub fn panic_msg(e: Box<dyn std::any::Any + Send>) -> String {
    if let Some(s) = e.downcast_ref::<String>() {
        s.clone()
    } else if let Some(s) = e.downcast_ref::<&str>() {
        s.to_string()
    } else {
        "?".into()
    }
}

impl World {
    pub fn sizes(frames: usize, cls: &Classing) -> MetaSize {
        LLFree::metadata_size(cls, frames)
    }

    /// Build a fresh allocator; a panic or error during construction is data.
    pub fn new(frames: usize, init: &str, cls_name: &str, k: usize) -> Self {
        Self::new_dirty(frames, init, cls_name, k, None)
    }
    /// `dirty`: fill the lower and tree buffers with pseudo-random bytes first (metadata memory that was
    /// used before, e.g. persistent memory); FreeAll / AllocAll must not depend on the previous content.
    /// (The local buffer stays zeroed: the crate never initializes it, callers hand in zeroed memory.)
    pub fn new_dirty(frames: usize, init: &str, cls_name: &str, k: usize, dirty: Option<u64>) -> Self {
        let cls = classing(cls_name, k);
        let ms = Self::sizes(frames, &cls);
        let w = World {
            frames,
            cls_name: cls_name.into(),
            k,
            classes: cls.classes().iter().map(|&(c, n)| (c.0, n)).collect(),
            local: Buf::new(ms.local),
            trees: Buf::new(ms.trees),
            lower: Buf::new(ms.lower),
            alloc: None,
            zone: None,
            nvm: None,
            shift: 0,
            last: vec![],
            init_err: None,
        };
        if let (Some(seed), true) = (dirty, init == "free" || init == "alloc") {
            let mut x = seed | 1;
            for b in [&w.lower, &w.trees] {
                let sl = b.slice();
                for (i, v) in sl.iter_mut().enumerate() {
                    x ^= x << 13;
                    x ^= x >> 7;
                    x ^= x << 17;
                    // mostly 0xff / random bytes: huge markers, full counters, set bits
                    *v = if (seed + i as u64 / 64) % 3 == 0 { 0xff } else { (x >> 24) as u8 };
                }
            }
        }
        w.build(init)
    }

    fn build(mut self, init: &str) -> Self {
        let cls = classing(&self.cls_name, self.k);
        let meta = MetaData {
            local: self.local.slice(),
            trees: self.trees.slice(),
            lower: self.lower.slice(),
        };
        let frames = self.frames;
        let i = parse_init(init);
        let old = hook::set_mode(hook::OFF);
        match catch_unwind(AssertUnwindSafe(|| LLFree::new(frames, i, &cls, meta))) {
            Ok(Ok(a)) => self.alloc = Some(a),
            Ok(Err(e)) => self.init_err = Some(format!("{e:?}")),
            Err(p) => self.init_err = Some(format!("panic:{}", panic_msg(p))),
        }
        hook::set_mode(old);
        self
    }

    /// New allocator over byte copies of this one's metadata buffers.
    /// `init` = "none" (assume initialized) or "recover" (lower only is meaningful).
    pub fn fork(&self, init: &str) -> World {
        let w = World {
            frames: self.frames,
            cls_name: self.cls_name.clone(),
            k: self.k,
            classes: self.classes.clone(),
            local: Buf::new(self.local.len),
            trees: Buf::new(self.trees.len),
            lower: Buf::new(self.lower.len),
            alloc: None,
            zone: None,
            nvm: None,
            shift: 0,
            last: vec![],
            init_err: None,
        };
        w.lower.copy_from(&self.lower);
        if init == "none" {
            w.local.copy_from(&self.local);
            w.trees.copy_from(&self.trees);
        }
        w.build(init)
    }
    /// Recover from a given lower snapshot
    pub fn from_lower(&self, lower: &[u8]) -> World {
        let w = World {
            frames: self.frames,
            cls_name: self.cls_name.clone(),
            k: self.k,
            classes: self.classes.clone(),
            local: Buf::new(self.local.len),
            trees: Buf::new(self.trees.len),
            lower: Buf::new(self.lower.len),
            alloc: None,
            zone: None,
            nvm: None,
            shift: 0,
            last: vec![],
            init_err: None,
        };
        w.lower.set_bytes(lower);
        w.build("recover")
    }

    pub fn a(&self) -> &LLFree<'static> {
        if let Some(n) = &self.nvm {
            &n.alloc.alloc
        } else if let Some(z) = &self.zone {
            &z.alloc
        } else {
            self.alloc.as_ref().unwrap()
        }
    }
    pub fn has_alloc(&self) -> bool {
        self.alloc.is_some() || self.zone.is_some() || self.nvm.is_some()
    }
    /// run a call on the outermost allocator (wrapper if any), frames translated by `shift`
    pub fn exec(&self, op: &Op) -> Value {
        if let Some(n) = &self.nvm {
            exec_on(n, op, self.shift)
        } else if let Some(z) = &self.zone {
            exec_on(z, op, self.shift)
        } else {
            exec_on(self.a(), op, 0)
        }
    }
    pub fn ntrees(&self) -> usize {
        self.frames.div_ceil(TF)
    }
    pub fn nhuge(&self) -> usize {
        self.frames.div_ceil(HF)
    }

    /// per-frame free query for every managed frame
    pub fn read_free(&self) -> Vec<bool> {
        let a = self.a();
        (0..self.frames)
            .map(|f| a.stats_at(FrameId(f), 0).free_frames == 1)
            .collect()
    }

    /// Observation: everything the abstract monitors look at.
    /// `full` lists every huge frame, otherwise only those whose per-frame
    /// free status differs from the previous observation.
    pub fn obs(&mut self, full: bool) -> Value {
        let old = hook::set_mode(hook::OFF);
        let r = catch_unwind(AssertUnwindSafe(|| self.obs_inner(full)));
        hook::set_mode(old);
        match r {
            Ok(v) => v,
            Err(p) => json!({"panic": panic_msg(p)}),
        }
    }

    fn obs_inner(&mut self, full: bool) -> Value {
        let a = if let Some(n) = &self.nvm {
            &n.alloc.alloc
        } else if let Some(z) = &self.zone {
            &z.alloc
        } else {
            self.alloc.as_ref().unwrap()
        };
        let s = a.stats();
        let ts = a.tree_stats();
        let nt = self.ntrees();
        let nh = self.nhuge();
        let trees: Vec<Value> = (0..nt)
            .map(|i| {
                let (c, f, r) = a.trees.stats_at(TreeId(i));
                json!([f, r as u8, c.0])
            })
            .collect();
        let mut slots = vec![];
        for &(c, n) in &self.classes {
            for i in 0..n {
                match a.verif_local(Class(c), i) {
                    Some((row, free)) => slots.push(json!([c, i, 1, row, free])),
                    None => slots.push(json!([c, i, 0, 0, 0])),
                }
            }
        }
        let huge: Vec<Value> = (0..nh)
            .map(|h| {
                let st = a.stats_at(FrameId(h * HF), HO);
                let fullh = (h + 1) * HF <= self.frames;
                let isf = if fullh {
                    a.lower.is_free(FrameId(h * HF), HO) as u8
                } else {
                    2
                };
                json!([st.free_frames, st.free_huge, isf])
            })
            .collect();
        let tfree: Vec<Value> = (0..nt)
            .map(|t| {
                let st = a.stats_at(FrameId(t * TF), TO);
                let fullt = (t + 1) * TF <= self.frames;
                let isf = if fullt {
                    a.lower.is_free(FrameId(t * TF), TO) as u8
                } else {
                    2
                };
                json!([st.free_frames, st.free_huge, st.free_trees, isf])
            })
            .collect();
        let cur = self.read_free();
        // lower.is_free at order 0 must agree with stats_at(.,0): log disagreements
        let mut isfree_bad = vec![];
        for f in 0..self.frames {
            if a.lower.is_free(FrameId(f), 0) != cur[f] {
                isfree_bad.push(f);
                if isfree_bad.len() > 4 {
                    break;
                }
            }
        }
        let mut chg = vec![];
        for h in 0..nh {
            let lo = h * HF;
            let hi = ((h + 1) * HF).min(self.frames);
            let same = !full && self.last.len() == cur.len() && self.last[lo..hi] == cur[lo..hi];
            if !same {
                chg.push(json!([h, ranges(&cur[lo..hi])]));
            }
        }
        self.last = cur;
        let validate = match catch_unwind(AssertUnwindSafe(|| a.validate())) {
            Ok(()) => "ok".to_string(),
            Err(p) => format!("panic:{}", panic_msg(p)),
        };
        json!({
            "stats": [s.free_frames, s.free_huge, s.free_trees],
            "ts": [ts.free_frames, ts.free_trees],
            "cls": ts.classes.iter().map(|c| json!([c.free_frames, c.alloc_frames])).collect::<Vec<_>>(),
            "trees": trees,
            "slots": slots,
            "huge": huge,
            "tfree": tfree,
            "chg": chg,
            "isfree_bad": isfree_bad,
            "validate": validate,
        })
    }
}

/// maximal runs of `true` as [[lo,hi],...] (inclusive, offsets within the slice)
pub fn ranges(v: &[bool]) -> Value {
    let mut out = vec![];
    let mut i = 0;
    while i < v.len() {
        if v[i] {
            let s = i;
            while i < v.len() && v[i] {
                i += 1;
            }
            out.push(json!([s, i - 1]));
        } else {
            i += 1;
        }
    }
    Value::Array(out)
}

pub fn err_str(e: Error) -> &'static str {
    match e {
        Error::Memory => "mem",
        Error::Argument => "arg",
        Error::Initialization => "init",
    }
}

// ---------------------------------------------------------------------------
// Calls
// ---------------------------------------------------------------------------

#[derive(Clone, Debug)]
pub enum Op {
    /// order, class, slot, target
    Get(usize, u8, Option<usize>, Option<usize>),
    /// frame, order, class, slot
    Put(usize, usize, u8, Option<usize>),
    Drain,
    /// id, match class, match free, change class, op (0 none, 1 online, 2 offline)
    Change(Option<usize>, Option<u8>, usize, Option<u8>, u8),
    /// zone wrappers only: what (0 get, 1 put) on the frame `d + 1` below the zone offset, order
    ZBelow(u8, usize, usize),
}

pub fn opt(v: Option<usize>) -> Value {
    match v {
        Some(x) => json!(x),
        None => json!(-1),
    }
}

impl Op {
    pub fn to_json(&self) -> Value {
        match *self {
            Op::Get(o, c, s, t) => {
                json!({"op":"get","order":o,"class":c,"slot":opt(s),"target":opt(t)})
            }
            Op::Put(f, o, c, s) => json!({"op":"put","frame":f,"order":o,"class":c,"slot":opt(s)}),
            Op::Drain => json!({"op":"drain"}),
            Op::ZBelow(what, d, o) => json!({"op":"zbelow","what":what,"d":d,"order":o}),
            Op::Change(id, mc, mf, cc, op) => json!({"op":"change","id":opt(id),
                "mclass":opt(mc.map(|c| c as usize)),"mfree":mf,
                "cclass":opt(cc.map(|c| c as usize)),"cop":op}),
        }
    }
}

/// Execute one call; the result is a JSON object {res, frame, rclass, msg}
pub fn exec(a: &LLFree<'static>, op: &Op) -> Value {
    exec_on(a, op, 0)
}

/// Execute one call on any allocator; frame arguments are shifted up by `shift`
/// before the call and results shifted down again.
pub fn exec_on<'a, A: Alloc<'a>>(a: &A, op: &Op, shift: usize) -> Value {
    let r = catch_unwind(AssertUnwindSafe(|| match *op {
        Op::Get(o, c, s, t) => match a.get(t.map(|t| FrameId(t + shift)), Request::new(o, Class(c), s)) {
            Ok((f, rc)) => {
                if f.0 >= shift {
                    json!({"res":"ok","frame":f.0 - shift,"rclass":rc.0})
                } else {
                    json!({"res":"ok","frame":-((shift - f.0) as i64),"rclass":rc.0})
                }
            }
            Err(e) => json!({"res":err_str(e)}),
        },
        Op::Put(f, o, c, s) => match a.put(FrameId(f + shift), Request::new(o, Class(c), s)) {
            Ok(()) => json!({"res":"ok"}),
            Err(e) => json!({"res":err_str(e)}),
        },
        Op::Drain => {
            a.drain();
            json!({"res":"ok"})
        }
        Op::Change(id, mc, mf, cc, cop) => {
            let m = TreeMatch {
                id: id.map(TreeId),
                class: mc.map(Class),
                free: mf,
            };
            let ch = TreeChange {
                class: cc.map(Class),
                operation: match cop {
                    1 => Some(TreeOperation::Online),
                    2 => Some(TreeOperation::Offline),
                    _ => None,
                },
            };
            match a.change_tree(m, ch) {
                Ok(()) => json!({"res":"ok"}),
                Err(e) => json!({"res":err_str(e)}),
            }
        }
        Op::ZBelow(what, d, o) => {
            // a frame below the zone's offset (shift > d)
            let f = FrameId(shift - 1 - d);
            let rq = Request::new(o, Class(0), None);
            let before = a.stats_at(f, 0).free_frames;
            match what {
                0 => match a.get(Some(f), rq) {
                    Ok(_) => json!({"res":"ok","stat":before}),
                    Err(e) => json!({"res":err_str(e),"stat":before}),
                },
                _ => match a.put(f, rq) {
                    Ok(_) => json!({"res":"ok","stat":before}),
                    Err(e) => json!({"res":err_str(e),"stat":before}),
                },
            }
        }
    }));
    match r {
        Ok(v) => v,
        Err(p) => json!({"res":"panic","msg":panic_msg(p)}),
    }
}

pub fn merge(mut a: Value, b: Value) -> Value {
    if let (Some(ao), Some(bo)) = (a.as_object_mut(), b.as_object()) {
        for (k, v) in bo {
            ao.insert(k.clone(), v.clone());
        }
    }
    a
}

//! Conformance harness for the llfree TLA+ specifications (see /verif/DESIGN.md).
mod conc;
mod decode;
mod hook;
mod sat;
mod seq;
mod world;
mod zone;

use std::collections::HashMap;
use std::io::Write;

fn args() -> (String, HashMap<String, String>) {
    let mut a = std::env::args().skip(1);
    let cmd = a.next().unwrap_or_else(|| "help".into());
    let mut m = HashMap::new();
    for kv in a {
        if let Some((k, v)) = kv.split_once('=') {
            m.insert(k.to_string(), v.to_string());
        }
    }
    (cmd, m)
}

fn geti(m: &HashMap<String, String>, k: &str, d: usize) -> usize {
    m.get(k).map(|v| v.parse().unwrap()).unwrap_or(d)
}

fn write_out(m: &HashMap<String, String>, props: &str, lines: &[String]) {
    let path = m.get("out").expect("out=FILE");
    let mut f = std::io::BufWriter::new(std::fs::File::create(path).unwrap());
    let ps: Vec<&str> = props.split(',').filter(|s| !s.is_empty()).collect();
    writeln!(f, "{}", serde_json::json!({"ev":"hdr","props":ps})).unwrap();
    for l in lines {
        writeln!(f, "{l}").unwrap();
    }
}

fn main() {
    // panics of the code under test are data: keep stderr quiet
    if std::env::var("VH_PANIC").is_err() {
        std::panic::set_hook(Box::new(|_| {}));
    }
    hook::install();
    let (cmd, m) = args();
    let seed = geti(&m, "seed", 1) as u64;
    let props = m.get("props").cloned().unwrap_or_default();
    match cmd.as_str() {
        "geo" => println!(
            "{}",
            serde_json::json!({"th": world::TH, "ho": world::HO, "tf": world::TF, "hf": world::HF})
        ),
        "seq" => {
            let mut out = seq::Out::new();
            seq::random_runs(
                &mut out,
                seed,
                geti(&m, "runs", 10),
                geti(&m, "len", 100),
                geti(&m, "twins", 1) == 1,
            );
            write_out(&m, &props, &out.lines);
        }
        "init" => {
            let mut out = seq::Out::new();
            let counts: Vec<usize> = m
                .get("counts")
                .map(|s| s.split(',').map(|x| x.parse().unwrap()).collect())
                .unwrap_or_default();
            seq::init_sweep(&mut out, &counts);
            write_out(&m, &props, &out.lines);
        }
        "c11" => {
            let mut out = seq::Out::new();
            seq::c11_runs(&mut out, seed, geti(&m, "runs", 10));
            write_out(&m, &props, &out.lines);
        }
        "conc" => {
            // conc scn=<file> [name=<scenario>] bound=2 limit=4000 pct=0 depth=3 crash=0 every=1 solo=0 stride=1
            let file = m.get("scn").expect("scn=FILE");
            let all: serde_json::Value = serde_json::from_str(&std::fs::read_to_string(file).unwrap()).unwrap();
            let mut out = seq::Out::new();
            let mut summary = vec![];
            for v in all.as_array().unwrap() {
                let nm = v["name"].as_str().unwrap();
                if let Some(want) = m.get("name") {
                    if !want.split(',').any(|w| w == nm) {
                        continue;
                    }
                }
                if let Some(g) = v.get("geo").and_then(|g| g.as_array()) {
                    let me = format!("th{}{}", world::TH, if world::HO == 11 { "-16k" } else { "" });
                    if !g.iter().any(|x| x.as_str() == Some(&me)) {
                        continue;
                    }
                }
                let scn = conc::Scenario::parse(v);
                let opts = conc::ExecOpts {
                    probe: geti(&m, "probe", 0) == 1,
                    keep_ops: m.contains_key("opsout"),
                    crash: geti(&m, "crash", 0) == 1,
                    crash_every: geti(&m, "every", 1),
                    max_steps: geti(&m, "maxsteps", 3000),
                    epilogue: geti(&m, "epilogue", 0) == 1,
                };
                let mut ex = conc::Explore::new(&scn, &mut out);
                ex.keep_bases = geti(&m, "bases", 0);
                if let Some(sc) = m.get("asched") {
                    // replay one access schedule (from a FINE counterexample)
                    let sched: Vec<usize> = sc.split(',').filter(|x| !x.is_empty()).map(|x| x.parse().unwrap()).collect();
                    let r = ex.run(&mut conc::Strategy::Access(0, sched), &opts, vec![]);
                    // solot=<t> solofrom=<n>: the schedule is a FINE `Freeze` counterexample (bin/freeze.py): after
                    // its first n accesses only thread t runs.  Emit the solo event of t's in-flight call (C21).
                    if let (Some(t), false) = (m.get("solot").map(|x| x.parse::<usize>().unwrap()), r.runaway) {
                        if let Some(e) = conc::solo_event_of(&r, t, geti(&m, "solofrom", 0)) {
                            ex.out_push(e);
                        }
                    }
                } else {
                    ex.dfs(geti(&m, "bound", 2), &opts, geti(&m, "limit", 4000));
                }
                let npct = geti(&m, "pct", 0);
                if npct > 0 {
                    ex.pct(seed, npct, geti(&m, "depth", 3), &opts);
                }
                let mut nsolo = 0;
                if geti(&m, "solo", 0) == 1 {
                    // base schedules: the non-preemptive one per starting thread
                    let plain = conc::ExecOpts { probe: false, keep_ops: false, crash: false, crash_every: 1, max_steps: 3000, epilogue: false };
                    for t0 in 0..scn.threads.len() {
                        let r = conc::execute(&scn, &mut conc::Strategy::Prefix(vec![t0]), &plain, None);
                        nsolo += ex.solo_points(&r.steps, geti(&m, "budget", 20000), geti(&m, "stride", 1));
                    }
                    // plus the (sampled) schedules the DFS went through
                    let bases = std::mem::take(&mut ex.bases);
                    let every = (bases.len() / geti(&m, "nbases", 12).max(1)).max(1);
                    for b in bases.iter().step_by(every) {
                        nsolo += ex.solo_points(b, geti(&m, "budget", 20000), geti(&m, "stride", 1));
                    }
                }
                if let Some(p) = m.get("opsout") {
                    std::fs::write(p, ex.ops_lines.join("\n") + "\n").unwrap();
                }
                summary.push(serde_json::json!({"scn": nm, "execs": ex.execs, "distinct": ex.distinct, "opseqs": ex.ops_lines.len(),
                    "max_steps": ex.max_steps_seen, "solo": nsolo}));
            }
            write_out(&m, &props, &out.lines);
            println!("{}", serde_json::Value::Array(summary));
        }
        "rows" => {
            let mut out = seq::Out::new();
            sat::rowsearch(&mut out, seed, geti(&m, "part", 0), geti(&m, "parts", 1), geti(&m, "rand", 500));
            write_out(&m, &props, &out.lines);
        }
        "sortbuf" => {
            let mut out = seq::Out::new();
            sat::sortbuf(&mut out, seed, geti(&m, "maxlen", 5), geti(&m, "dom", 4) as u8,
                geti(&m, "part", 0), geti(&m, "parts", 1), geti(&m, "rand", 500));
            write_out(&m, &props, &out.lines);
        }
        "treesearch" => {
            let mut out = seq::Out::new();
            sat::treesearch(&mut out, seed, geti(&m, "runs", 500));
            write_out(&m, &props, &out.lines);
        }
        "meta" => {
            let mut out = seq::Out::new();
            sat::meta_runs(&mut out, seed, geti(&m, "runs", 600));
            write_out(&m, &props, &out.lines);
        }
        "lower" => {
            let mut out = seq::Out::new();
            sat::lower_runs(&mut out, seed, geti(&m, "runs", 20));
            write_out(&m, &props, &out.lines);
        }
        "zone" => {
            let mut out = seq::Out::new();
            zone::zone_runs(&mut out, seed, geti(&m, "runs", 6), geti(&m, "len", 60));
            write_out(&m, &props, &out.lines);
        }
        "script" => {
            let mut out = seq::Out::new();
            seq::script_runs(&mut out, m.get("in").expect("in=FILE"));
            write_out(&m, &props, &out.lines);
        }
        "dumpmem" => {
            // memory image after a scenario's setup + the thread programs, for the FINE model (MC modules)
            let file = m.get("scn").expect("scn=FILE");
            let all: serde_json::Value = serde_json::from_str(&std::fs::read_to_string(file).unwrap()).unwrap();
            for v in all.as_array().unwrap() {
                if v["name"].as_str() != m.get("name").map(|s| s.as_str()) {
                    continue;
                }
                let scn = conc::Scenario::parse(v);
                println!("{}", conc::dump_scenario(&scn));
            }
        }
        "crashseq" => {
            // random single-thread programs, a crash probe before every write to the lower metadata
            let mut out = seq::Out::new();
            let mut rng = seq::Rng(seed ^ 0xc5a5);
            let runs = geti(&m, "runs", 20);
            let mut writes = 0;
            for i in 0..runs {
                let scn = conc::random_scenario(&mut rng, i);
                let opts = conc::ExecOpts { probe: false, keep_ops: false, crash: true, crash_every: geti(&m, "every", 1), max_steps: 100000, epilogue: false };
                let mut ex = conc::Explore::new(&scn, &mut out);
                ex.run(&mut conc::Strategy::Prefix(vec![]), &opts, vec![]);
                writes += hook::rec_writes();
            }
            write_out(&m, &props, &out.lines);
            println!("{}", serde_json::json!({"runs": runs, "writes": writes}));
        }
        _ => {
            eprintln!("usage: vharness <geo|seq|init|c11|...> key=value ...");
            std::process::exit(2);
        }
    }
}

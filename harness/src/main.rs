//! Conformance harness for the llfree TLA+ specifications (see /verif/DESIGN.md).
mod hook;
mod seq;
mod world;

use std::collections::HashMap;
use std::io::Write;

fn args() -> (String, HashMap<String, String>) {
    let mut a = std::env::args().skip(1);
    let cmd = a.next().unwrap_or_else(|| "help".into());
    let mut m = HashMap::new();
    for kv in a {
        if let Some((k, v)) = kv.split_once('=') {
            m.insert(k.to_string(), v.to_string());
        }
    }
    (cmd, m)
}

fn geti(m: &HashMap<String, String>, k: &str, d: usize) -> usize {
    m.get(k).map(|v| v.parse().unwrap()).unwrap_or(d)
}

fn write_out(m: &HashMap<String, String>, props: &str, lines: &[String]) {
    let path = m.get("out").expect("out=FILE");
    let mut f = std::io::BufWriter::new(std::fs::File::create(path).unwrap());
    let ps: Vec<&str> = props.split(',').filter(|s| !s.is_empty()).collect();
    writeln!(f, "{}", serde_json::json!({"ev":"hdr","props":ps})).unwrap();
    for l in lines {
        writeln!(f, "{l}").unwrap();
    }
}

fn main() {
    // panics of the code under test are data: keep stderr quiet
    std::panic::set_hook(Box::new(|_| {}));
    hook::install();
    let (cmd, m) = args();
    let seed = geti(&m, "seed", 1) as u64;
    let props = m.get("props").cloned().unwrap_or_default();
    match cmd.as_str() {
        "geo" => println!(
            "{}",
            serde_json::json!({"th": world::TH, "ho": world::HO, "tf": world::TF, "hf": world::HF})
        ),
        "seq" => {
            let mut out = seq::Out::new();
            seq::random_runs(
                &mut out,
                seed,
                geti(&m, "runs", 10),
                geti(&m, "len", 100),
                geti(&m, "twins", 1) == 1,
            );
            write_out(&m, &props, &out.lines);
        }
        "init" => {
            let mut out = seq::Out::new();
            let counts: Vec<usize> = m
                .get("counts")
                .map(|s| s.split(',').map(|x| x.parse().unwrap()).collect())
                .unwrap_or_default();
            seq::init_sweep(&mut out, &counts);
            write_out(&m, &props, &out.lines);
        }
        "c11" => {
            let mut out = seq::Out::new();
            seq::c11_runs(&mut out, seed, geti(&m, "runs", 10));
            write_out(&m, &props, &out.lines);
        }
        _ => {
            eprintln!("usage: vharness <geo|seq|init|c11|...> key=value ...");
            std::process::exit(2);
        }
    }
}

//! Concurrent driver: real OS threads under the baton scheduler, one
//! scheduling point per atomic access (and per call start).  Strategies:
//! fixed prefix + non-preemptive default, DFS with pre-emption bound, PCT,
//! solo (C21), crash points (C05).

use std::collections::HashSet;
use std::sync::Mutex;

use llfree::Alloc;
use serde_json::{Value, json};

use crate::hook::{self, Rec, Step};
use crate::seq::{Out, Rng};
use crate::world::*;

#[derive(Clone, Debug)]
pub enum SymOp {
    Get { order: usize, class: u8, slot: Option<usize>, target: Option<usize> },
    /// setup only: allocate and hand the block to thread `t`
    GetFor { t: usize, order: usize, class: u8, slot: Option<usize> },
    Put { idx: usize, class: u8, slot: Option<usize> },
    PutPart { idx: usize, sub: usize, part: usize, class: u8, slot: Option<usize> },
    PutRaw { frame: usize, order: usize, class: u8, slot: Option<usize> },
    /// setup only: allocate one base frame in every row of tree `t`
    Frag { t: usize },
    Drain,
    Change { id: Option<usize>, mclass: Option<u8>, mfree: usize, cclass: Option<u8>, cop: u8 },
}

fn oi(v: &Value) -> Option<usize> {
    if v.is_string() {
        return Some(ui(v));
    }
    v.as_i64().and_then(|x| if x < 0 { None } else { Some(x as usize) })
}
fn ui(v: &Value) -> usize {
    if let Some(s) = v.as_str() {
        // symbolic sizes: sum of terms HO | TO | HF | TF | <int>, e.g. "HO+1", "TF+TF+5", "TO-1"
        let mut total: isize = 0;
        let mut sign = 1isize;
        let mut cur = String::new();
        for ch in s.chars().chain(std::iter::once('+')) {
            if ch == '+' || ch == '-' {
                if !cur.is_empty() {
                    let t = match cur.as_str() {
                        "HO" => HO as isize,
                        "TO" => TO as isize,
                        "HF" => HF as isize,
                        "TF" => TF as isize,
                        x => x.parse::<isize>().unwrap_or_else(|_| panic!("symbol {s}")),
                    };
                    total += sign * t;
                    cur.clear();
                }
                sign = if ch == '-' { -1 } else { 1 };
            } else {
                cur.push(ch);
            }
        }
        return total.max(0) as usize;
    }
    v.as_u64().unwrap_or(0) as usize
}

impl SymOp {
    /// ["get",order,class,slot,target] ["getfor",t,order,class,slot] ["put",idx,class,slot]
    /// ["putpart",idx,sub,part,class,slot] ["putraw",frame,order,class,slot] ["drain"]
    /// ["change",id,mclass,mfree,cclass,cop]
    pub fn parse(v: &Value) -> SymOp {
        let a = v.as_array().expect("op array");
        match a[0].as_str().unwrap() {
            "get" => SymOp::Get { order: ui(&a[1]), class: ui(&a[2]) as u8, slot: oi(&a[3]), target: oi(&a[4]) },
            "getfor" => SymOp::GetFor { t: ui(&a[1]), order: ui(&a[2]), class: ui(&a[3]) as u8, slot: oi(&a[4]) },
            "put" => SymOp::Put { idx: ui(&a[1]), class: ui(&a[2]) as u8, slot: oi(&a[3]) },
            "putpart" => SymOp::PutPart {
                idx: ui(&a[1]), sub: ui(&a[2]), part: ui(&a[3]), class: ui(&a[4]) as u8, slot: oi(&a[5]),
            },
            "putraw" => SymOp::PutRaw { frame: ui(&a[1]), order: ui(&a[2]), class: ui(&a[3]) as u8, slot: oi(&a[4]) },
            "drain" => SymOp::Drain,
            "frag" => SymOp::Frag { t: ui(&a[1]) },
            "change" => SymOp::Change {
                id: oi(&a[1]), mclass: oi(&a[2]).map(|x| x as u8), mfree: ui(&a[3]),
                cclass: oi(&a[4]).map(|x| x as u8), cop: ui(&a[5]) as u8,
            },
            x => panic!("unknown op {x}"),
        }
    }
}

#[derive(Clone, Debug)]
pub struct Scenario {
    pub name: String,
    pub frames: usize,
    pub init: String,
    pub cls: String,
    pub k: usize,
    pub setup: Vec<SymOp>,
    pub threads: Vec<Vec<SymOp>>,
}
impl Scenario {
    pub fn parse(v: &Value) -> Scenario {
        // frames may be given symbolically: {"tf":a,"hf":b,"plus":c}
        let fr = &v["frames"];
        let frames = if fr.is_object() {
            ui(&fr["tf"]) * TF + ui(&fr["hf"]) * HF + ui(&fr["plus"])
        } else {
            ui(fr)
        };
        Scenario {
            name: v["name"].as_str().unwrap().to_string(),
            frames,
            init: v["init"].as_str().unwrap_or("free").to_string(),
            cls: v["cls"].as_str().unwrap_or("simple").to_string(),
            k: v["k"].as_u64().unwrap_or(1) as usize,
            setup: v["setup"].as_array().map(|a| a.iter().map(SymOp::parse).collect()).unwrap_or_default(),
            threads: v["threads"]
                .as_array()
                .unwrap()
                .iter()
                .map(|t| t.as_array().unwrap().iter().map(SymOp::parse).collect())
                .collect(),
        }
    }
}

/// Blocks held by a thread (index stable; None = freed)
type Held = Vec<Option<(usize, usize)>>;

fn resolve(op: &SymOp, held: &Held) -> Option<(Op, Option<(usize, usize)>)> {
    // returns the concrete op and, for frees, the held block it belongs to
    match *op {
        SymOp::Get { order, class, slot, target } => Some((Op::Get(order, class, slot, target), None)),
        SymOp::GetFor { order, class, slot, .. } => Some((Op::Get(order, class, slot, None), None)),
        SymOp::Put { idx, class, slot } => {
            let (f, o) = (*held.get(idx)?)?;
            Some((Op::Put(f, o, class, slot), Some((f, o))))
        }
        SymOp::PutPart { idx, sub, part, class, slot } => {
            let (f, o) = (*held.get(idx)?)?;
            if sub >= o {
                return Some((Op::Put(f, o, class, slot), Some((f, o))));
            }
            let parts = 1usize << (o - sub);
            Some((Op::Put(f + (part % parts) * (1 << sub), sub, class, slot), Some((f, o))))
        }
        SymOp::PutRaw { frame, order, class, slot } => Some((Op::Put(frame, order, class, slot), None)),
        SymOp::Drain => Some((Op::Drain, None)),
        SymOp::Frag { .. } => None,
        SymOp::Change { id, mclass, mfree, cclass, cop } => Some((Op::Change(id, mclass, mfree, cclass, cop), None)),
    }
}

pub fn buddies(bf: usize, bo: usize, pf: usize, po: usize) -> Vec<(usize, usize)> {
    let (mut bf, mut bo) = (bf, bo);
    let mut out = vec![];
    while bo > po {
        let half = 1usize << (bo - 1);
        if pf < bf + half {
            out.push((bf + half, bo - 1));
        } else {
            out.push((bf, bo - 1));
            bf += half;
        }
        bo -= 1;
    }
    out
}

// ---------------------------------------------------------------------------
// strategies
// ---------------------------------------------------------------------------

pub enum Strategy {
    /// follow `prefix`, then stay on the running thread while it is enabled (lowest id otherwise)
    Prefix(Vec<usize>),
    /// follow `prefix`, then run only thread `t` until its in-flight call returns
    Solo(Vec<usize>, usize),
    /// PCT: random priorities, `changes` priority-change points
    Pct { prio: Vec<usize>, changes: Vec<usize>, low: usize },
    /// schedule of ACCESSES (thread id per atomic access, as emitted by the FINE model); call starts
    /// are not counted.  (next index, schedule)
    Access(usize, Vec<usize>),
}

pub struct ExecResult {
    /// decoded atomic accesses (only with keep_ops)
    pub ops: Vec<Value>,
    pub steps: Vec<Step>,
    pub log: Vec<Rec>,
    pub runaway: bool,
    /// for Solo: number of steps the solo thread took, and how its call ended
    pub solo: Option<(usize, String)>,
}

/// crash probes need the blocks completed so far
static COMPLETED: Mutex<Vec<(usize, usize)>> = Mutex::new(Vec::new());

pub struct ExecOpts {
    /// C10: after the execution, drain and probe (base-order get, targeted get of a free frame)
    pub probe: bool,
    pub keep_ops: bool,
    pub crash: bool,
    /// only probe every n-th write
    pub crash_every: usize,
    pub max_steps: usize,
    /// C03 / C04: after the execution the callers wind down like well-behaved callers do: every block a thread
    /// still holds is freed, then the reservations are drained (sequential `sc` events)
    pub epilogue: bool,
}

pub fn crash_probe(w: &World, widx: usize, t: usize) -> Value {
    let snap = w.lower.bytes();
    let r = w.from_lower(&snap);
    if r.alloc.is_none() {
        return json!({"ev":"crash","w":widx,"t":t,"ierr":r.init_err.clone().unwrap_or_default()});
    }
    let cur = r.read_free();
    let nh = r.nhuge();
    let mut free = vec![];
    for h in 0..nh {
        let lo = h * HF;
        let hi = ((h + 1) * HF).min(r.frames);
        free.push(json!([h, ranges(&cur[lo..hi])]));
    }
    let a = r.a();
    let s = a.stats();
    let ts = a.tree_stats();
    let validate = match std::panic::catch_unwind(std::panic::AssertUnwindSafe(|| a.validate())) {
        Ok(()) => "ok".to_string(),
        Err(p) => format!("panic:{}", panic_msg(p)),
    };
    // every completed block must be freeable with its order
    let blocks = COMPLETED.lock().unwrap_or_else(|e| e.into_inner()).clone();
    let mut puts = vec![];
    for (f, o) in blocks {
        let res = exec(a, &Op::Put(f, o, 0, None));
        puts.push(json!([f, o, (res["res"] == "ok") as u8]));
    }
    json!({"ev":"crash","w":widx,"t":t,"ierr":"","free":free,
           "stats":[s.free_frames,s.free_huge,s.free_trees],"ts":[ts.free_frames,ts.free_trees],
           "validate":validate,"puts":puts})
}

/// One execution of a scenario under a strategy.
pub fn execute(scn: &Scenario, strat: &mut Strategy, opts: &ExecOpts, out_setup: Option<&mut Out>) -> ExecResult {
    let mut w = World::new(scn.frames, &scn.init, &scn.cls, scn.k);
    let nthreads = scn.threads.len();
    let mut helds: Vec<Held> = vec![vec![]; nthreads];
    // ---- reset + sequential setup (hooks off)
    hook::set_mode(hook::OFF);
    let mut setup_events = vec![];
    setup_events.push(crate::seq::reset_event(&mut w, &scn.name, &scn.init, "conc", false));
    COMPLETED.lock().unwrap_or_else(|e| e.into_inner()).clear();
    if w.alloc.is_none() {
        if let Some(o) = out_setup {
            for e in setup_events {
                o.push(e);
            }
        }
        return ExecResult { ops: vec![], steps: vec![], log: vec![], runaway: false, solo: None };
    }
    let mut setup_held: Held = vec![];
    for op in &scn.setup {
        if let SymOp::Frag { t } = op {
            for r in 0..(TF / 64) {
                let f = t * TF + r * 64 + 1;
                if f < w.frames {
                    let cop = Op::Get(0, 0, None, Some(f));
                    let res = exec(w.a(), &cop);
                    let obs = w.obs(false);
                    setup_events.push(merge(merge(cop.to_json(), res), json!({"ev":"sc","obs":obs})));
                }
            }
            continue;
        }
        let Some((cop, _)) = resolve(op, &setup_held) else { continue };
        let res = exec(w.a(), &cop);
        let obs = w.obs(false);
        let mut ev = merge(cop.to_json(), res.clone());
        ev = merge(ev, json!({"ev":"sc","obs":obs}));
        setup_events.push(ev);
        if res["res"] == "ok" {
            if let Op::Get(o, ..) = cop {
                let f = res["frame"].as_u64().unwrap() as usize;
                match op {
                    SymOp::GetFor { t, .. } => {
                        helds[*t].push(Some((f, o)));
                        COMPLETED.lock().unwrap().push((f, o));
                    }
                    _ => setup_held.push(Some((f, o))),
                }
            }
            if let SymOp::Put { idx, .. } = op {
                setup_held[*idx] = None;
            }
        }
    }
    setup_events.push(json!({"ev":"mark","held": helds.iter().flatten().flatten()
        .map(|b| json!([b.0, b.1])).collect::<Vec<_>>()}));
    if let Some(o) = out_setup {
        for e in setup_events {
            o.push(e);
        }
    }

    // ---- concurrent part
    hook::rec_reset(opts.keep_ops);
    hook::sched_reset(nthreads);
    if opts.crash {
        let wp = &w as *const World as usize;
        let every = opts.crash_every.max(1);
        let lo = w.lower.base();
        let hi = lo + w.lower.len;
        hook::rec_set_on_write(Some(Box::new(move |widx, pre| {
            if pre.addr < lo || pre.addr >= hi || widx % every != 0 {
                return None;
            }
            // Safety: the world outlives the execution; the probe only reads it
            let w = unsafe { &*(wp as *const World) };
            Some(crash_probe(w, widx, pre.t))
        })));
    }
    let mut steps: Vec<Step> = vec![];
    let mut runaway = false;
    let mut solo_steps = 0usize;
    let mut solo_active = matches!(strat, Strategy::Solo(..));
    let alloc = w.a();
    let mut final_helds: Vec<Held> = vec![vec![]; nthreads];
    std::thread::scope(|s| {
        let mut handles = vec![];
        for (t, prog) in scn.threads.iter().enumerate() {
            let mut held = std::mem::take(&mut helds[t]);
            handles.push(s.spawn(move || {
                hook::set_tid(t);
                hook::set_mode(hook::SCHED);
                for op in prog {
                    hook::park(hook::K_CALL);
                    let Some((cop, of)) = resolve(op, &held) else { continue };
                    let mut cev = merge(cop.to_json(), json!({"ev":"call","t":t}));
                    if let (Op::Put(f, o, ..), Some(b)) = (&cop, of) {
                        if (*f, *o) != b {
                            cev = merge(cev, json!({"of":[b.0,b.1]}));
                        }
                        COMPLETED.lock().unwrap_or_else(|e| e.into_inner()).retain(|x| *x != b);
                    }
                    hook::rec_event(cev);
                    let res = exec(alloc, &cop);
                    hook::rec_event(merge(res.clone(), json!({"ev":"ret","t":t})));
                    if res["res"] == "panic" {
                        // the thread is gone (as in the FINE model): it does not run the rest of its program
                        break;
                    }
                    if res["res"] == "ok" {
                        match (&cop, op) {
                            (Op::Get(o, ..), _) => {
                                let f = res["frame"].as_u64().unwrap() as usize;
                                held.push(Some((f, *o)));
                                COMPLETED.lock().unwrap_or_else(|e| e.into_inner()).push((f, *o));
                            }
                            (Op::Put(f, o, ..), SymOp::Put { idx, .. } | SymOp::PutPart { idx, .. }) => {
                                let b = held[*idx].take().unwrap();
                                // the remaining buddies stay held (appended)
                                for bb in buddies(b.0, b.1, *f, *o) {
                                    held.push(Some(bb));
                                    COMPLETED.lock().unwrap_or_else(|e| e.into_inner()).push(bb);
                                }
                            }
                            _ => {}
                        }
                    }
                }
                hook::set_mode(hook::OFF);
                hook::finish();
                held
            }));
        }
        // controller
        let mut last: Option<usize> = None;
        loop {
            let enabled = hook::wait_quiet();
            if enabled.is_empty() {
                break;
            }
            if steps.len() >= opts.max_steps {
                // a call that does not end: make every still running call unwind at its next access
                runaway = true;
                hook::abort_all();
                break;
            }
            let ids: Vec<usize> = enabled.iter().map(|e| e.0).collect();
            let i = steps.len();
            let default = |last: Option<usize>| match last {
                Some(l) if ids.contains(&l) => l,
                _ => ids[0],
            };
            let chosen = match strat {
                Strategy::Prefix(p) => {
                    if i < p.len() && ids.contains(&p[i]) { p[i] } else { default(last) }
                }
                Strategy::Solo(p, t) => {
                    if i < p.len() && ids.contains(&p[i]) {
                        p[i]
                    } else if solo_active {
                        // the solo thread's call is over when it waits at a call start or is gone
                        let at = enabled.iter().find(|e| e.0 == *t);
                        match at {
                            Some(&(_, k)) if k != hook::K_CALL => {
                                solo_steps += 1;
                                *t
                            }
                            _ => {
                                solo_active = false;
                                default(last)
                            }
                        }
                    } else {
                        default(last)
                    }
                }
                Strategy::Access(pos, sched) => {
                    if *pos < sched.len() && ids.contains(&sched[*pos]) {
                        let t = sched[*pos];
                        let k = enabled.iter().find(|e| e.0 == t).unwrap().1;
                        if k != hook::K_CALL {
                            *pos += 1;
                        }
                        t
                    } else {
                        default(last)
                    }
                }
                Strategy::Pct { prio, changes, low } => {
                    if changes.contains(&i) {
                        if let Some(l) = last {
                            prio[l] = *low;
                            *low = low.saturating_sub(1);
                        }
                    }
                    *ids.iter().max_by_key(|t| prio[**t]).unwrap()
                }
            };
            let kind = enabled.iter().find(|e| e.0 == chosen).unwrap().1;
            steps.push(Step { enabled: ids, chosen, kind });
            last = Some(chosen);
            hook::grant(chosen);
        }
        for (t, h) in handles.into_iter().enumerate() {
            if let Ok(held) = h.join() {
                final_helds[t] = held;
            }
        }
    });
    hook::rec_set_on_write(None);
    let mut log = hook::rec_take();
    let mut ops = vec![];
    if opts.keep_ops {
        let lay = crate::decode::Layout::of(&w);
        for r in &log {
            if let Rec::Op(o) = r {
                ops.push(decode_op(&lay, o));
            }
        }
    }
    if opts.crash && !runaway {
        // crash "at the end"
        hook::set_mode(hook::OFF);
        log.push(Rec::Ev(crash_probe(&w, hook::rec_writes() + 1, 0)));
    }
    // final quiescent observation
    hook::set_mode(hook::OFF);
    let obs = w.obs(true);
    log.push(Rec::Ev(json!({"ev":"obs","obs":obs})));
    let panicked = log.iter().any(|r| matches!(r, Rec::Ev(v) if v["ev"] == "ret" && v["res"] == "panic"));
    if opts.epilogue && !runaway && !panicked {
        // the callers wind down: frees of everything still held (through slot 0 of class 0 if it exists), then a drain
        let slot = if w.classes.iter().any(|c| c.0 == 0 && c.1 > 0) { Some(0) } else { None };
        let mut ops = vec![];
        for (t, held) in final_helds.iter().enumerate() {
            for b in held.iter().flatten() {
                ops.push(Op::Put(b.0, b.1, 0, if t % 2 == 0 { slot } else { None }));
            }
        }
        ops.push(Op::Drain);
        for op in ops {
            let res = exec(w.a(), &op);
            let stop = res["res"] == "panic";
            let obs = w.obs(false);
            log.push(Rec::Ev(merge(merge(op.to_json(), res), json!({"ev":"sc","obs":obs,"epilogue":1}))));
            if stop {
                break;
            }
        }
    }
    if opts.probe && !runaway && !panicked {
        // C10 on the quiescent state this interleaving reached: drain, then a base-order allocation and a
        // targeted allocation of a frame that is free right now
        let mut probes = vec![Op::Drain, Op::Get(0, 0, None, None)];
        let free_now: Vec<usize> = w.last.iter().enumerate().filter(|(_, f)| **f).map(|(i, _)| i).collect();
        if free_now.len() > 1 {
            probes.push(Op::Drain);
            probes.push(Op::Get(0, 0, Some(0), Some(free_now[free_now.len() / 2])));
        }
        // one targeted allocation per tree that has a free frame (its last free frame; the first one may be
        // taken by the base-order probe): a tree whose counter lost frames refuses it
        for t in 0..w.ntrees() {
            if let Some(&f) = free_now.iter().rev().find(|f| **f / TF == t) {
                if free_now.len() > 1 && f != free_now[free_now.len() / 2] && f != free_now[0] {
                    probes.push(Op::Drain);
                    probes.push(Op::Get(0, 0, Some(0), Some(f)));
                }
            }
        }
        for op in probes {
            let res = exec(w.a(), &op);
            let obs = w.obs(false);
            log.push(Rec::Ev(merge(merge(op.to_json(), res), json!({"ev":"sc","obs":obs}))));
        }
    }
    let solo = if let Strategy::Solo(_, t) = strat {
        Some((solo_steps, if runaway { "budget".to_string() } else { "done".to_string() }, *t))
    } else {
        None
    };
    ExecResult {
        ops,
        steps,
        log,
        runaway,
        solo: solo.map(|(n, r, _)| (n, r)),
    }
}

/// C21 replay of a FINE `Freeze` counterexample: in execution `r`, thread `t` ran alone after the first `from`
/// accesses.  Returns the solo event of the call t had in flight there (None if the execution was not a solo
/// run of t from that point to the end of the call: the counterexample does not reproduce).
pub fn solo_event_of(r: &ExecResult, t: usize, from: usize) -> Option<Value> {
    // scheduling step index p at which `from` accesses have been performed
    let mut acc = 0;
    let mut p = 0;
    while p < r.steps.len() && acc < from {
        if r.steps[p].kind != hook::K_CALL {
            acc += 1;
        }
        p += 1;
    }
    // a call start of t directly at the freeze point belongs to the prefix (the model freezes after it)
    let mut q = p;
    if q < r.steps.len() && r.steps[q].chosen == t && r.steps[q].kind == hook::K_CALL {
        q += 1;
    }
    let calls_before = r.steps[..q].iter().filter(|s| s.chosen == t && s.kind == hook::K_CALL).count();
    if calls_before == 0 {
        return None;
    }
    // t's steps until its next call start / end
    let mut steps = 0;
    let mut i = q;
    while i < r.steps.len() {
        let s = &r.steps[i];
        if s.chosen != t {
            // somebody else ran: fine only if t's call is over (t no longer enabled or waiting at a call start)
            break;
        }
        if s.kind == hook::K_CALL {
            break;
        }
        steps += 1;
        i += 1;
    }
    let evs = annotate(&r.log);
    let mut nth = 0;
    let mut res = "done".to_string();
    let mut msg = String::new();
    for e in &evs {
        if e["ev"] == "call" && e["t"] == t {
            nth += 1;
            if nth == calls_before && e["res"] == "panic" {
                res = "panic".into();
                msg = e["msg"].as_str().unwrap_or("").to_string();
            }
        }
    }
    Some(json!({"ev":"solo","t":t,"at":q,"steps":steps,"res":res,"msg":msg,
                "sched": r.steps.iter().take(q).map(|s| s.chosen).collect::<Vec<_>>()}))
}

/// call events are annotated with the result of their ret event (same thread, next ret)
pub fn annotate(log: &[Rec]) -> Vec<Value> {
    let mut evs: Vec<Value> = vec![];
    let mut open: Vec<Option<usize>> = vec![None; 8];
    for r in log {
        if let Rec::Ev(v) = r {
            let mut v = v.clone();
            match v["ev"].as_str() {
                Some("call") => {
                    open[v["t"].as_u64().unwrap() as usize] = Some(evs.len());
                    evs.push(v);
                }
                Some("ret") => {
                    let t = v["t"].as_u64().unwrap() as usize;
                    if let Some(ci) = open[t].take() {
                        let mut add = serde_json::Map::new();
                        for (k, val) in v.as_object().unwrap() {
                            if k != "ev" && k != "t" {
                                add.insert(k.clone(), val.clone());
                            }
                        }
                        if !add.contains_key("frame") && evs[ci]["op"] == "get" {
                            add.insert("frame".into(), json!(-1));
                            add.insert("rclass".into(), json!(-1));
                        }
                        evs[ci] = merge(evs[ci].clone(), Value::Object(add));
                    }
                    v = json!({"ev":"ret","t":t});
                    evs.push(v);
                }
                _ => evs.push(v),
            }
        }
    }
    // calls that never returned (runaway executions) are dropped together with what follows
    evs
}

pub fn preemptions(steps: &[Step], upto: usize) -> usize {
    let mut n = 0;
    for i in 1..upto.min(steps.len()) {
        let prev = steps[i - 1].chosen;
        if steps[i].chosen != prev && steps[i].enabled.contains(&prev) {
            n += 1;
        }
    }
    n
}

pub struct Explore<'a> {
    pub scn: &'a Scenario,
    pub out: &'a mut Out,
    pub seen: HashSet<u64>,
    pub execs: usize,
    pub distinct: usize,
    pub max_steps_seen: usize,
    pub first: bool,
    /// schedules executed so far (kept for solo runs), capped
    pub bases: Vec<Vec<Step>>,
    pub keep_bases: usize,
    /// distinct access sequences (one JSON array per line), for step conformance with the FINE model
    pub ops_lines: Vec<String>,
    pub ops_seen: HashSet<u64>,
}

fn hash_events(evs: &[Value]) -> u64 {
    use std::hash::{Hash, Hasher};
    let mut h = std::collections::hash_map::DefaultHasher::new();
    for e in evs {
        e.to_string().hash(&mut h);
    }
    h.finish()
}

impl<'a> Explore<'a> {
    pub fn new(scn: &'a Scenario, out: &'a mut Out) -> Self {
        Explore { scn, out, seen: HashSet::new(), execs: 0, distinct: 0, max_steps_seen: 0, first: true, bases: vec![], keep_bases: 0, ops_lines: vec![], ops_seen: HashSet::new() }
    }

    pub fn out_push(&mut self, e: Value) {
        self.out.push(e);
    }

    /// run one schedule; emit its events unless an identical event sequence was emitted before
    pub fn run(&mut self, strat: &mut Strategy, opts: &ExecOpts, extra: Vec<Value>) -> ExecResult {
        let r = if self.first {
            let r = execute(self.scn, strat, opts, Some(self.out));
            self.first = false;
            r
        } else {
            execute(self.scn, strat, opts, None)
        };
        self.execs += 1;
        self.max_steps_seen = self.max_steps_seen.max(r.steps.len());
        if self.bases.len() < self.keep_bases && !r.runaway {
            self.bases.push(r.steps.clone());
        }
        if opts.keep_ops && !r.runaway {
            let h = hash_events(&r.ops);
            if self.ops_seen.insert(h) {
                self.ops_lines.push(Value::Array(r.ops.clone()).to_string());
            }
        }
        let mut evs = annotate(&r.log);
        for e in extra {
            evs.push(e);
        }
        if r.runaway {
            // the step budget was exhausted.  If a single thread took all of the last steps, its call does not
            // finish although nobody interferes: that is what C21 forbids, reported as a solo event.
            let n = r.steps.len();
            let tail = &r.steps[n.saturating_sub(300)..];
            if let Some(t) = tail.first().map(|s| s.chosen) {
                if tail.iter().all(|s| s.chosen == t) {
                    self.out.push(json!({"ev":"solo","t":t,"at":n - tail.len(),"steps":tail.len(),"res":"budget","msg":"",
                        "sched": r.steps.iter().take(n - tail.len()).map(|s| s.chosen).collect::<Vec<_>>()}));
                }
            }
            return r;
        }
        let h = hash_events(&evs);
        if self.seen.insert(h) {
            self.distinct += 1;
            self.out.push(json!({"ev":"rewind","sched": r.steps.iter().map(|s| s.chosen).collect::<Vec<_>>()}));
            for e in evs {
                self.out.push(e);
            }
        }
        r
    }

    /// stateless search over schedules with at most `bound` pre-emptions, fewest pre-emptions first
    /// (so that a cut-off by `limit` loses the schedules with many pre-emptions, not a whole region)
    pub fn dfs(&mut self, bound: usize, opts: &ExecOpts, limit: usize) {
        let mut stacks: Vec<Vec<Vec<usize>>> = vec![vec![]; bound + 1];
        stacks[0].push(vec![]);
        loop {
            if self.execs >= limit {
                break;
            }
            let Some(level) = (0..=bound).find(|l| !stacks[*l].is_empty()) else { break };
            let prefix = stacks[level].pop().unwrap();
            let plen = prefix.len();
            let r = self.run(&mut Strategy::Prefix(prefix), opts, vec![]);
            let chosen: Vec<usize> = r.steps.iter().map(|s| s.chosen).collect();
            // branch at every position decided by the default rule
            for i in (plen..r.steps.len()).rev() {
                for &alt in &r.steps[i].enabled {
                    if alt == chosen[i] {
                        continue;
                    }
                    // pre-emptions of prefix chosen[..i] + alt
                    let mut p = preemptions(&r.steps, i);
                    if i > 0 && alt != chosen[i - 1] && r.steps[i].enabled.contains(&chosen[i - 1]) {
                        p += 1;
                    }
                    if p <= bound {
                        let mut np = chosen[..i].to_vec();
                        np.push(alt);
                        stacks[p].push(np);
                    }
                }
            }
        }
    }

    pub fn pct(&mut self, seed: u64, n: usize, depth: usize, opts: &ExecOpts) {
        let mut rng = Rng(seed);
        let nt = self.scn.threads.len();
        let est = self.max_steps_seen.max(20);
        for _ in 0..n {
            let mut prio: Vec<usize> = (0..nt).map(|i| 100 + i).collect();
            for i in (1..nt).rev() {
                let j = rng.below(i + 1);
                prio.swap(i, j);
            }
            let changes: Vec<usize> = (0..depth.saturating_sub(1)).map(|_| rng.below(est)).collect();
            self.run(&mut Strategy::Pct { prio, changes, low: 50 }, opts, vec![]);
        }
    }

    /// C21: at every scheduling point of the given base schedule, run each in-flight call alone
    pub fn solo_points(&mut self, base: &[Step], bound_steps: usize, stride: usize) -> usize {
        let opts = ExecOpts { probe: false, keep_ops: false, crash: false, crash_every: 1, max_steps: base.len() + bound_steps + 64, epilogue: false };
        let chosen: Vec<usize> = base.iter().map(|s| s.chosen).collect();
        let mut n = 0;
        let mut p = 0;
        while p <= base.len() {
            // threads with a call in flight at point p: enabled and not waiting at a call start.
            // (re-derived by running the prefix: the Solo strategy checks the kind itself)
            let ids: Vec<usize> = if p < base.len() { base[p].enabled.clone() } else { vec![] };
            for t in ids {
                let mut st = Strategy::Solo(chosen[..p].to_vec(), t);
                let r = execute(self.scn, &mut st, &opts, None);
                self.execs += 1;
                if let Some((steps, res)) = r.solo {
                    if steps == 0 && res == "done" {
                        continue; // no call of t in flight at this point
                    }
                    // did the in-flight call panic?  look at t's first ret after the prefix
                    let evs = annotate(&r.log);
                    let mut res = res;
                    let mut msg = String::new();
                    let mut nth = 0usize;
                    // count scheduling points of t in the prefix to locate its call
                    let calls_before = chosen[..p].iter().zip(base.iter()).filter(|(c, s)| **c == t && s.kind == hook::K_CALL).count();
                    for e in &evs {
                        if e["ev"] == "call" && e["t"] == t {
                            nth += 1;
                            if nth == calls_before && e["res"] == "panic" {
                                res = "panic".into();
                                msg = e["msg"].as_str().unwrap_or("").to_string();
                            }
                        }
                    }
                    self.out.push(json!({"ev":"solo","t":t,"at":p,"steps":steps,"res":res,"msg":msg,
                        "sched": chosen[..p].to_vec()}));
                    n += 1;
                }
            }
            p += stride.max(1);
        }
        n
    }
}


/// C05: random single-thread programs (every write is a crash point)
pub fn random_scenario(rng: &mut Rng, idx: usize) -> Scenario {
    let fcs = [TF, TF + HF, TF + 2 * HF + 7, 2 * TF - 1, HF + 1, HF - 1, 2 * TF, TF + 1, 3 * HF + 65, 64];
    let frames = fcs[(idx + rng.below(fcs.len())) % fcs.len()];
    let (cls, k) = *rng.pick(&[("simple", 1usize), ("simple", 2), ("movable", 1), ("zeroed", 1)]);
    let init = if rng.chance(70) { "free" } else { "alloc" };
    let ncls = if cls == "simple" { 2 } else { 3 };
    let mut prog = vec![];
    let mut nheld = 0usize;
    let orders = [0, 0, 0, 1, 3, 5, 6, 7, 8, HO, HO, HO + (TO > HO) as usize, TO];
    let n = 5 + rng.below(6);
    for _ in 0..n {
        let class = rng.below(ncls) as u8;
        let slot = if rng.chance(60) { Some(rng.below(k)) } else { None };
        let r = rng.below(100);
        if init == "alloc" && r < 35 {
            let o = *rng.pick(&orders);
            let f = (rng.below(frames.max(1)) >> o) << o;
            prog.push(SymOp::PutRaw { frame: f, order: o, class, slot });
        } else if r < 45 || nheld == 0 {
            prog.push(SymOp::Get { order: *rng.pick(&orders), class, slot, target: None });
            nheld += 1;
        } else if r < 55 {
            let o = *rng.pick(&orders);
            let f = (rng.below(frames.max(1)) >> o) << o;
            prog.push(SymOp::Get { order: o, class, slot, target: Some(f) });
            nheld += 1;
        } else if r < 80 {
            prog.push(SymOp::Put { idx: rng.below(nheld), class, slot });
        } else if r < 92 {
            prog.push(SymOp::PutPart { idx: rng.below(nheld), sub: rng.below(HO), part: rng.below(1 << 12), class, slot });
            nheld += HO; // buddies are appended (upper bound on indices)
        } else {
            prog.push(SymOp::Drain);
        }
    }
    Scenario {
        name: format!("crashseq:{idx}:{frames}:{init}:{cls}:{k}"),
        frames,
        init: init.into(),
        cls: cls.into(),
        k,
        setup: vec![],
        threads: vec![prog],
    }
}


/// run only the sequential setup of a scenario and dump memory, held blocks and programs
pub fn dump_scenario(scn: &Scenario) -> Value {
    let mut w = World::new(scn.frames, &scn.init, &scn.cls, scn.k);
    let nthreads = scn.threads.len();
    let mut helds: Vec<Held> = vec![vec![]; nthreads];
    let mut setup_held: Held = vec![];
    hook::set_mode(hook::OFF);
    for op in &scn.setup {
        if let SymOp::Frag { t } = op {
            for r in 0..(TF / 64) {
                let f = t * TF + r * 64 + 1;
                if f < w.frames {
                    exec(w.a(), &Op::Get(0, 0, None, Some(f)));
                }
            }
            continue;
        }
        let Some((cop, _)) = resolve(op, &setup_held) else { continue };
        let res = exec(w.a(), &cop);
        if res["res"] == "ok" {
            if let Op::Get(o, ..) = cop {
                let f = res["frame"].as_u64().unwrap() as usize;
                match op {
                    SymOp::GetFor { t, .. } => helds[*t].push(Some((f, o))),
                    _ => setup_held.push(Some((f, o))),
                }
            }
            if let SymOp::Put { idx, .. } = op {
                setup_held[*idx] = None;
            }
        }
    }
    let _ = w.obs(true);
    let progs: Vec<Value> = scn
        .threads
        .iter()
        .map(|p| {
            Value::Array(
                p.iter()
                    .map(|op| match *op {
                        SymOp::Get { order, class, slot, target } => json!({"op":"get","order":order,"class":class,
                            "slot":opt(slot),"target":opt(target)}),
                        SymOp::Put { idx, class, slot } => json!({"op":"put","idx":idx + 1,"sub":99,"part":0,
                            "class":class,"slot":opt(slot)}),
                        SymOp::PutPart { idx, sub, part, class, slot } => json!({"op":"put","idx":idx + 1,"sub":sub,
                            "part":part,"class":class,"slot":opt(slot)}),
                        SymOp::PutRaw { frame, order, class, slot } => json!({"op":"putraw","frame":frame,
                            "order":order,"class":class,"slot":opt(slot)}),
                        SymOp::Drain => json!({"op":"drain"}),
                        SymOp::Change { id, mclass, mfree, cclass, cop } => json!({"op":"change","id":opt(id),
                            "mclass":opt(mclass.map(|c| c as usize)),"mfree":mfree,
                            "cclass":opt(cclass.map(|c| c as usize)),"cop":cop}),
                        _ => json!({"op":"unsupported"}),
                    })
                    .collect(),
            )
        })
        .collect();
    json!({"name": scn.name, "frames": scn.frames, "cls": scn.cls, "k": scn.k, "th": TH, "ho": HO,
        "nt": w.ntrees(), "nhuge": w.nhuge(),
        "mem": crate::decode::dump_mem(&w),
        "held": helds.iter().map(|h| h.iter().flatten().map(|b| json!([b.0, b.1])).collect::<Vec<_>>()).collect::<Vec<_>>(),
        "progs": progs})
}


fn decode_op(lay: &crate::decode::Layout, o: &hook::OpRec) -> Value {
    use crate::decode::*;
    let Some((loc, byte)) = lay.loc(o.addr, o.size) else {
        return json!({"t":o.t,"k":"stray","loc":["none"],"old":0,"new":0,"ok":o.ok,"addr":o.addr,"size":o.size});
    };
    let kind = loc[0].as_str().unwrap().to_string();
    let k = match o.kind {
        hook::K_LOAD => "load",
        hook::K_STORE => "store",
        hook::K_SWAP => "swap",
        4 => "rmw",
        _ => "cas",
    };
    let dec = |v: u64| -> Value {
        match kind.as_str() {
            "row" => json!(bits_of(v << (byte * 8))),
            "entry" => json!(dec_entry(v)),
            "tree" => dec_tree(v),
            _ => dec_slot(v),
        }
    };
    if kind == "row" && o.size < 8 {
        // sub-word compare-exchange (toggle_int): values are the bits of that sub-word, at row positions
        return json!({"t":o.t,"k":"casb","loc":loc,"lo":byte * 8,"w":o.size * 8,"old":dec(o.old),"new":dec(o.new),"ok":o.ok});
    }
    json!({"t":o.t,"k":k,"loc":loc,"old":dec(o.old),"new":dec(o.new),"ok":o.ok})
}

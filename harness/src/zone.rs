//! C17: zone and persistent wrappers (ZoneAlloc, NvmAlloc) driven through the Alloc trait.

use llfree::frame::Frame;
use llfree::wrapper::{NvmAlloc, ZoneAlloc};
use llfree::*;
use serde_json::json;

use crate::seq::{Hist, Out, Rng, reset_event};
use crate::world::*;

fn empty_world(frames: usize, cls: &str, k: usize, local: Buf, trees: Buf, lower: Buf) -> World {
    let c = classing(cls, k);
    World {
        frames,
        cls_name: cls.into(),
        k,
        classes: c.classes().iter().map(|&(c, n)| (c.0, n)).collect(),
        local,
        trees,
        lower,
        alloc: None,
        zone: None,
        nvm: None,
        shift: 0,
        last: vec![],
        init_err: None,
    }
}

fn res_str<T>(r: &Result<T>) -> &'static str {
    match r {
        Ok(_) => "ok",
        Err(e) => err_str(*e),
    }
}

pub fn zone_runs(out: &mut Out, seed: u64, runs: usize, len: usize) {
    let mut rng = Rng(seed ^ 0x20e);
    for r in 0..runs {
        let (cls, k) = *rng.pick(&[("simple", 1usize), ("simple", 2), ("movable", 1), ("zeroed", 1)]);
        // ------------------------------------------------------------ ZoneAlloc
        {
            let frames = *rng.pick(&[TF, TF + 1, 2 * TF + HF + 7, 3 * TF, TF - 1, HF + 65]);
            let offset = TF * (1 + rng.below(6));
            let c = classing(cls, k);
            let ms = LLFree::metadata_size(&c, frames);
            // a misaligned offset must be refused
            {
                let (l, t, lo) = (Buf::new(ms.local), Buf::new(ms.trees), Buf::new(ms.lower));
                let bad = offset + 1 + rng.below(TF - 1);
                let z = ZoneAlloc::<LLFree>::create(
                    bad, frames, Init::FreeAll, &c,
                    MetaData { local: l.slice(), trees: t.slice(), lower: lo.slice() },
                );
                out.push(json!({"ev":"zcreate","offset":bad,"aligned":(bad % TF == 0) as u8,"res":res_str(&z)}));
            }
            let init = if rng.chance(70) { "free" } else { "alloc" };
            let (l, t, lo) = (Buf::new(ms.local), Buf::new(ms.trees), Buf::new(ms.lower));
            let z = ZoneAlloc::<LLFree>::create(
                offset, frames, parse_init(init), &c,
                MetaData { local: l.slice(), trees: t.slice(), lower: lo.slice() },
            );
            out.push(json!({"ev":"zcreate","offset":offset,"aligned":1,"res":res_str(&z)}));
            if let Ok(z) = z {
                let mut w = empty_world(frames, cls, k, l, t, lo);
                w.shift = offset;
                w.zone = Some(z);
                let run = format!("zone:{seed}:{r}:{frames}:{init}:{cls}:{k}:off{offset}");
                out.push(reset_event(&mut w, &run, init, "zone", false));
                let mut h = Hist::adopt(out, w, seed * 977 + r as u64);
                h.random(len, false);
            }
        }
        // ------------------------------------------------------------ NvmAlloc
        {
            let ntrees = 1 + rng.below(3);
            let rem = *rng.pick(&[0usize, 1, 2, 65, HF - 1, HF + 1, 2 * HF + 3]);
            let total = ntrees * TF + rem;
            let c = classing(cls, k);
            let ms = LLFree::metadata_size(&c, total);
            let region = Buf::new_aligned(total * FRAME_SIZE, FRAME_SIZE << TO);
            let base = region.base() / FRAME_SIZE;
            let slice = |skip: usize| -> &'static mut [Frame] {
                unsafe {
                    std::slice::from_raw_parts_mut((region.base() + skip * FRAME_SIZE) as *mut Frame, total - skip)
                }
            };
            let (l, t) = (Buf::new(ms.local), Buf::new(ms.trees));
            // recovering an untouched (zeroed) region must be refused
            {
                let n = NvmAlloc::<LLFree>::create(slice(0), true, &c, l.slice(), t.slice());
                out.push(json!({"ev":"nvm_refuse","kind":"untouched","res":res_str(&n)}));
            }
            let n = NvmAlloc::<LLFree>::create(slice(0), false, &c, l.slice(), t.slice());
            let managed = n.as_ref().map(|n| n.frames()).unwrap_or(0);
            let offrel = n.as_ref().map(|n| n.alloc.offset as i64 - base as i64).unwrap_or(0);
            out.push(json!({"ev":"nvm_create","total":total,"managed":managed,"offrel":offrel,
                "fsize":FRAME_SIZE,"th":TH,"ho":HO,"res":res_str(&n)}));
            let Ok(n) = n else { continue };
            let mut w = empty_world(managed, cls, k, l, t, Buf::new(0));
            w.shift = base;
            w.nvm = Some(n);
            let run = format!("nvm:{seed}:{r}:{total}:{cls}:{k}");
            out.push(reset_event(&mut w, &run, "free", "nvm", false));
            let mut h = Hist::adopt(out, w, seed * 991 + r as u64);
            h.random(len, false);
            if !h.alive() {
                continue;
            }
            // "crash": forget the instance, recover from the region alone (fresh volatile buffers)
            let old = h.w.nvm.take();
            std::mem::forget(old);
            let (l2, t2) = (Buf::new(ms.local), Buf::new(ms.trees));
            // a region of another size ending at the same header must be refused
            if ntrees > 1 {
                let n3 = NvmAlloc::<LLFree>::create(slice(TF), true, &c, l2.slice(), t2.slice());
                h.out.push(json!({"ev":"nvm_refuse","kind":"othersize","res":res_str(&n3)}));
            }
            let n2 = NvmAlloc::<LLFree>::create(slice(0), true, &c, l2.slice(), t2.slice());
            match n2 {
                Ok(n2) => {
                    let offrel2 = n2.alloc.offset as i64 - base as i64;
                    let managed2 = n2.frames();
                    h.w.local = l2;
                    h.w.trees = t2;
                    h.w.nvm = Some(n2);
                    let obs = h.w.obs(true);
                    h.out.push(json!({"ev":"reinit","init":"recover","ierr":"","obs":obs,
                        "managed":managed2,"offrel":offrel2}));
                    h.random(len / 2, false);
                }
                Err(e) => {
                    h.out.push(json!({"ev":"reinit","init":"recover","ierr":err_str(e),"obs":{}}));
                }
            }
            // keep `region` alive until here
            drop(h);
            drop(region);
        }
    }
}

"""C20: write synthetic kernel allocation traces and run the repository's replay binary on them."""
import json, os, struct, subprocess, tempfile

PAGE = 4096
ENTRIES = 255


def entry(time_us, pfn, alloc, order, flags, pid):
    v = (time_us & ((1 << 38) - 1)) | (pfn & 0xFFFFFF) << 38 | (alloc & 1) << 62 | (order & 0xF) << 63 \
        | (flags & ((1 << 29) - 1)) << 67 | (pid & 0xFFFFFFFF) << 96
    return v.to_bytes(16, "little")


def write_trace(path, seq, cores=2, max_pfn=131071):
    """seq: [[alloc?, pfn, order], ...]; event i runs on cpu i % cores at time (i+1) ms"""
    pages = {c: [] for c in range(cores)}
    for i, (a, pfn, order) in enumerate(seq):
        pages[i % cores].append(entry((i + 1) * 1000, pfn, a, order, 0x08 if i % 3 == 0 else 0, 100 + i % 7))
    blobs = []
    for c in range(cores):
        ev = pages[c]
        for j in range(0, max(1, len(ev)), ENTRIES):
            chunk = ev[j:j + ENTRIES]
            b = struct.pack("<I", c) + b"\0" * 12 + b"".join(chunk)
            blobs.append(b.ljust(PAGE, b"\0"))
    hdr = struct.pack("<III", len(blobs), cores, max_pfn).ljust(PAGE, b"\0")
    with open(path, "wb") as f:
        f.write(hdr)
        for b in blobs:
            f.write(b)


def run_replay(binary, seq, workdir, cores=2, max_pfn=131071):
    fd, path = tempfile.mkstemp(suffix=".trace", dir=workdir)
    os.close(fd)
    try:
        write_trace(path, seq, cores, max_pfn)
        r = subprocess.run([binary, path, "--stride", "1"], stdout=subprocess.PIPE, stderr=subprocess.PIPE, text=True,
                           timeout=60, env=dict(os.environ, RUST_LOG="error"))
        failed = r.stderr.count("Free failed")
        free = total = -1
        try:
            o = json.loads(r.stdout[r.stdout.index("{"):])
            free, total = o["free_frames"], o["total_frames"]
        except Exception:
            pass
        return {"ev": "replay", "seq": seq, "free": free, "total": total, "failed": failed, "rc": r.returncode,
                "cores": cores}
    finally:
        os.unlink(path)

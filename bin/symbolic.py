"""Symbolic legs (Apalache): C23 row search for ALL 2^64 rows, one obligation per order."""
import os, re, shutil, subprocess, time
from concurrent.futures import ThreadPoolExecutor
import vlib

SYM = os.path.join(vlib.SPEC, "sym")
SMALL_X = {
    0: (1, "v[i]"),
    1: (2, "v[i] \\/ V(i + 1) \\/ (i % 2 = 1)"),
}
HALVES = {
    5: (32, "(b = 0 /\\ Low) \\/ (b = 32 /\\ ~Low /\\ High)", "{0, 32}"),
    6: (64, "b = 0 /\\ Low /\\ High", "{0}"),
}
SUB_W = {2: 4, 3: 8, 4: 16}


def gen(k, workdir):
    if k in HALVES:
        w, cnd, starts = HALVES[k]
        t = open(os.path.join(SYM, "RowSearchSymHalves.tla.in")).read()
        t = t.replace("@K@", str(k)).replace("@W@", str(w)).replace("@COND@", cnd).replace("@STARTS@", starts)
    elif k in SMALL_X:
        w, x = SMALL_X[k]
        t = open(os.path.join(SYM, "RowSearchSymSmall.tla.in")).read()
        t = t.replace("@K@", str(k)).replace("@W@", str(w)).replace("@X@", x)
    else:
        t = open(os.path.join(SYM, "RowSearchSym.tla.in")).read()
        t = t.replace("@K@", str(k)).replace("@W@", str(SUB_W[k]))
    p = os.path.join(workdir, "RowSearchSym_%d.tla" % k)
    open(p, "w").write(t)
    return p


def run_order(k, workdir, timeout):
    p = gen(k, workdir)
    t0 = time.time()
    cmd = ["timeout", str(timeout), "apalache-mc", "check", "--init=Init", "--inv=Inv", "--length=0",
           "--out-dir=" + os.path.join(workdir, "out%d" % k), p]
    r = subprocess.run(cmd, stdout=subprocess.PIPE, stderr=subprocess.STDOUT, text=True, cwd=workdir)
    ok = "The outcome is: NoError" in r.stdout
    err = "The outcome is: Error" in r.stdout
    return {"order": k, "ok": ok, "refuted": err, "s": round(time.time() - t0, 1), "tail": r.stdout[-400:] if not ok else ""}


def rowsearch_symbolic(res, tier):
    """thorough tier: all orders 0..6; quick tier: not run (minutes per order on a loaded machine)"""
    if tier != "thorough":
        res.notes.append("symbolic leg (Apalache, all 2^64 rows per order, spec/sym/RowSearchSym*.tla.in) runs in the thorough tier")
        return
    workdir = os.path.join(vlib.WORK, "apa-%d" % os.getpid())
    os.makedirs(workdir, exist_ok=True)
    try:
        with ThreadPoolExecutor(max_workers=4) as ex:
            rs = list(ex.map(lambda k: run_order(k, workdir, 7000), range(7)))
    finally:
        shutil.rmtree(workdir, ignore_errors=True)
    res.cov["symbolic"] = {"tool": "apalache-mc 0.58 check --length=0 --inv=Inv", "obligations": 7,
                           "discharged": sum(1 for r in rs if r["ok"]), "per_order": rs,
                           "statement": "for every row value (2^64) the word whose lowest set/clear bit the code takes marks exactly the "
                                        "lowest aligned all-zero block, and is empty iff none exists"}
    for r in rs:
        if r["refuted"]:
            # the transcription of the shipped bit trick is refuted: the row search is wrong for some row
            res.add_failures([{"prop": "C23", "check": "symbolic-transcription-refuted", "run": "apalache order %d" % r["order"],
                               "line": 0, "event": {"ev": "apalache", "order": r["order"]}, "lines": []}])
        elif not r["ok"]:
            res.notes.append("symbolic leg order %d inconclusive (timeout / tool error): %s" % (r["order"], r["tail"][-200:]))

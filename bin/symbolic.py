"""Symbolic legs (Apalache)."""
import os, re, time
import vlib


def rowsearch_symbolic(res, tier):
    res.notes.append("symbolic leg (Apalache, all 2^64 rows) not wired yet")

"""Synthesised concurrent scenarios: (state) x (operation of thread 0) x (operation of thread 1) [x thread 2].
The states put the allocator into the situations the race windows need (whole huge frame held, nearly full huge
frame, fragmented trees, nearly empty reservation, reservations of two classes, ...); the operations come from a
small alphabet per state.  Every ordered pair is one scenario; the real code explores it under DFS/PCT schedules."""
import itertools, json

TF1 = {"tf": 1, "hf": 0, "plus": 0}
TF2 = {"tf": 2, "hf": 0, "plus": 0}
TF3 = {"tf": 3, "hf": 0, "plus": 0}

# op alphabets; "H" = thread's held block 0 (given by the state's setup via getfor)
G0 = ["get", 0, 0, 0, -1]
G0N = ["get", 0, 0, -1, -1]
G2N = ["get", 2, 0, -1, -1]
G6 = ["get", 6, 0, 0, -1]
G6N = ["get", 6, 0, -1, -1]
G7N = ["get", 7, 0, -1, -1]
G8N = ["get", 8, 0, -1, -1]
GH = ["get", "HO", 1, 0, -1]
GHN = ["get", "HO", 1, -1, -1]
GH1N = ["get", "HO+1", 1, -1, -1]
PUT = ["put", 0, 0, -1]
PUTS = ["put", 0, 0, 0]
PART0 = ["putpart", 0, 0, 0, 0, -1]
PARTL = ["putpart", 0, 0, 4095, 0, -1]
PART6 = ["putpart", 0, 6, 1, 0, -1]
DRAIN = ["drain"]


def T(o, f):
    return ["get", o, 0, -1, f]


def R(f, o):
    return ["putraw", f, o, 0, -1]


STATES = [
    # name, geos, base scenario fields, ops usable by each thread (thread-specific lists)
    ("fresh", None, {"frames": TF1, "init": "free", "cls": "simple", "k": 1, "setup": []},
     [[G0N, G2N, G6N, G7N, G8N, GHN, GH1N, T(0, 0), T(0, 70), T(6, 64), T(7, 128), T(3, 8)]] * 2),
    ("whole", None, {"frames": TF1, "init": "free", "cls": "simple", "k": 1, "setup": [["get", "HO", 1, -1, -1]]},
     [[R(0, 0), R(1, 0), R(64, 6), R(448, 3), R(0, 7), G0N, G6N, T(0, 448), T(0, 5), T(6, 128), GHN]] * 2),
    ("heldhuge", None, {"frames": TF1, "init": "free", "cls": "simple", "k": 1,
                        "setup": [["getfor", 0, "HO", 1, -1], ["getfor", 1, "HO", 1, -1]]},
     [[["put", 0, 1, -1], PART0, PARTL, PART6, GHN, GH1N, G0N, G7N]] * 2),
    ("nearfull", ["th4", "th2", "th8"], {"frames": TF1, "init": "alloc", "cls": "simple", "k": 1,
                                        "setup": [["putraw", 0, 1, 0, -1], ["getfor", 0, 0, 0, -1], ["putraw", 512, 0, 0, -1]]},
     [[PUT, G0N, T(0, 0), T(0, 1), T(1, 0)], [G0N, T(0, 0), T(0, 1), T(1, 0), R(512 + 64, 0), GHN]]),
    ("lasthuge", None, {"frames": {"tf": 0, "hf": 1, "plus": 0}, "init": "free", "cls": "simple", "k": 1,
                        "setup": [["getfor", 0, 0, 0, -1]]},
     [[PUT, G0N, GHN, T(0, 0)], [GHN, G0N, G8N, T(0, 0), T(0, 3)]]),
    ("slots", None, {"frames": TF3, "init": "free", "cls": "simple", "k": 2, "setup": [["getfor", 0, 0, 0, 0]]},
     [[G0, G6, PUTS, PUT, GH, DRAIN, ["get", 0, 0, 1, -1]], [["get", 0, 0, 1, -1], ["get", 0, 0, 0, -1], G6, GH, DRAIN, ["get", 0, 1, 0, -1]]]),
    ("oneslot", None, {"frames": TF2, "init": "free", "cls": "simple", "k": 1,
                       "setup": [["getfor", 0, 0, 0, 0], ["getfor", 1, 0, 0, 0]]},
     [[G0, G6, PUTS, PUT, DRAIN, GH, T(0, 300)]] * 2),
    ("frag", ["th1"], {"frames": TF2, "init": "free", "cls": "simple", "k": 1,
                       "setup": [["frag", 0], ["frag", 1], ["getfor", 0, 0, 0, -1], ["getfor", 1, 0, 0, 0]]},
     [[G6, G6N, G7N, GHN, PUT, PUTS, DRAIN, G0]] * 2),
    ("nearempty", ["th1"], {"frames": TF2, "init": "free", "cls": "simple", "k": 1,
                            "setup": [["get", 0, 0, 0, -1], ["get", 0, 0, 0, -1], ["getfor", 1, 8, 0, 0], ["getfor", 1, 7, 0, 0],
                                      ["getfor", 0, 6, 0, 0], ["put", 0, 0, -1], ["put", 1, 0, -1]]},
     [[G6, G0, ["get", 5, 0, 0, -1], PUT, PUTS, DRAIN], [DRAIN, PUT, PUTS, G6, G0, ["get", 1, 0, 0, -1]]]),
    ("twoclass", ["th1"], {"frames": TF2, "init": "free", "cls": "simple", "k": 1,
                           "setup": [["get", 0, 0, 0, -1], ["get", "HO", 1, 0, -1]]},
     [[["get", 0, 1, 0, -1], ["get", 0, 1, -1, -1], G0, DRAIN, GH], [G0, G6, DRAIN, ["get", 0, 1, 0, -1], GHN]]),
    ("zeroedcls", ["th1"], {"frames": TF3, "init": "free", "cls": "zeroed", "k": 1,
                            "setup": [["change", 0, -1, 0, 2, 0], ["getfor", 1, "HO", 2, 0]]},
     [[DRAIN, ["get", 0, 2, 0, -1], ["get", 0, 0, 0, -1], ["change", -1, 1, 0, 2, 0]], [["put", 0, 2, -1], ["put", 0, 2, 0], ["get", 0, 2, 0, -1], DRAIN]]),
    ("offlined", None, {"frames": TF3, "init": "free", "cls": "simple", "k": 1,
                        "setup": [["getfor", 1, 0, 0, -1], ["change", 2, -1, 0, -1, 2]]},
     [[["change", -1, -1, 0, -1, 1], ["change", 2, -1, 0, 0, 1], ["change", -1, 1, 0, 1, 1], ["change", 1, -1, 0, -1, 2]],
      [G0, GH, GHN, PUT, PUTS, T(0, "TF+TF+5"), DRAIN, ["get", 0, 1, 0, -1]]]),
    # one tree is full, the other is a small-frame tree in which thread 1 holds a huge frame: thread 1 reserves it with a
    # small allocation and frees the huge frame into its global counter while thread 0's huge request steals from it
    ("mixed", ["th4", "th2", "th8"], {"frames": TF2, "init": "free", "cls": "simple", "k": 1,
                                     "setup": [["getfor", 1, "HO", 1, -1], ["get", 0, 0, -1, 700], ["get", "TO", 1, -1, "TF"]]},
     [[GH, GHN, G0, G6, ["get", 0, 1, 0, -1]],
      [[G0, ["put", 0, 1, 0]], [G0, ["put", 0, 1, -1]], [["put", 0, 1, 0], G0], [G6, DRAIN], [["put", 0, 1, -1], GH],
       [G0, ["put", 0, 1, 0], DRAIN], [G0, ["put", 0, 1, 0], G0, DRAIN]]]),
    ("offlined2", None, {"frames": TF3, "init": "free", "cls": "simple", "k": 1, "setup": [["change", 2, -1, 0, -1, 2]]},
     [[["change", -1, -1, 0, -1, 1], ["change", -1, 1, 0, -1, 1], ["change", 2, -1, 0, -1, 1], ["change", -1, -1, 0, 0, 1]],
      [GH, GHN, G0, G0N, ["get", 0, 1, 0, -1], DRAIN]]),
    ("offline", None, {"frames": TF3, "init": "free", "cls": "simple", "k": 1, "setup": [["getfor", 1, 0, 0, -1]]},
     [[["change", 1, -1, 0, -1, 2], ["change", -1, 1, "TF", 0, 0], ["change", 0, -1, 0, 1, 0], ["change", 1, -1, 0, 1, 0],
       ["change", -1, 0, 0, 1, 0]],
      [G0, G0N, GHN, PUT, T(0, "TF+5"), T(0, 5), ["get", 0, 0, -1, "TF+9"], DRAIN]]),
]


def prog(x):
    """an alphabet entry is one operation or a short program (list of operations)"""
    return x if x and isinstance(x[0], list) else [x]


def overlap(a, b):
    if isinstance(a[0], list) or isinstance(b[0], list):
        return False
    if a[0] == "putraw" and b[0] == "putraw":
        (fa, oa), (fb, ob) = (a[1], a[2]), (b[1], b[2])
        return fa < fb + (1 << ob) and fb < fa + (1 << oa)
    return False


def scenarios(geo, with_triples=False, with_known=False, only=None):
    """with_known: include the pairs of two partial frees of one whole huge frame (trigger of known finding KF1,
    already covered by scenario L5; every failing schedule costs a diagnosis run)"""
    out = []
    for name, geos, base, ops in STATES:
        if geos and geo not in geos:
            continue
        if only and name not in only:
            continue
        a_ops, b_ops = ops[0], ops[1]
        for i, a in enumerate(a_ops):
            for j, b in enumerate(b_ops):
                if overlap(a, b):
                    continue  # callers are well behaved: two threads never free overlapping frames
                if name == "whole" and not isinstance(a[0], list) and not isinstance(b[0], list) and a[0] == "putraw" and b[0] == "putraw" and not with_known:
                    continue
                s = dict(base)
                s["name"] = "G:%s:%d:%d" % (name, i, j)
                s["threads"] = [prog(a), prog(b)]
                out.append(s)
        if with_triples:
            small = a_ops[:4]
            for i, a in enumerate(small):
                for j, b in enumerate(b_ops[:4]):
                    for k, c in enumerate(small):
                        if isinstance(c[0], list) or c[0] in ("put", "putpart") or overlap(a, b) or overlap(a, c) or overlap(b, c):
                            continue  # thread 2 holds nothing; no overlapping frees
                        if name == "whole" and sum(1 for o in (a, b, c) if not isinstance(o[0], list) and o[0] == "putraw") >= 2 and not with_known:
                            continue
                        s = dict(base)
                        s["name"] = "G3:%s:%d:%d:%d" % (name, i, j, k)
                        s["threads"] = [prog(a), prog(b), prog(c)]
                        out.append(s)
    return out


if __name__ == "__main__":
    import sys
    sc = scenarios(sys.argv[1] if len(sys.argv) > 1 else "th4", len(sys.argv) > 2)
    print(len(sc))

"""Shared machinery of /verif/bin/check: builds, TLC runs, trace validation loop,
known findings, evidence files."""
import json, os, re, shutil, subprocess, sys, tempfile, time, hashlib
from concurrent.futures import ThreadPoolExecutor

VERIF = os.path.dirname(os.path.dirname(os.path.abspath(__file__)))
SPEC = os.path.join(VERIF, "spec")
WORK = os.path.join(VERIF, "work")
REPLAY = os.path.join(VERIF, "replay")
EVID = os.path.join(VERIF, "evidence")
TLAJAR = "/opt/veriftools/tla/tla2tools.jar:/opt/veriftools/tla/CommunityModules-deps.jar"
GEOS = {"th4": [], "th1": ["tree_huge_1"], "th2": ["tree_huge_2"], "th8": ["tree_huge_8"],
        "16k": ["16K"], "16k_th1": ["16K", "tree_huge_1"]}
NCPU = os.cpu_count() or 8


class ToolError(Exception):
    pass


# set once enough new (not known) failures have been collected: the verdict is decided,
# remaining validation work is skipped
import threading
STOP = threading.Event()
MAX_NEW_FAILURES = 4
_new_failures = []


def note_failures(fs):
    known = load_known()
    for f in fs:
        if not any(matches(k, f) for k in known):
            _new_failures.append(f)
    if len(_new_failures) >= MAX_NEW_FAILURES:
        STOP.set()


def log(*a):
    print(*a, flush=True)


def sh(cmd, **kw):
    return subprocess.run(cmd, stdout=subprocess.PIPE, stderr=subprocess.STDOUT, text=True, **kw)


# ---------------------------------------------------------------------------
# builds
# ---------------------------------------------------------------------------
_built = {}


def build(geo="th4"):
    """cargo-build the harness against /repo's current working tree for a geometry."""
    if geo in _built:
        return _built[geo]
    tdir = os.path.join(VERIF, "target", geo)
    cmd = ["cargo", "build", "--offline", "--quiet", "--target-dir", tdir]
    if GEOS[geo]:
        cmd += ["--features", ",".join(GEOS[geo])]
    env = dict(os.environ, CARGO_NET_OFFLINE="true", RUSTFLAGS="-Awarnings")
    r = sh(cmd, cwd=os.path.join(VERIF, "harness"), env=env)
    if r.returncode != 0:
        raise ToolError("harness build failed (%s):\n%s" % (geo, r.stdout[-4000:]))
    b = os.path.join(tdir, "debug", "vharness")
    _built[geo] = b
    return b


def build_eval():
    """harness for the evaluation crate (C19)"""
    if "eval" in _built:
        return _built["eval"]
    tdir = os.path.join(VERIF, "target", "eval")
    env = dict(os.environ, CARGO_NET_OFFLINE="true", RUSTFLAGS="-Awarnings")
    r = sh(["cargo", "build", "--offline", "--quiet", "--target-dir", tdir], cwd=os.path.join(VERIF, "harness-eval"), env=env)
    if r.returncode != 0:
        raise ToolError("eval harness build failed:\n%s" % r.stdout[-4000:])
    _built["eval"] = os.path.join(tdir, "debug", "vharness-eval")
    return _built["eval"]


def build_replay():
    """the repository's own replay binary (C20), built into /verif/target"""
    if "replay" in _built:
        return _built["replay"]
    tdir = os.path.join(VERIF, "target", "evalbin")
    env = dict(os.environ, CARGO_NET_OFFLINE="true", RUSTFLAGS="-Awarnings")
    r = sh(["cargo", "build", "-p", "llfree-eval", "--bin", "replay", "--offline", "--quiet", "--target-dir", tdir],
           cwd="/repo", env=env)
    if r.returncode != 0:
        raise ToolError("replay build failed:\n%s" % r.stdout[-4000:])
    _built["replay"] = os.path.join(tdir, "debug", "replay")
    return _built["replay"]


def build_all(geos):
    with ThreadPoolExecutor(max_workers=4) as ex:
        list(ex.map(build, geos))


# ---------------------------------------------------------------------------
# TLC
# ---------------------------------------------------------------------------
def tlc(module, cfg=None, env=None, workers=1, xmx="3g", timeout=1800, deque=False, extra=()):
    d = tempfile.mkdtemp(prefix="tlc.", dir=WORK)
    e = dict(os.environ)
    jto = "-Xss1g -Djava.io.tmpdir=" + d   # TLC's own scratch directory goes with the metadir (nothing is left in /tmp)
    if deque:
        jto += " -Dtlc2.tool.queue.IStateQueue=StateDeque"
    e["JAVA_TOOL_OPTIONS"] = jto
    if env:
        e.update(env)
    cmd = ["timeout", str(timeout), "java", "-XX:+UseSerialGC", "-XX:TieredStopAtLevel=1", "-Xmx" + xmx, "-cp", TLAJAR, "tlc2.TLC",
           "-workers", str(workers), "-metadir", d, "-noGenerateSpecTE",
           "-config", cfg or (module + ".cfg"), *extra, module + ".tla"]
    t0 = time.time()
    r = sh(cmd, cwd=SPEC, env=e)
    shutil.rmtree(d, ignore_errors=True)
    return r.returncode, r.stdout, time.time() - t0


def tlc_stats(out):
    m = re.search(r"(\d+) states generated, (\d+) distinct states found", out)
    return (int(m.group(1)), int(m.group(2))) if m else (0, 0)


# ---------------------------------------------------------------------------
# trace validation
# ---------------------------------------------------------------------------
def split_runs(path):
    """-> (hdr line, [list of lines per run]) ; a run starts at a reset event"""
    hdr, runs = None, []
    with open(path) as f:
        for line in f:
            if line.startswith('{"ev":"hdr"') or (hdr is None and '"ev":"hdr"' in line[:40]):
                hdr = line
                continue
            is_reset = '"ev":"reset"' in line and json.loads(line).get("ev") == "reset"
            if is_reset or not runs:
                runs.append([])
            runs[-1].append(line)
    return hdr, runs


def strip_obs(ev):
    ev = dict(ev)
    for k in ("obs", "tw", "free"):
        ev.pop(k, None)
    return ev


def run_name(run):
    try:
        return json.loads(run[0]).get("run", "?")
    except Exception:
        return "?"


def split_segments(run):
    """a concurrent run = prefix (reset, setup, mark) + one segment per schedule (starting at "rewind")"""
    prefix, segs = [], []
    for ln in run:
        if ln.startswith('{"ev":"rewind"') or '"ev":"rewind"' in ln[:60]:
            segs.append([ln])
        elif segs:
            segs[-1].append(ln)
        else:
            prefix.append(ln)
    return prefix, segs


def validate_file(path, props, module="TraceAbs"):
    """Validate every run of a trace file.  Returns dict with failures:
    [{prop, check, run, line, event}], counts.  A rejected run (or, for
    concurrent runs, the rejected schedule) is diagnosed (iteratively dropping
    the properties that failed), removed, and validation continues."""
    hdr, runs = split_runs(path)
    units = [split_segments(r) for r in runs]
    res = {"runs": len(runs), "events": sum(len(r) for r in runs), "failures": [], "states": 0,
           "generated": 0, "tlc_s": 0.0, "accepted_runs": 0, "segments": sum(max(1, len(u[1])) for u in units)}
    start = 0
    rounds = 0
    while start < len(units):
        if STOP.is_set():
            break
        rounds += 1
        if rounds > 80:
            raise ToolError("too many rejected runs in %s" % path)
        tmp = tempfile.NamedTemporaryFile("w", suffix=".ndjson", dir=WORK, delete=False)
        tmp.write(json.dumps({"ev": "hdr", "props": sorted(props)}) + "\n")
        index = []   # (first line, unit index, segment index or -1)
        n = 1
        for ui in range(start, len(units)):
            prefix, segs = units[ui]
            index.append((n + 1, ui, -1))
            for ln in prefix:
                tmp.write(ln)
            n += len(prefix)
            for si, sg in enumerate(segs):
                index.append((n + 1, ui, si))
                for ln in sg:
                    tmp.write(ln)
                n += len(sg)
        tmp.close()
        rc, out, dt = tlc(module, env={"TRACE": tmp.name}, deque=True)
        os.unlink(tmp.name)
        g, s = tlc_stats(out)
        res["states"] += s
        res["generated"] += g
        res["tlc_s"] += dt
        if '"ACCEPTED"' in out and rc == 0:
            res["accepted_runs"] += sum(max(1, len(u[1])) for u in units[start:])
            break
        m = re.search(r'<<"REJECTED", (\d+), "([a-z_]+)">>', out)
        if not m:
            raise ToolError("TLC failed on %s:\n%s" % (path, out[-3000:]))
        line = int(m.group(1))
        first, ui, si = max((x for x in index if x[0] <= line), key=lambda x: x[0])
        prefix, segs = units[ui]
        res["accepted_runs"] += sum(max(1, len(u[1])) for u in units[start:ui])
        if si < 0:
            # the sequential part itself is rejected: the whole run goes
            fs = diagnose(prefix + [l for sg in segs for l in sg], props, module)
            res["failures"] += fs
            note_failures(fs)
            start = ui + 1
        else:
            fs = diagnose(prefix + segs[si], props, module)
            res["failures"] += fs
            note_failures(fs)
            del segs[si]
            start = ui
            if not segs:
                start = ui + 1
    return res


def diagnose(run, props, module):
    """Validate one rejected run alone, repeatedly, removing each property that
    failed, so that every property violated in the run is found."""
    fails = []
    remaining = set(props)
    for _ in range(len(props) + 2):
        tmp = tempfile.NamedTemporaryFile("w", suffix=".ndjson", dir=WORK, delete=False)
        tmp.write(json.dumps({"ev": "hdr", "props": sorted(remaining)}) + "\n")
        for ln in run:
            tmp.write(ln)
        tmp.close()
        rc, out, dt = tlc(module, env={"TRACE": tmp.name}, deque=True)
        os.unlink(tmp.name)
        if '"ACCEPTED"' in out and rc == 0:
            break
        m = re.search(r'<<"REJECTED", (\d+), "([a-z_]+)">>', out)
        if not m:
            raise ToolError("TLC failed while diagnosing:\n%s" % out[-3000:])
        line = int(m.group(1))
        ev = json.loads(run[line - 2]) if 0 <= line - 2 < len(run) else {"ev": "eof"}
        got = set()
        for fm in re.finditer(r'<<"FAIL", "(C\d+)", "([^"]+)", (\d+)>>', out):
            if int(fm.group(3)) == line:
                got.add((fm.group(1), fm.group(2)))
        if not got:
            # no predicate failed: no linearization exists for the recorded results
            got = {(p, "no-linearization") for p in ("C01", "C03") if p in remaining}
            if not got:
                break
        for (p, chk) in sorted(got):
            fails.append({"prop": p, "check": chk, "run": run_name(run), "line": line, "event": strip_obs(ev),
                          "lines": run})
            remaining.discard(p)
        if not remaining:
            break
    return fails


# ---------------------------------------------------------------------------
# known findings
# ---------------------------------------------------------------------------
def load_known():
    p = os.path.join(VERIF, "known_findings.json")
    if not os.path.exists(p):
        return []
    return [k for k in json.load(open(p))["findings"] if k.get("status", "open") == "open"]


def matches(k, f):
    if k["property"] != f["prop"]:
        return False
    m = k.get("match", {})
    if "check" in m and m["check"] != f["check"]:
        return False
    ev = f.get("event", {})
    for key, val in m.get("event", {}).items():
        if ev.get(key) != val:
            return False
    if "msg_contains" in m and m["msg_contains"] not in str(ev.get("msg", "")):
        return False
    if "run_contains" in m and m["run_contains"] not in str(f.get("run", "")):
        return False
    if "lines_contain" in m:
        # every pattern must match some event of the failing run / schedule (its history identifies the finding)
        evs = []
        for ln in f.get("lines", []):
            try:
                evs.append(json.loads(ln))
            except Exception:
                pass
        # only the failing schedule: events after the last rewind
        last = max([i for i, e in enumerate(evs) if e.get("ev") == "rewind"], default=-1)
        seg = evs[last + 1:]
        for pat in m["lines_contain"]:
            if not any(all(e.get(k) == v for k, v in pat.items()) for e in seg):
                return False
        if m.get("overcounted_trees_unreserved"):
            # the finding over-counts only UNRESERVED trees: (tree counter > free frames of the tree, no slot on it)
            obs = next((e["obs"] for e in reversed(seg) if e.get("ev") == "obs" and "obs" in e), None)
            if not obs or "trees" not in obs:
                return False
            over = [t for t, w in enumerate(obs["trees"]) if w[0] > obs["tfree"][t][0]]
            if not over or any(obs["trees"][t][1] != 0 for t in over):
                return False
    return True


# ---------------------------------------------------------------------------
# results
# ---------------------------------------------------------------------------
class Result:
    """Accumulates what a check covered; writes evidence; prints verdict lines."""

    def __init__(self, prop, tier, seed, level):
        self.prop, self.tier, self.seed, self.level = prop, tier, seed, level
        self.t0 = time.time()
        self.cov = {"evaluations": 0, "distinct_nontrivial": 0, "rule": "", "samples": [],
                    "states": 0, "transitions": 0, "traces_validated_against_impl": 0}
        self.assumptions = []
        self.failures = []
        self.notes = []
        self.distinct = set()
        # failures of these properties' predicates count as failures of this property
        # (the runs are about this property; the predicates are shared)
        self.aliases = set()

    def add_failures(self, fs):
        for f in fs:
            if f["prop"] == self.prop:
                self.failures.append(f)
            elif f["prop"] in self.aliases:
                g = dict(f)
                g["check"] = "%s/%s" % (f["prop"], f["check"])
                g["prop"] = self.prop
                self.failures.append(g)

    def sample(self, x):
        if len(self.cov["samples"]) < 6:
            self.cov["samples"].append(x)

    def finish(self):
        known = load_known()
        new, kn = [], []
        for f in self.failures:
            k = next((k for k in known if matches(k, f)), None)
            (kn if k else new).append((f, k))
        seen = set()
        for f, k in kn:
            if k["id"] not in seen:
                seen.add(k["id"])
                log("KNOWN-FINDING: property=%s %s [%s]" % (self.prop, k["what"], k["id"]))
        rc = 0
        os.makedirs(REPLAY, exist_ok=True)
        sigs = set()
        for f, _ in new:
            sig = (f["check"], json.dumps(f.get("event", {}).get("op", "")), f.get("event", {}).get("msg", ""))
            if sig in sigs and len(sigs) > 0:
                continue
            sigs.add(sig)
            rp = os.path.join(REPLAY, "%s-%s.json" % (self.prop, hashlib.sha1(
                json.dumps([f["check"], f.get("run"), f.get("event")], sort_keys=True).encode()).hexdigest()[:10]))
            with open(rp, "w") as fh:
                json.dump({"property": self.prop, "check": f["check"], "run": f.get("run"), "line": f.get("line"),
                           "event": f.get("event"), "detail": f.get("detail"), "trace": f.get("lines", [])[:3000],
                           "tier": self.tier, "seed": self.seed}, fh, indent=1)
            log("VIOLATION property=%s replay=%s" % (self.prop, rp))
            log("  check=%s run=%s event=%s" % (f["check"], f.get("run"), json.dumps(f.get("event"))[:300]))
            rc = 1
        self.cov["distinct_nontrivial"] = max(self.cov["distinct_nontrivial"], len(self.distinct))
        ev = {"property_id": self.prop, "tier": self.tier, "seed": self.seed, "level": self.level,
              "coverage": self.cov, "assumptions": self.assumptions, "wall_s": round(time.time() - self.t0, 2),
              "violations": len(new), "known_findings_hit": sorted(seen), "notes": self.notes}
        os.makedirs(EVID, exist_ok=True)
        with open(os.path.join(EVID, self.prop + ".json"), "w") as fh:
            json.dump(ev, fh, indent=1)
        log("%s %s: %s in %.1fs (evaluations=%d distinct=%d states=%d traces=%d)" % (
            self.prop, self.tier, "VIOLATED" if rc else "ok", time.time() - self.t0, self.cov["evaluations"],
            self.cov["distinct_nontrivial"], self.cov["states"], self.cov["traces_validated_against_impl"]))
        return rc


def harness(geo, args, timeout=3600):
    b = build_eval() if geo == "eval" else build(geo)
    r = sh([b] + args, timeout=timeout)
    if r.returncode != 0:
        raise ToolError("harness %s failed rc=%d:\n%s" % (" ".join(args), r.returncode, r.stdout[-3000:]))
    return r.stdout


def gen_and_validate(res, jobs, props, par=None, module="TraceAbs"):
    """jobs: list of (geo, [harness args without out=]); each produces one trace file,
    validated by TLC; failures for res.prop are collected."""
    os.makedirs(WORK, exist_ok=True)
    par = par or max(2, NCPU // 2)

    def one(ij):
        i, (geo, args) = ij
        if STOP.is_set():
            return {"events": 0, "states": 0, "generated": 0, "accepted_runs": 0, "digests": set(), "failures": [],
                    "job": [geo] + args, "skipped": True}
        out = os.path.join(WORK, "tr-%s-%d-%d.ndjson" % (res.prop, os.getpid(), i))
        harness(geo, args + ["out=" + out, "props=" + ",".join(props)])
        v = validate_file(out, props, module)
        v["job"] = [geo] + args
        # distinct non-trivial events: digest of (event without observation)
        dig = set()
        with open(out) as f:
            first = None
            for ln in f:
                e = json.loads(ln)
                if e.get("ev") in ("hdr",):
                    continue
                o = e.get("obs", {})
                key = json.dumps([geo, strip_obs(e), o.get("trees"), o.get("slots"), o.get("stats")], sort_keys=True)
                dig.add(hashlib.md5(key.encode()).hexdigest())
                if first is None and e.get("ev") in ("sc", "bulkget", "call", "crash", "solo", "row", "sb", "ts", "lget", "cls", "zcreate", "nvm_create"):
                    first = strip_obs(e)
                    if "reqs" in first:
                        first["reqs"] = first["reqs"][:5]
            v["sample"] = first
        v["digests"] = dig
        os.unlink(out)
        return v

    with ThreadPoolExecutor(max_workers=par) as ex:
        outs = list(ex.map(one, enumerate(jobs)))
    if STOP.is_set():
        res.notes.append("stopped early: enough violations collected")
    for v in outs:
        res.cov["evaluations"] += v["events"]
        res.cov["states"] += v["states"]
        res.cov["transitions"] += v["generated"]
        res.cov["traces_validated_against_impl"] += v["accepted_runs"]
        res.distinct |= v["digests"]
        if v.get("sample"):
            res.sample({"job": v["job"], "event": v["sample"]})
        res.add_failures(v["failures"])
    return outs

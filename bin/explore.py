#!/usr/bin/env python3
"""ad-hoc: run harness jobs with all sequential properties selected and summarize failures"""
import sys, os, json, collections
sys.path.insert(0, os.path.dirname(os.path.abspath(__file__)))
import vlib
from vlib import Result, gen_and_validate
props = sys.argv[1].split(",")
geo = sys.argv[2]
cmd = sys.argv[3]
n = int(sys.argv[4])
extra = sys.argv[5:]
res = Result(props[0], "quick", 0, "model_checking")
allf = []
orig = res.add_failures
res.add_failures = lambda fs: allf.extend(fs)
jobs = [(geo, [cmd, "seed=%d" % (7000 + i)] + extra) for i in range(n)]
outs = gen_and_validate(res, jobs, props)
c = collections.Counter()
ex = {}
for f in allf:
    k = (f["prop"], f["check"], f["event"].get("op", f["event"].get("ev")), str(f["event"].get("msg", ""))[:60])
    c[k] += 1
    ex.setdefault(k, (f["run"], f["event"]))
for k, v in c.most_common():
    print(v, k, ex[k])
print("events", res.cov["evaluations"], "runs ok", res.cov["traces_validated_against_impl"], "tlc_s", sum(o["tlc_s"] for o in outs))

#!/usr/bin/env python3
"""finesynth.py <geo> <n> [seed] [timeout]: model-check the FINE model on a sample of synthesised scenarios (bin/scngen.py)"""
import json, os, random, re, sys
sys.path.insert(0, os.path.dirname(os.path.abspath(__file__)))
import vlib, mkmc, scngen
from concurrent.futures import ThreadPoolExecutor


def sample(geo, n, seed):
    sc = scngen.scenarios(geo)
    random.Random(seed * 104729 + len(geo)).shuffle(sc)
    return sc[:n]


def run_one(geo, name, scnfile, timeout, invariants=None):
    mod = mkmc.make(name, geo, invariants=invariants, scnfile=scnfile)
    if not mod:
        return None
    rc, out, dt = vlib.tlc(mod, workers=4, xmx="6g", timeout=timeout)
    gen, dist = vlib.tlc_stats(out)
    r = {"scn": name, "geo": geo, "states": dist, "generated": gen, "s": round(dt, 1), "result": "ok"}
    err = re.search(r"Invariant (\w+) is violated", out)
    if err:
        import freeze
        r["result"] = "violated:" + err.group(1)
        r["sched"] = freeze.schedule_of_trace(out)
    elif rc == 124:
        r["result"] = "timeout"
    elif "No error has been found" not in out:
        r["result"] = "error"
        r["detail"] = out[-1200:]
    for pre in ("MCgen_", "TFgen_"):
        for ext in (".tla", ".cfg"):
            try:
                os.unlink(os.path.join(vlib.SPEC, pre + mkmc.modname(name) + "_" + geo + ext))
            except OSError:
                pass
    return r


if __name__ == "__main__":
    geo, n = sys.argv[1], int(sys.argv[2])
    seed = int(sys.argv[3]) if len(sys.argv) > 3 else 1
    timeout = int(sys.argv[4]) if len(sys.argv) > 4 else 300
    sc = sample(geo, n, seed)
    f = os.path.join(vlib.WORK, "finesynth-%s-%d.json" % (geo, os.getpid()))
    json.dump(sc, open(f, "w"))
    with ThreadPoolExecutor(max_workers=4) as ex:
        for r in ex.map(lambda s: run_one(geo, s["name"], f, timeout), sc):
            print(json.dumps(r)[:400], flush=True)
    os.unlink(f)

"""Per-property verification plans (what is generated, what decides)."""
import json, os, sys, time
import vlib
from vlib import Result, gen_and_validate, log

SEQ_PROPS = ["C02", "C04", "C06", "C07", "C08", "C09", "C10", "C11", "C13", "C14", "C15", "C05"]


def geos_for(tier):
    return ["th4", "th1"] if tier == "quick" else ["th4", "th1", "th2", "th8", "16k"]


def seq_jobs(tier, seed, scale=1.0):
    """random sequential histories: (geo, args)"""
    jobs = []
    if tier == "quick":
        n, runs, ln = int(10 * scale), 12, 70
    else:
        n, runs, ln = int(60 * scale), 20, 250
    for g in geos_for(tier):
        for i in range(max(1, n if g in ("th4", "th1") else n // 2)):
            jobs.append((g, ["seq", "seed=%d" % (seed * 1000 + i), "runs=%d" % runs, "len=%d" % ln]))
    return jobs


def check_seq(prop, tier, seed):
    """Properties decided by the ABSTRACT monitor on sequential histories."""
    res = Result(prop, tier, seed, "model_checking")
    vlib.build_all(geos_for(tier))
    jobs = seq_jobs(tier, seed)
    gen_and_validate(res, jobs, [prop])
    themes = [t for t in GEN_THEMES if t not in THEME_ONLY or prop in THEME_ONLY[t] or tier == "thorough"]
    sjobs, nseq, gstates = script_jobs(tier, seed, themes=themes)
    try:
        gen_and_validate(res, sjobs, [prop], par=12)
    finally:
        cleanup_scripts(sjobs)
    res.cov["generated_sequences"] = nseq
    res.cov["generator_states"] = gstates
    res.cov["rule"] = ("(a) bounded-exhaustive: TLC enumerates EVERY sequence of %d letters of each theme alphabet of "
                       "spec/Gen.tla (Orders, Targeted, Classy, Rows, Offline; %d sequences), each run on rotating "
                       "configurations; (b) " % (3 if tier == "quick" else 4, nseq)) + ("seeded random sequential histories (all orders, targeted gets, frees of held / partly held / "
                       "never allocated blocks, drains, tree changes, invalid arguments, rebuilds) over rotating frame "
                       "counts, classings and geometries %s; every call's result and post-call observation is "
                       "validated by TLC against spec/TraceAbs.tla with property %s selected; distinct = distinct "
                       "(geometry, call, result, tree words, slot words, counters) tuples" % (geos_for(tier), prop))
    return res



PLANS = {p: check_seq for p in ["C02", "C04", "C07", "C08", "C09", "C10", "C13", "C14", "C15"]}


def geo_consts(geo):
    ho = 11 if geo.startswith("16k") else 9
    th = {"th4": 4, "th1": 1, "th2": 2, "th8": 8, "16k": 4, "16k_th1": 1}[geo]
    return th, ho


def init_counts(geo, tier):
    th, ho = geo_consts(geo)
    hf = 1 << ho
    tf = th * hf
    top = 3 * tf + hf if tier == "quick" else 3 * tf + 2 * hf
    if geo.startswith("16k") or geo == "th8":
        top = 2 * tf + hf
    pts = set([0, 1, 2, 63, 64, 65])
    near = 3 if tier == "quick" else 65
    b = hf
    while b <= top:
        for d in range(-near, near + 1):
            pts.add(b + d)
        if tier == "quick":
            pts.update([b - 64, b - 65, b + 64, b + 65, b - 63, b + 63])
        b += hf
    step = 509 if tier == "quick" else 61
    pts.update(range(1, top, step))
    return sorted(p for p in pts if 0 <= p <= top)


def check_c06(prop, tier, seed):
    res = Result(prop, tier, seed, "model_checking")
    geos = ["th4", "th1"] if tier == "quick" else ["th4", "th1", "th2", "th8", "16k"]
    vlib.build_all(geos)
    jobs = []
    total = 0
    for g in geos:
        cs = init_counts(g, tier)
        total += len(cs)
        chunk = 6 if tier == "quick" else 8
        for i in range(0, len(cs), chunk):
            jobs.append((g, ["init", "counts=" + ",".join(map(str, cs[i:i + chunk]))]))
    gen_and_validate(res, jobs, [prop])
    res.cov["frame_counts"] = total
    res.cov["rule"] = ("for every frame count n in a sweep (dense near every huge-frame / tree boundary, geometries %s): "
                       "fresh FreeAll allocator must observe exactly Abs!InitFr(n), allocate base frames until OOM "
                       "(with drains) and end with no free frame and no frame >= n handed out; fresh AllocAll allocator "
                       "must observe InitFr('alloc'), accept one free per whole huge frame (huge order) and per other "
                       "frame (order 0), reject all of them a second time, and then equal a FreeAll allocator; "
                       "validated by TLC (TraceAbs: Reset, BulkGet, BulkPut, SeqDrain)" % geos)
    return res


def check_c11(prop, tier, seed):
    res = Result(prop, tier, seed, "model_checking")
    geos = ["th1", "th4"] if tier == "quick" else ["th1", "th4", "th2", "th8"]
    vlib.build_all(geos)
    n = 4 if tier == "quick" else 24
    jobs = [(g, ["c11", "seed=%d" % (seed * 100 + i), "runs=%d" % (6 if tier == "quick" else 12)])
            for g in geos for i in range(n)]
    gen_and_validate(res, jobs, [prop])
    res.cov["rule"] = ("single-slot histories over 2-4 trees: exhaust memory through slot 0 of class 0, free subsets "
                       "(1 frame, 2^k frames of the slot's own tree, random subsets; each batch through the slot or "
                       "without a slot), allocate again until OOM; TLC (TraceAbs!BulkGet, C11 predicate) demands that "
                       "OOM is reported only when no frame is free")
    return res


PLANS["C06"] = check_c06
PLANS["C11"] = check_c11


SCN = os.path.join(vlib.VERIF, "spec", "scenarios.json")


def conc_jobs(tier, seed, extra=()):
    """one harness job per (geometry, scenario): DFS with pre-emption bound + PCT schedules"""
    geos = ["th4", "th1", "th2"] if tier == "quick" else ["th4", "th1", "th2", "th8", "16k"]
    names = [s["name"] for s in json.load(open(SCN))]
    jobs = []
    for g in geos:
        for nm in names:
            a = ["conc", "scn=" + SCN, "name=" + nm, "seed=%d" % seed]
            if tier == "quick":
                a += ["bound=2", "limit=1500", "pct=100", "depth=3"]
            else:
                a += ["bound=3", "limit=40000", "pct=3000", "depth=4"]
            jobs.append((g, a + list(extra)))
    return geos, jobs


def check_conc(prop, tier, seed):
    """C01 / C03 (and the concurrent half of C04 / C13): every explored interleaving of the
    scenario catalogue on the real code must be linearizable w.r.t. Abs (TraceAbs: Call/Lin/Ret)."""
    res = Result(prop, tier, seed, "model_checking")
    # epilogue=1: after every execution the callers wind down (free what they hold, drain) - sequential `sc` events
    geos, jobs = conc_jobs(tier, seed, extra=["epilogue=1"])
    vlib.build_all(geos)
    outs = gen_and_validate(res, jobs, [prop], par=vlib.NCPU)
    sj, sfiles, ntotal = synth_jobs(tier, seed, geos, extra=["epilogue=1"], sample=(650 if tier == "quick" else None))
    try:
        outs += gen_and_validate(res, sj, [prop], par=vlib.NCPU)
    finally:
        for f in sfiles:
            if os.path.exists(f):
                os.unlink(f)
    res.cov["synthesised_scenarios"] = ntotal
    if prop in ("C04", "C13"):
        gen_and_validate(res, seq_jobs(tier, seed, 0.6), [prop])
    res.cov["schedules_validated"] = sum(o.get("segments", 0) for o in outs)
    res.cov["rule"] = ("scenario catalogue spec/scenarios.json (race windows L1-L9 of the lower allocator, U1-U10 of the "
                       "upper allocator) plus synthesised two-thread scenarios (bin/scngen.py: 12 allocator states x every "
                       "ordered pair of operations of a per-state alphabet; a seeded sample in the quick tier, all of them "
                       "and three-thread combinations in the thorough tier) on geometries %s; the real code runs under a baton scheduler with one "
                       "scheduling point per atomic access: depth-first enumeration of all schedules with <= %s "
                       "pre-emptions plus seeded PCT schedules; every distinct observable execution (calls, results, "
                       "final observation) is validated by TLC against TraceAbs (linearizability w.r.t. Abs, no panic, "
                       "frees of held blocks succeed, quiescent accounting); distinct = distinct events incl. schedule"
                       % (geos, "2" if tier == "quick" else "3"))
    res.assumptions += ["sequentially consistent memory (the scheduler serialises the threads)",
                        "threads are deterministic functions of the values they read"]
    return res


for p in ("C01", "C03"):
    PLANS[p] = check_conc
_seq_c04 = PLANS["C04"]


def check_c04_c13(prop, tier, seed):
    return check_conc(prop, tier, seed)


PLANS["C04"] = check_c04_c13
PLANS["C13"] = check_c04_c13


def check_c05(prop, tier, seed):
    """Crash enumeration: a crash probe (snapshot of the lower metadata, Init::Recover over the copy,
    observation + free of every completed block) before every write to the persistent metadata."""
    res = Result(prop, tier, seed, "fault_enumeration")
    geos = ["th4", "th1", "th2"] if tier == "quick" else ["th4", "th1", "th2", "th8", "16k"]
    vlib.build_all(geos)
    jobs = []
    nseq = 4 if tier == "quick" else 40
    for g in geos:
        for i in range(nseq):
            jobs.append((g, ["crashseq", "seed=%d" % (seed * 100 + i), "runs=%d" % (25 if tier == "quick" else 60)]))
    names = [s["name"] for s in json.load(open(SCN)) if s["name"].startswith("L")]
    for g in geos:
        for nm in names:
            a = ["conc", "scn=" + SCN, "name=" + nm, "crash=1", "seed=%d" % seed]
            a += ["bound=1", "limit=150", "every=2"] if tier == "quick" else ["bound=2", "limit=3000", "every=1", "pct=300"]
            jobs.append((g, a))
    outs = gen_and_validate(res, jobs, [prop], par=vlib.NCPU)
    # crash points inside synthesised two-thread scenarios
    sj, sfiles, ntotal = synth_jobs(tier, seed, geos, extra=(["crash=1", "every=2", "bound=1", "limit=60", "pct=0"] if tier == "quick"
                                                           else ["crash=1", "every=1", "bound=2", "limit=600"]),
                                    sample=(80 if tier == "quick" else 400))
    try:
        gen_and_validate(res, sj, [prop], par=vlib.NCPU)
    finally:
        for f in sfiles:
            if os.path.exists(f):
                os.unlink(f)
    # recovery at quiescent points of random histories (Reinit action)
    gen_and_validate(res, seq_jobs(tier, seed, 0.4), [prop])
    res.cov["rule"] = ("crash points = every atomic write to the lower (persistent) metadata buffer plus the end of the "
                       "execution, of (a) seeded random single-thread programs over frame counts covering whole trees, "
                       "partial last trees and partial huge frames, (b) the concurrent lower-allocator scenarios L1-L8 "
                       "under enumerated schedules, (c) Init::Recover at quiescent points of random histories; at each "
                       "point the buffer is copied, a fresh allocator recovers from the copy, and TLC (TraceAbs!Crash) "
                       "checks: completed allocations still allocated and freeable with their order, free frames not "
                       "touched by an in-flight call still free, fast = exact counts, validate() passes; "
                       "distinct = distinct events (crash events differ by write index / recovered state)")
    res.cov["crash_points"] = res.cov["evaluations"]
    return res


def check_c21(prop, tier, seed):
    """Solo runs: at every scheduling point of base schedules, freeze the other threads and run each
    in-flight call alone; it must return (not panic) within SoloBound steps (TraceAbs!Solo)."""
    res = Result(prop, tier, seed, "model_checking")
    geos = ["th4", "th1", "th2"] if tier == "quick" else ["th4", "th1", "th2", "th8", "16k"]
    vlib.build_all(geos)
    names = [s["name"] for s in json.load(open(SCN))]
    jobs = []
    for g in geos:
        for nm in names:
            a = ["conc", "scn=" + SCN, "name=" + nm, "solo=1", "seed=%d" % seed]
            a += ["bound=1", "limit=200", "bases=200", "nbases=8"] if tier == "quick" else \
                 ["bound=2", "limit=4000", "bases=4000", "nbases=150"]
            jobs.append((g, a))
    gen_and_validate(res, jobs, [prop], par=vlib.NCPU)
    sj, sfiles, ntotal = synth_jobs(tier, seed, geos, extra=(["solo=1", "bound=1", "limit=40", "bases=40", "nbases=4", "pct=0"] if tier == "quick"
                                                           else ["solo=1", "bound=2", "limit=600", "bases=600", "nbases=40"]),
                                    sample=(100 if tier == "quick" else None))
    try:
        gen_and_validate(res, sj, [prop], par=vlib.NCPU)
    finally:
        for f in sfiles:
            if os.path.exists(f):
                os.unlink(f)
    res.cov["rule"] = ("for base schedules (non-preemptive ones and a sample of the DFS schedules) of every scenario: at "
                       "every scheduling point p and for every thread t with a call in flight, the execution is re-run "
                       "with prefix p and then only t scheduled until its call returns; the number of t's steps and the "
                       "way the call ended are logged as a solo event and checked by TLC against TraceAbs!SoloBound; "
                       "distinct = distinct (scenario, point, thread, steps) tuples")
    return res


PLANS["C05"] = check_c05
PLANS["C21"] = check_c21


def check_c23(prop, tier, seed):
    """Row search: the compiled first_zeros_aligned on structured rows vs RowSearch!SearchOk (TLC),
    plus the symbolic leg (Apalache, all 2^64 rows per order) when it is available."""
    res = Result(prop, tier, seed, "model_checking")
    vlib.build("th4")
    parts = 8 if tier == "quick" else 16
    nrand = 600 if tier == "quick" else 20000
    jobs = [("th4", ["rows", "seed=%d" % seed, "part=%d" % i, "parts=%d" % parts, "rand=%d" % nrand]) for i in range(parts)]
    gen_and_validate(res, jobs, [prop], module="TraceSat")
    res.cov["rule"] = ("for each order 0..6: rows built from aligned blocks (first free block at every position, blocks "
                       "below filled with ones / low bit / high bit / all-but-one / alternating, blocks above zero / ones "
                       "/ patterned / random), every single-bit and single-hole row, every single free aligned and "
                       "misaligned block, seeded random rows of 5 densities; the compiled function's (offset, new row) is "
                       "validated by TLC against RowSearch!SearchOk (lowest aligned free block, exactly its bits set)")
    import symbolic
    symbolic.rowsearch_symbolic(res, tier)
    return res


def check_c16(prop, tier, seed):
    res = Result(prop, tier, seed, "model_checking")
    vlib.build("th4")
    parts = 8 if tier == "quick" else 16
    maxlen, dom = (6, 4) if tier == "quick" else (8, 4)
    jobs = [("th4", ["sortbuf", "seed=%d" % seed, "maxlen=%d" % maxlen, "dom=%d" % dom, "part=%d" % i,
                     "parts=%d" % parts, "rand=%d" % (2000 if tier == "quick" else 40000)]) for i in range(parts)]
    nts = 8 if tier == "quick" else 64
    jobs += [("th4", ["treesearch", "seed=%d" % (seed * 100 + i), "runs=1500"]) for i in range(nts)]
    gen_and_validate(res, jobs, [prop], module="TraceSat")
    res.cov["exhaustive"] = True
    res.cov["rule"] = ("SortedBuffer<N,u8>: ALL insertion sequences up to length %d over ratings 0..%d for every capacity "
                       "N=1..8 (exhaustive) plus random sequences up to length 64, compiled code's iter().rev() validated by "
                       "TLC against SortedBuf!IterOk; Trees::search_best::<N> (N in 1,2,3,4,8) over random tree arrays (1-24 "
                       "trees, random counters / classes / reservations, full and neighbourhood scans): logged ratings and "
                       "access order validated against SortedBuf!TreeSearchOk" % (maxlen, dom - 1))
    return res


def check_c12(prop, tier, seed):
    res = Result(prop, tier, seed, "model_checking")
    geos = ["th4", "th1", "th2"] if tier == "quick" else ["th4", "th1", "th2", "th8", "16k"]
    vlib.build_all(geos)
    n = 6 if tier == "quick" else 60
    jobs = [(g, ["lower", "seed=%d" % (seed * 100 + i), "runs=%d" % (25 if tier == "quick" else 60)])
            for g in geos for i in range(n)]
    gen_and_validate(res, jobs, [prop], module="TraceSat")
    res.cov["rule"] = ("the compiled Lower (no upper allocator) on 1-2 trees incl. partial last trees: allocation patterns "
                       "built per huge frame from {untouched, entirely free, whole, exactly one free block of order k at "
                       "position p, random sub-blocks}, then directed allocations Lower::get(row hint, order) for orders "
                       "0..tree order from random row hints until exhaustion; every call is a TLC step of TraceSat!LGet/"
                       "LPut: failure only if Abs!ExistsFreeBlock is false for the hinted tree, success marks exactly the "
                       "returned block (per-frame observation compared)")
    return res


PLANS["C23"] = check_c23
PLANS["C16"] = check_c16
PLANS["C12"] = check_c12


def check_c17(prop, tier, seed):
    res = Result(prop, tier, seed, "model_checking")
    res.aliases = {"C02", "C08", "C09", "C04"}
    geos = ["th4", "th1"] if tier == "quick" else ["th4", "th1", "th2", "th8", "16k"]
    vlib.build_all(geos)
    n = 6 if tier == "quick" else 40
    jobs = [(g, ["zone", "seed=%d" % (seed * 100 + i), "runs=%d" % (4 if tier == "quick" else 10),
                 "len=%d" % (60 if tier == "quick" else 200)]) for g in geos for i in range(n)]
    gen_and_validate(res, jobs, ["C17", "C02", "C08", "C09", "C04"])
    res.cov["rule"] = ("ZoneAlloc<LLFree> at tree-aligned offsets (and refused misaligned ones) and NvmAlloc<LLFree> over real "
                       "page-aligned regions of 1-3 trees plus odd remainders, driven through the Alloc trait with random "
                       "histories incl. frames below the offset; the harness shifts frame numbers by the offset on the way in "
                       "and back on the way out, so TLC validates the wrapped allocator with the ordinary ownership / "
                       "accounting predicates (a wrong translation misplaces a block) plus TraceAbs!NvmCreate (layout: managed "
                       "= total - header - metadata pages), NvmRefuse (untouched / differently sized regions), Reinit "
                       "(recovered instance has the same allocation state)")
    return res


PLANS["C17"] = check_c17


def check_c19(prop, tier, seed):
    res = Result(prop, tier, seed, "model_checking")
    vlib.build_eval()
    parts = 8 if tier == "quick" else 16
    jobs = [("eval", ["classes", "tier=" + tier, "part=%d" % i, "parts=%d" % parts]) for i in range(parts)]
    gen_and_validate(res, jobs, [prop], module="TraceSat")
    res.cov["rule"] = ("class configurations: synthetic 1-4 class configurations in which each position takes each slot-count "
                       "kind (zero, one, cores, cores_half, pids) while the others are 'cores', all-same-kind configurations, and "
                       "the shipped results/classes*.json; for core counts %s x core x pid (boundary values in quick, 0..64 in "
                       "thorough) x orders x GFP flag sets the compiled ClassingConfig::request / classing is called, the request "
                       "is used for a real allocation, and TLC validates every generated request against "
                       "Classes!ValidRequest (TraceSat!Cls)" % ("1,2,3,4,8,16" if tier == "quick" else "1..16"))
    return res


PLANS["C19"] = check_c19


def check_c20(prop, tier, seed):
    """spec -> impl: TLC enumerates traces from Replay.tla, the compiled replay binary runs each;
    impl -> spec: TLC validates the binary's output against Replay!Expected (TraceSat!ReplayEv)."""
    import re, random, replaylib
    from concurrent.futures import ThreadPoolExecutor
    res = Result(prop, tier, seed, "model_checking")
    binary = vlib.build_replay()
    depth = 3 if tier == "quick" else 4
    cfg = os.path.join(vlib.WORK, "MC_Replay_%d.cfg" % os.getpid())
    open(cfg, "w").write("SPECIFICATION Spec\nCONSTANTS\n  Letters <- AllLetters\n  Depth = %d\nINVARIANT Emit\nCHECK_DEADLOCK FALSE\n" % depth)
    rc, out, dt = vlib.tlc("MC_Replay", cfg=cfg, workers=1, xmx="4g", timeout=3000)
    os.unlink(cfg)
    if rc != 0:
        raise vlib.ToolError("Replay generator failed:\n" + out[-2000:])
    gen, dist = vlib.tlc_stats(out)
    seqs = [json.loads(json.loads('"%s"' % m)) for m in re.findall(r'<<"SEQ", "((?:[^"\\]|\\.)*)">>', out)]
    seqs = [s for s in seqs if s]
    if tier == "thorough":
        rnd0 = random.Random(seed)
        rnd0.shuffle(seqs)
        seqs = seqs[:60000]
    # seeded random longer traces over the same alphabet (orders 0..10, several cores)
    rnd = random.Random(seed)
    letters = sorted({tuple(e) for s in seqs for e in s})
    extra = []
    for i in range(300 if tier == "quick" else 5000):
        n = rnd.randint(4, 14)
        s = []
        for _ in range(n):
            if rnd.random() < 0.25:
                o = rnd.choice([0, 1, 2, 3, 5, 9, 10])
                p = rnd.choice([8, 16, 64, 512, 1024, 1536])
                p = max(1 << o, (p >> o) << o)
                kind = rnd.random() < 0.5
                if not kind and rnd.random() < 0.7 and o > 0:
                    # partial free inside
                    so = rnd.randint(0, o - 1)
                    s.append([0, p + rnd.randrange(1 << (o - so)) * (1 << so), so])
                else:
                    s.append([1 if kind else 0, p, o])
            else:
                s.append(list(rnd.choice(letters)))
        extra.append(s)
    # random traces must be consistent as well (Replay!ValidEvent): drop allocations that overlap a block the trace
    # still holds at another pfn
    def consistent(seq):
        rec, out = {}, []
        for a, p, o in seq:
            if a == 1:
                if any(p < q + (1 << ro) and q < p + (1 << o) and q != p for q, ro in rec.items()):
                    continue
                rec[p] = o
            else:
                found = None
                for so in range(o, 12):
                    b = (p >> so) << so
                    if b in rec and rec[b] >= so:
                        found = b
                        break
                if found is not None:
                    A = rec[found]
                    parts = [found + i * (1 << o) for i in range(1 << (A - o))]
                    for q in parts:
                        rec.pop(q, None)
                    for q in parts:
                        if q != p:
                            rec[q] = o
            out.append([a, p, o])
        return out
    extra = [consistent(s) for s in extra]
    allseq = seqs + [s for s in extra if s]
    with ThreadPoolExecutor(max_workers=vlib.NCPU) as ex:
        evs = list(ex.map(lambda iq: replaylib.run_replay(binary, iq[1], vlib.WORK, cores=1 + iq[0] % 3), enumerate(allseq)))
    # validate in chunks
    chunk = 2500
    files = []
    for i in range(0, len(evs), chunk):
        p = os.path.join(vlib.WORK, "replay-%d-%d.ndjson" % (os.getpid(), i))
        with open(p, "w") as f:
            f.write(json.dumps({"ev": "hdr", "props": [prop]}) + "\n")
            for e in evs[i:i + chunk]:
                f.write(json.dumps(e) + "\n")
        files.append(p)

    def val(p):
        # each replay event is its own "run": split on rejection by removing the offending line
        fails = []
        lines = open(p).read().splitlines()[1:]
        st = 0
        for _ in range(200):
            if not lines:
                break
            q = p + ".part"
            with open(q, "w") as f:
                f.write(json.dumps({"ev": "hdr", "props": [prop]}) + "\n" + "\n".join(lines) + "\n")
            rc, out, dt = vlib.tlc("TraceSat", env={"TRACE": q}, deque=True)
            os.unlink(q)
            g, s = vlib.tlc_stats(out)
            st += s
            if '"ACCEPTED"' in out and rc == 0:
                break
            m = re.search(r'<<"REJECTED", (\d+), "([a-z_]+)">>', out)
            if not m:
                raise vlib.ToolError("TLC failed on replay events:\n" + out[-2000:])
            ln = int(m.group(1)) - 2
            ev = json.loads(lines[ln])
            for fm in re.finditer(r'<<"FAIL", "(C\d+)", "([^"]+)", (\d+)>>', out):
                if int(fm.group(3)) == ln + 2:
                    fails.append({"prop": fm.group(1), "check": fm.group(2), "run": "replay", "line": ln, "event": ev,
                                  "lines": [lines[ln]]})
                    break
            lines = lines[ln + 1:]
        os.unlink(p)
        return st, fails

    with ThreadPoolExecutor(max_workers=8) as ex:
        outs = list(ex.map(val, files))
    for st, fails in outs:
        res.cov["states"] += st
        res.add_failures(fails)
    res.cov["states"] += dist
    res.cov["transitions"] = gen + len(evs)
    res.cov["evaluations"] = len(evs)
    res.cov["traces_validated_against_impl"] = len(evs)
    res.distinct = {json.dumps(e["seq"]) for e in evs}
    res.cov["exhaustive"] = True
    res.sample(evs[len(evs) // 3])
    res.sample(evs[-1])
    res.cov["rule"] = ("spec->impl: TLC enumerates EVERY trace up to length %d over the 19-letter alphabet of MC_Replay.tla "
                       "(allocations of orders 0,1,2,9,10; whole frees; frees of first / middle / last parts; frees of unknown "
                       "frames; re-allocations) plus seeded random traces of length 4-14 (orders 0..10); each is written as a "
                       "binary trace file (1-3 cores) and run through the compiled eval/src/bin/replay.rs; impl->spec: TLC "
                       "validates the reported free_frames / failed frees against Replay!Expected; distinct = distinct traces"
                       % depth)
    return res


PLANS["C20"] = check_c20


GEN_THEMES = {
    "Orders": [({"tf": 1, "hf": 1, "plus": 7}, "free", "simple", 1), ({"tf": 2, "hf": 0, "plus": 0}, "alloc", "simple", 2),
               ({"tf": 1, "hf": 0, "plus": 0}, "free", "movable", 1), ({"tf": 3, "hf": 0, "plus": 0}, "free", "simple", 1)],
    "Targeted": [({"tf": 2, "hf": 0, "plus": 0}, "free", "simple", 1), ({"tf": 1, "hf": 0, "plus": 1}, "alloc", "simple", 1),
                 ({"tf": 3, "hf": 1, "plus": 0}, "free", "movable", 2)],
    "Classy": [({"tf": 3, "hf": 0, "plus": 0}, "free", "zeroed", 1), ({"tf": 3, "hf": 0, "plus": 0}, "free", "zeroslot0", 1),
               ({"tf": 3, "hf": 0, "plus": 0}, "free", "custom", 1), ({"tf": 2, "hf": 0, "plus": 0}, "free", "movable", 1),
               ({"tf": 2, "hf": 0, "plus": 0}, "free", "zeroslot", 1)],
    "Rows": [({"tf": 1, "hf": 0, "plus": 0}, "free", "simple", 1), ({"tf": 1, "hf": 1, "plus": 0}, "free", "movable", 1)],
    "Cursor": [({"tf": 2, "hf": 0, "plus": 0}, "free", "simple", 1)],
    "Frag": [({"tf": 2, "hf": 0, "plus": 0}, "free", "simple", 1), ({"tf": 2, "hf": 0, "plus": 0}, "free", "movable", 1),
             ({"tf": 3, "hf": 0, "plus": 0}, "free", "simple", 2)],
    "Full": [({"tf": 1, "hf": 0, "plus": 0}, "free", "simple", 1), ({"tf": 2, "hf": 0, "plus": 0}, "free", "movable", 1)],
    "Demote": [({"tf": 2, "hf": 0, "plus": 0}, "free", "uneven", 1), ({"tf": 2, "hf": 0, "plus": 0}, "free", "simple", 2),
               ({"tf": 3, "hf": 0, "plus": 0}, "free", "uneven", 2)],
    "Remote": [({"tf": 3, "hf": 0, "plus": 0}, "free", "zeroed", 1), ({"tf": 2, "hf": 0, "plus": 0}, "free", "movable", 1),
               ({"tf": 3, "hf": 0, "plus": 0}, "free", "simple", 2)],
    "Offline": [({"tf": 3, "hf": 0, "plus": 0}, "free", "simple", 1), ({"tf": 2, "hf": 1, "plus": 0}, "free", "zeroed", 1),
                ({"tf": 2, "hf": 0, "plus": 0}, "alloc", "simple", 1)],
}
_gen_cache = {}
# themes added late are wired to the property whose seeded change asked for them (time: every theme added to all
# sequential checks costs ~10 s per check); thorough tier runs them for every sequential property
THEME_ONLY = {"Remote": ("C09",)}


def gen_sequences(theme, depth):
    """TLC enumerates every sequence of `depth` letters of the theme's alphabet (spec/Gen.tla)"""
    import re
    key = (theme, depth)
    if key in _gen_cache:
        return _gen_cache[key]
    cfg = os.path.join(vlib.WORK, "MC_Gen_%s_%d_%d.cfg" % (theme, depth, os.getpid()))
    open(cfg, "w").write("SPECIFICATION Spec\nCONSTANTS\n  Letters <- %s\n  Depth = %d\nINVARIANT Emit\nCHECK_DEADLOCK FALSE\n" % (theme, depth))
    rc, out, dt = vlib.tlc("Gen", cfg=cfg, workers=1, xmx="4g", timeout=3000)
    os.unlink(cfg)
    if rc != 0:
        raise vlib.ToolError("Gen.tla (%s) failed:\n%s" % (theme, out[-2000:]))
    seqs = [json.loads(json.loads('"%s"' % m)) for m in re.findall(r'<<"SEQ", "((?:[^"\\]|\\.)*)">>', out)]
    _gen_cache[key] = (seqs, vlib.tlc_stats(out))
    return _gen_cache[key]


def script_jobs(tier, seed, themes=None):
    """bounded-exhaustive symbolic sequences -> harness script jobs"""
    depth = 3 if tier == "quick" else 4
    geos = ["th4", "th1"] if tier == "quick" else ["th4", "th1", "th2"]
    jobs, nseq, states = [], 0, 0
    os.makedirs(vlib.WORK, exist_ok=True)
    for theme in (themes or [t for t in GEN_THEMES if t not in THEME_ONLY]):
        # the Cursor theme has 6 letters and needs 5 steps (reserve, move the cursor, refill, allocate)
        # the Cursor / Full themes have 6-7 letters and need 5 steps (reserve, move, refill, allocate ...)
        d = depth
        if theme in ("Cursor", "Full"):
            d = 5 if tier == "quick" or theme == "Full" else 6
        if theme == "Demote":
            d = depth + 1
        seqs, st = gen_sequences(theme, d)
        states += st[1]
        nseq += len(seqs)
        cfgs = GEN_THEMES[theme]
        per = 1 if tier == "quick" else min(2, len(cfgs))
        if theme in THEME_ONLY:
            per = len(cfgs)   # a theme run for one property only: every sequence on every configuration
        chunk = 450
        for gi, g in enumerate(geos):
            lines = []
            for i, sq in enumerate(seqs):
                for j in range(per):
                    fr, init, cls, k = cfgs[(i + j + gi + seed) % len(cfgs)]
                    lines.append(json.dumps({"run": "%s:%d" % (theme, i), "frames": fr, "init": init, "cls": cls, "k": k, "ops": sq}))
            for c in range(0, len(lines), chunk):
                p = os.path.join(vlib.WORK, "script-%s-%s-%d-%d.jsonl" % (theme, g, os.getpid(), c))
                open(p, "w").write("\n".join(lines[c:c + chunk]) + "\n")
                jobs.append((g, ["script", "in=" + p]))
    return jobs, nseq, states


def cleanup_scripts(jobs):
    for g, a in jobs:
        for x in a:
            if x.startswith("in="):
                try:
                    os.unlink(x[3:])
                except OSError:
                    pass


# ---------------------------------------------------------------------------
# FINE model stage (LLFree.tla): exhaustive TLC + step conformance + counterexample replay
# ---------------------------------------------------------------------------
FINE_QUICK = {"th4": ["L1", "L2", "L3", "L4", "L5", "L5b", "L6", "L8", "U1", "U2", "U7"], "th1": ["U4", "U4b", "U5", "U5b", "U9", "L7", "U11", "U12"]}
FINE_THOROUGH = {"th4": ["L1", "L1b", "L2", "L2b", "L3", "L3b", "L4", "L5", "L5b", "L6", "L7", "L8", "U1", "U2", "U3", "U7"],
                 "th1": ["L1", "L2", "L5", "L6", "L8", "L9", "U1", "U2", "U4", "U4b", "U5", "U5b", "U6", "U7", "U8", "U9", "U10", "U11", "U12"],
                 "th2": ["L1", "L2", "L3", "L4", "L5", "L6", "L7", "L8", "U1", "U2", "U7"]}
FINE_INVS = {"C01": ["NoOverlap", "HeldAllocated"], "C03": ["NoPanic", "PutsOk"], "C04": ["QuiescentAccounting", "CounterBound"],
             "C05": ["CrashConsistent", "HeldAllocated"], "C09": ["NoPanic"]}


def fine_schedule(out):
    """access schedule (thread per access) of a TLC error trace"""
    import freeze
    return freeze.schedule_of_trace(out)


def fine_stage(res, tier, seed, prop):
    import re, mkmc, fineconf
    from concurrent.futures import ThreadPoolExecutor
    plan = FINE_QUICK if tier == "quick" else FINE_THOROUGH
    invs = FINE_INVS.get(prop, ["NoOverlap", "NoPanic"])
    work = [(g, n, None) for g, ns in plan.items() for n in ns]
    # plus a seeded sample of the synthesised scenarios (bin/scngen.py: allocator state x pair of operations / short programs)
    import finesynth
    sfiles = []
    for g, cnt in (("th1", 12), ("th4", 12)) if tier == "quick" else (("th1", 150), ("th4", 150), ("th2", 60)):
        sc = finesynth.sample(g, cnt, seed)
        f = os.path.join(vlib.WORK, "finesynth-%s-%d.json" % (g, os.getpid()))
        json.dump(sc, open(f, "w"))
        sfiles.append(f)
        work += [(g, x["name"], f) for x in sc]
    fine = {"scenarios": 0, "synthesised": 0, "states": 0, "generated": 0, "conforming_sequences": 0, "drift": [], "violations_replayed": []}

    def one(gn):
        g, n, sf = gn
        mod = mkmc.make(n, g, invariants=invs, scnfile=sf)
        if not mod:
            return None
        rc, out, dt = vlib.tlc(mod, workers=4, xmx="8g", timeout=(300 if sf else 1500) if tier == "quick" else (1200 if sf else 5400))
        gen, dist = vlib.tlc_stats(out)
        r = {"scn": n, "geo": g, "states": dist, "generated": gen, "s": round(dt, 1), "result": "ok", "scnfile": sf}
        err = re.search(r"Invariant (\w+) is violated", out)
        if err:
            r["result"] = "violated:" + err.group(1)
            r["sched"] = fine_schedule(out)
        elif rc == 124 or "No error has been found" not in out and "states generated" not in out[-3000:]:
            r["result"] = "timeout" if rc == 124 else "error"
            r["detail"] = out[-800:]
        elif "No error has been found" not in out:
            r["result"] = "error"
            r["detail"] = out[-800:]
        # step conformance of the real code against the model
        if sf:
            c = fineconf.conform(g, n, bound=1, limit=40 if tier == "quick" else 300, scnfile=sf)
            for pre in ("MCgen_", "TFgen_"):
                for ext in (".tla", ".cfg"):
                    try:
                        os.unlink(os.path.join(vlib.SPEC, pre + mkmc.modname(n) + "_" + g + ext))
                    except OSError:
                        pass
        else:
            c = fineconf.conform(g, n, bound=1 if tier == "quick" else 2, limit=150 if tier == "quick" else 2000)
        r["conf"] = c
        return r

    with ThreadPoolExecutor(max_workers=4) as ex:
        rs = [r for r in ex.map(one, work) if r]
    for r in rs:
        fine["scenarios"] += 1
        fine["synthesised"] += 1 if r.get("scnfile") else 0
        fine["states"] += r["states"]
        fine["generated"] += r["generated"]
        c = r["conf"]
        if c.get("status") == "conforms":
            fine["conforming_sequences"] += c["sequences"]
        elif c.get("status") == "drift":
            fine["drift"].append({"scn": r["scn"], "geo": r["geo"], "event": c.get("event"), "at": c.get("at")})
            log("MODEL-DRIFT: scenario %s (%s): the FINE model no longer describes the code at access %s: %s"
                % (r["scn"], r["geo"], c.get("at"), c.get("event")))
        elif c.get("status") == "error":
            if r.get("scnfile"):
                # the model cannot evaluate a synthesised scenario: incompleteness of the model, reported, never a verdict
                log("MODEL-DRIFT: step conformance of synthesised scenario %s (%s) could not be evaluated: %s"
                    % (r["scn"], r["geo"], (c.get("detail") or "")[-300:]))
                fine["drift"].append({"scn": r["scn"], "geo": r["geo"], "event": "conformance run failed"})
            else:
                raise vlib.ToolError("step conformance failed for %s: %s" % (r["scn"], c.get("detail")))
        if r["result"] == "timeout":
            fine.setdefault("timeouts", []).append({"scn": r["scn"], "geo": r["geo"]})
            res.notes.append("FINE exhaustive run of %s (%s) did not finish within the time limit (inconclusive)" % (r["scn"], r["geo"]))
        if r["result"] == "error":
            if r.get("scnfile"):
                log("MODEL-DRIFT: the FINE model could not be evaluated on synthesised scenario %s (%s): %s"
                    % (r["scn"], r["geo"], (r.get("detail") or "")[-300:]))
                fine["drift"].append({"scn": r["scn"], "geo": r["geo"], "event": "model evaluation failed"})
            else:
                raise vlib.ToolError("FINE model check failed for %s/%s:\n%s" % (r["scn"], r["geo"], r.get("detail")))
        if r["result"].startswith("violated"):
            # a design-level counterexample is believed only if it replays on the real code
            sched = ",".join(map(str, r["sched"]))
            out = os.path.join(vlib.WORK, "fine-replay-%s-%s-%d.ndjson" % (r["scn"], r["geo"], os.getpid()))
            out = os.path.join(vlib.WORK, "fine-replay-%s-%s-%d.ndjson" % (mkmc.modname(r["scn"]), r["geo"], os.getpid()))
            vlib.harness(r["geo"], ["conc", "scn=" + (r.get("scnfile") or SCN), "name=" + r["scn"], "asched=" + sched, "out=" + out, "props=" + prop])
            v = vlib.validate_file(out, [prop])
            os.unlink(out)
            mine = [f for f in v["failures"] if f["prop"] == prop]
            fine["violations_replayed"].append({"scn": r["scn"], "geo": r["geo"], "invariant": r["result"],
                                                "reproduced_on_code": bool(mine), "schedule": r["sched"][:80]})
            if mine:
                for f in mine:
                    f["detail"] = {"fine_invariant": r["result"], "access_schedule": r["sched"]}
                res.add_failures(mine)
            else:
                log("MODEL-DRIFT: FINE invariant %s fails in scenario %s (%s) but the schedule does not violate %s on the "
                    "real code: the model is stale" % (r["result"], r["scn"], r["geo"], prop))
                fine["drift"].append({"scn": r["scn"], "geo": r["geo"], "event": "counterexample not reproducible"})
    for f in sfiles:
        if os.path.exists(f):
            os.unlink(f)
    res.cov["states"] += fine["states"]
    res.cov["transitions"] += fine["generated"]
    res.cov["fine_model"] = fine
    res.cov["fine_invariants"] = invs
    res.notes.append("FINE model LLFree.tla: %d scenarios (%d of them synthesised by bin/scngen.py) exhaustively model-checked (%d "
                     "distinct states), invariants %s; %d access sequences of the real code conform step by step; drift: %d"
                     % (fine["scenarios"], fine["synthesised"], fine["states"], invs, fine["conforming_sequences"], len(fine["drift"])))
    return fine


_old_check_conc = check_conc


def check_conc_fine(prop, tier, seed):
    res = _old_check_conc(prop, tier, seed)
    if prop in FINE_INVS and not vlib.STOP.is_set():
        fine_stage(res, tier, seed, prop)
        res.cov["rule"] += ("; plus the FINE model (spec/LLFree.tla, one label per atomic access, real geometry): TLC explores "
                            "ALL interleavings of the 2-thread scenarios (quick) / 2-3-thread scenarios (thorough) with the "
                            "invariants listed under fine_invariants, the real code's access sequences are checked to be "
                            "behaviours of that model (step conformance), and a model counterexample is replayed on the code")
    return res


for p in ("C01", "C03", "C04", "C13"):
    PLANS[p] = check_conc_fine
_old_c05 = check_c05


def check_c05_fine(prop, tier, seed):
    res = _old_c05(prop, tier, seed)
    if not vlib.STOP.is_set():
        fine_stage(res, tier, seed, prop)
    return res


PLANS["C05"] = check_c05_fine


# ---------------------------------------------------------------------------
# C21 on the FINE model: Freeze at every reachable state (bin/freeze.py)
# ---------------------------------------------------------------------------
FREEZE_QUICK = {"th4": ["L1", "L2", "L3", "L4", "L5", "L6", "L8", "U1", "U7"], "th1": ["U4", "U5", "U5b", "U9", "U11", "U12", "L7"]}
_old_c21 = check_c21


def freeze_stage(res, tier, seed, prop):
    import freeze
    from concurrent.futures import ThreadPoolExecutor
    plan = FREEZE_QUICK if tier == "quick" else FINE_THOROUGH
    work = [(g, n) for g, ns in plan.items() for n in ns]
    fz = {"scenarios": 0, "states": 0, "generated": 0, "bound_accesses": freeze.FBOUND, "violations_replayed": [], "timeouts": []}

    def one(gn):
        return freeze.run(gn[1], gn[0], workers=4, timeout=1200 if tier == "quick" else 5400)

    with ThreadPoolExecutor(max_workers=4) as ex:
        rs = [r for r in ex.map(one, work) if r]
    for r in rs:
        fz["scenarios"] += 1
        fz["states"] += r["states"]
        fz["generated"] += r["generated"]
        if r["result"] == "timeout":
            fz["timeouts"].append({"scn": r["scn"], "geo": r["geo"]})
            res.notes.append("FINE Freeze run of %s (%s) did not finish within the time limit (inconclusive)" % (r["scn"], r["geo"]))
        elif r["result"] == "error":
            raise vlib.ToolError("FINE Freeze model check failed for %s/%s:\n%s" % (r["scn"], r["geo"], r.get("detail")))
        elif r["result"].startswith("violated"):
            # believed only if the real code, run along the counterexample's schedule, yields a solo event TraceAbs rejects
            out = os.path.join(vlib.WORK, "freeze-replay-%s-%s-%d.ndjson" % (r["scn"], r["geo"], os.getpid()))
            vlib.harness(r["geo"], ["conc", "scn=" + SCN, "name=" + r["scn"], "asched=" + ",".join(map(str, r["sched"])),
                                    "solot=%d" % r["frozen"], "solofrom=%d" % r["before"], "maxsteps=30000",
                                    "out=" + out, "props=" + prop])
            v = vlib.validate_file(out, [prop])
            os.unlink(out)
            mine = [f for f in v["failures"] if f["prop"] == prop]
            fz["violations_replayed"].append({"scn": r["scn"], "geo": r["geo"], "invariant": r["result"], "thread": r["frozen"],
                                              "freeze_after_accesses": r["before"], "reproduced_on_code": bool(mine)})
            if mine:
                for f in mine:
                    f["detail"] = {"fine_invariant": r["result"], "access_schedule": r["sched"], "solo_thread": r["frozen"],
                                   "freeze_after_accesses": r["before"]}
                res.add_failures(mine)
            else:
                log("MODEL-DRIFT: FINE Freeze invariant %s fails in scenario %s (%s) but the real code's solo run along that "
                    "schedule satisfies C21: the model is stale" % (r["result"], r["scn"], r["geo"]))
    res.cov["states"] += fz["states"]
    res.cov["transitions"] += fz["generated"]
    res.cov["fine_freeze"] = fz
    res.notes.append("FINE model with Freeze (bin/freeze.py): from EVERY reachable state of EVERY interleaving of %d scenarios (%d "
                     "distinct states incl. the solo continuations) every thread with a call in flight, run alone, ends its call "
                     "within %d accesses and without a panic (SoloBounded, SoloReturns)" % (fz["scenarios"], fz["states"], freeze.FBOUND))
    return fz


def check_c21_freeze(prop, tier, seed):
    res = _old_c21(prop, tier, seed)
    if not vlib.STOP.is_set():
        freeze_stage(res, tier, seed, prop)
        res.cov["rule"] += ("; plus the FINE model extended by a Freeze step (spec MFgen_* generated by bin/freeze.py from "
                            "spec/LLFree.tla): TLC visits every reachable state of every interleaving of the scenarios, freezes "
                            "all threads but one there and checks that this thread's call ends within the bound and without a "
                            "panic; a counterexample is replayed on the real code and decided by TraceAbs!Solo")
    return res


PLANS["C21"] = check_c21_freeze


def synth_jobs(tier, seed, geos, extra=(), sample=None, only=None):
    """synthesised two-thread scenarios (bin/scngen.py): files of ~40 scenarios, one harness job each"""
    import scngen, random
    jobs, files, total = [], [], 0
    for g in geos:
        sc = scngen.scenarios(g, with_triples=(tier == "thorough"), with_known=(tier == "thorough"), only=only)
        rnd = random.Random(seed * 7919 + len(g))
        rnd.shuffle(sc)
        if sample:
            sc = sc[:sample]
        total += len(sc)
        for c in range(0, len(sc), 40):
            p = os.path.join(vlib.WORK, "synth-%s-%d-%d.json" % (g, os.getpid(), c))
            json.dump(sc[c:c + 40], open(p, "w"))
            files.append(p)
            a = ["conc", "scn=" + p, "seed=%d" % seed]
            a += ["bound=2", "limit=250", "pct=20", "depth=3"] if tier == "quick" else ["bound=3", "limit=4000", "pct=300", "depth=4"]
            jobs.append((g, a + list(extra)))
    return jobs, files, total


_seq_check = check_seq


def check_c15(prop, tier, seed):
    """sequential histories (the property's own quantifier) + tree changes racing with allocations"""
    res = _seq_check(prop, tier, seed)
    if not vlib.STOP.is_set():
        geos = ["th4", "th1"] if tier == "quick" else ["th4", "th1", "th2", "th8"]
        sj, sfiles, n = synth_jobs(tier, seed, geos, only=("offline", "offlined", "offlined2", "zeroedcls"))
        try:
            gen_and_validate(res, sj, [prop], par=vlib.NCPU)
        finally:
            for f in sfiles:
                if os.path.exists(f):
                    os.unlink(f)
        res.cov["rule"] += "; plus synthesised two-thread scenarios with tree changes racing against allocations / frees / drains (%d scenarios)" % n
    return res


def check_c10(prop, tier, seed):
    """sequential histories + drain-and-probe at the end of concurrent executions"""
    res = _seq_check(prop, tier, seed)
    if not vlib.STOP.is_set():
        geos, jobs = conc_jobs(tier, seed, extra=["probe=1"] + (["bound=1", "limit=200", "pct=30"] if tier == "quick" else []))
        gen_and_validate(res, jobs, [prop], par=vlib.NCPU)
        res.cov["rule"] += ("; plus: at the end of every explored interleaving of the scenario catalogue the allocator is drained "
                            "and probed with a base-order allocation and a targeted allocation of a currently free frame")
    return res


PLANS["C15"] = check_c15
PLANS["C10"] = check_c10


def check_c08(prop, tier, seed):
    """argument checks on sequential histories + validation of the metadata buffers handed to LLFree::new"""
    res = _seq_check(prop, tier, seed)
    if not vlib.STOP.is_set():
        geos = ["th4", "th1"] if tier == "quick" else ["th4", "th1", "th2", "th8", "16k"]
        jobs = [(g, ["meta", "seed=%d" % (seed * 10 + i), "runs=%d" % (1200 if tier == "quick" else 6000)]) for g in geos for i in range(2)]
        gen_and_validate(res, jobs, [prop], module="TraceSat")
        res.cov["rule"] += ("; plus LLFree::new over three slices carved out of one arena: exact, one byte short, longer, "
                            "misaligned by 1..63, identical / partially overlapping / nested / adjacent layouts; TLC decides "
                            "validity from sizes and offsets (TraceSat!MetaValid) and demands Ok resp. the initialization error")
    return res


PLANS["C08"] = check_c08

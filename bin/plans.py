"""Per-property verification plans (what is generated, what decides)."""
import json, os, sys, time
import vlib
from vlib import Result, gen_and_validate, log

SEQ_PROPS = ["C02", "C04", "C06", "C07", "C08", "C09", "C10", "C11", "C13", "C14", "C15", "C05"]


def geos_for(tier):
    return ["th4", "th1"] if tier == "quick" else ["th4", "th1", "th2", "th8", "16k"]


def seq_jobs(tier, seed, scale=1.0):
    """random sequential histories: (geo, args)"""
    jobs = []
    if tier == "quick":
        n, runs, ln = int(10 * scale), 12, 70
    else:
        n, runs, ln = int(60 * scale), 20, 250
    for g in geos_for(tier):
        for i in range(max(1, n if g in ("th4", "th1") else n // 2)):
            jobs.append((g, ["seq", "seed=%d" % (seed * 1000 + i), "runs=%d" % runs, "len=%d" % ln]))
    return jobs


def check_seq(prop, tier, seed):
    """Properties decided by the ABSTRACT monitor on sequential histories."""
    res = Result(prop, tier, seed, "model_checking")
    vlib.build_all(geos_for(tier))
    jobs = seq_jobs(tier, seed)
    gen_and_validate(res, jobs, [prop])
    res.cov["rule"] = ("seeded random sequential histories (all orders, targeted gets, frees of held / partly held / "
                       "never allocated blocks, drains, tree changes, invalid arguments, rebuilds) over rotating frame "
                       "counts, classings and geometries %s; every call's result and post-call observation is "
                       "validated by TLC against spec/TraceAbs.tla with property %s selected; distinct = distinct "
                       "(geometry, call, result, tree words, slot words, counters) tuples" % (geos_for(tier), prop))
    return res



PLANS = {p: check_seq for p in ["C02", "C04", "C07", "C08", "C09", "C10", "C13", "C14", "C15"]}


def geo_consts(geo):
    ho = 11 if geo.startswith("16k") else 9
    th = {"th4": 4, "th1": 1, "th2": 2, "th8": 8, "16k": 4, "16k_th1": 1}[geo]
    return th, ho


def init_counts(geo, tier):
    th, ho = geo_consts(geo)
    hf = 1 << ho
    tf = th * hf
    top = 3 * tf + hf if tier == "quick" else 3 * tf + 2 * hf
    if geo.startswith("16k") or geo == "th8":
        top = 2 * tf + hf
    pts = set([0, 1, 2, 63, 64, 65])
    near = 3 if tier == "quick" else 65
    b = hf
    while b <= top:
        for d in range(-near, near + 1):
            pts.add(b + d)
        if tier == "quick":
            pts.update([b - 64, b - 65, b + 64, b + 65, b - 63, b + 63])
        b += hf
    step = 509 if tier == "quick" else 61
    pts.update(range(1, top, step))
    return sorted(p for p in pts if 0 <= p <= top)


def check_c06(prop, tier, seed):
    res = Result(prop, tier, seed, "model_checking")
    geos = ["th4", "th1"] if tier == "quick" else ["th4", "th1", "th2", "th8", "16k"]
    vlib.build_all(geos)
    jobs = []
    total = 0
    for g in geos:
        cs = init_counts(g, tier)
        total += len(cs)
        chunk = 6 if tier == "quick" else 8
        for i in range(0, len(cs), chunk):
            jobs.append((g, ["init", "counts=" + ",".join(map(str, cs[i:i + chunk]))]))
    gen_and_validate(res, jobs, [prop])
    res.cov["frame_counts"] = total
    res.cov["rule"] = ("for every frame count n in a sweep (dense near every huge-frame / tree boundary, geometries %s): "
                       "fresh FreeAll allocator must observe exactly Abs!InitFr(n), allocate base frames until OOM "
                       "(with drains) and end with no free frame and no frame >= n handed out; fresh AllocAll allocator "
                       "must observe InitFr('alloc'), accept one free per whole huge frame (huge order) and per other "
                       "frame (order 0), reject all of them a second time, and then equal a FreeAll allocator; "
                       "validated by TLC (TraceAbs: Reset, BulkGet, BulkPut, SeqDrain)" % geos)
    return res


def check_c11(prop, tier, seed):
    res = Result(prop, tier, seed, "model_checking")
    geos = ["th1", "th4"] if tier == "quick" else ["th1", "th4", "th2", "th8"]
    vlib.build_all(geos)
    n = 4 if tier == "quick" else 24
    jobs = [(g, ["c11", "seed=%d" % (seed * 100 + i), "runs=%d" % (6 if tier == "quick" else 12)])
            for g in geos for i in range(n)]
    gen_and_validate(res, jobs, [prop])
    res.cov["rule"] = ("single-slot histories over 2-4 trees: exhaust memory through slot 0 of class 0, free subsets "
                       "(1 frame, 2^k frames of the slot's own tree, random subsets; each batch through the slot or "
                       "without a slot), allocate again until OOM; TLC (TraceAbs!BulkGet, C11 predicate) demands that "
                       "OOM is reported only when no frame is free")
    return res


PLANS["C06"] = check_c06
PLANS["C11"] = check_c11


SCN = os.path.join(vlib.VERIF, "spec", "scenarios.json")


def conc_jobs(tier, seed, extra=()):
    """one harness job per (geometry, scenario): DFS with pre-emption bound + PCT schedules"""
    geos = ["th4", "th1", "th2"] if tier == "quick" else ["th4", "th1", "th2", "th8", "16k"]
    names = [s["name"] for s in json.load(open(SCN))]
    jobs = []
    for g in geos:
        for nm in names:
            a = ["conc", "scn=" + SCN, "name=" + nm, "seed=%d" % seed]
            if tier == "quick":
                a += ["bound=2", "limit=1500", "pct=100", "depth=3"]
            else:
                a += ["bound=3", "limit=40000", "pct=3000", "depth=4"]
            jobs.append((g, a + list(extra)))
    return geos, jobs


def check_conc(prop, tier, seed):
    """C01 / C03 (and the concurrent half of C04 / C13): every explored interleaving of the
    scenario catalogue on the real code must be linearizable w.r.t. Abs (TraceAbs: Call/Lin/Ret)."""
    res = Result(prop, tier, seed, "model_checking")
    geos, jobs = conc_jobs(tier, seed)
    vlib.build_all(geos)
    outs = gen_and_validate(res, jobs, [prop], par=vlib.NCPU)
    if prop in ("C04", "C13"):
        gen_and_validate(res, seq_jobs(tier, seed, 0.6), [prop])
    res.cov["schedules_validated"] = sum(o.get("segments", 0) for o in outs)
    res.cov["rule"] = ("scenario catalogue spec/scenarios.json (race windows L1-L8 of the lower allocator, U1-U8 of the "
                       "upper allocator) on geometries %s; the real code runs under a baton scheduler with one "
                       "scheduling point per atomic access: depth-first enumeration of all schedules with <= %s "
                       "pre-emptions plus seeded PCT schedules; every distinct observable execution (calls, results, "
                       "final observation) is validated by TLC against TraceAbs (linearizability w.r.t. Abs, no panic, "
                       "frees of held blocks succeed, quiescent accounting); distinct = distinct events incl. schedule"
                       % (geos, "2" if tier == "quick" else "3"))
    res.assumptions += ["sequentially consistent memory (the scheduler serialises the threads)",
                        "threads are deterministic functions of the values they read"]
    return res


for p in ("C01", "C03"):
    PLANS[p] = check_conc
_seq_c04 = PLANS["C04"]


def check_c04_c13(prop, tier, seed):
    return check_conc(prop, tier, seed)


PLANS["C04"] = check_c04_c13
PLANS["C13"] = check_c04_c13


def check_c05(prop, tier, seed):
    """Crash enumeration: a crash probe (snapshot of the lower metadata, Init::Recover over the copy,
    observation + free of every completed block) before every write to the persistent metadata."""
    res = Result(prop, tier, seed, "fault_enumeration")
    geos = ["th4", "th1", "th2"] if tier == "quick" else ["th4", "th1", "th2", "th8", "16k"]
    vlib.build_all(geos)
    jobs = []
    nseq = 4 if tier == "quick" else 40
    for g in geos:
        for i in range(nseq):
            jobs.append((g, ["crashseq", "seed=%d" % (seed * 100 + i), "runs=%d" % (25 if tier == "quick" else 60)]))
    names = [s["name"] for s in json.load(open(SCN)) if s["name"].startswith("L")]
    for g in geos:
        for nm in names:
            a = ["conc", "scn=" + SCN, "name=" + nm, "crash=1", "seed=%d" % seed]
            a += ["bound=1", "limit=150", "every=2"] if tier == "quick" else ["bound=2", "limit=3000", "every=1", "pct=300"]
            jobs.append((g, a))
    outs = gen_and_validate(res, jobs, [prop], par=vlib.NCPU)
    # recovery at quiescent points of random histories (Reinit action)
    gen_and_validate(res, seq_jobs(tier, seed, 0.4), [prop])
    res.cov["rule"] = ("crash points = every atomic write to the lower (persistent) metadata buffer plus the end of the "
                       "execution, of (a) seeded random single-thread programs over frame counts covering whole trees, "
                       "partial last trees and partial huge frames, (b) the concurrent lower-allocator scenarios L1-L8 "
                       "under enumerated schedules, (c) Init::Recover at quiescent points of random histories; at each "
                       "point the buffer is copied, a fresh allocator recovers from the copy, and TLC (TraceAbs!Crash) "
                       "checks: completed allocations still allocated and freeable with their order, free frames not "
                       "touched by an in-flight call still free, fast = exact counts, validate() passes; "
                       "distinct = distinct events (crash events differ by write index / recovered state)")
    res.cov["crash_points"] = res.cov["evaluations"]
    return res


def check_c21(prop, tier, seed):
    """Solo runs: at every scheduling point of base schedules, freeze the other threads and run each
    in-flight call alone; it must return (not panic) within SoloBound steps (TraceAbs!Solo)."""
    res = Result(prop, tier, seed, "model_checking")
    geos = ["th4", "th1", "th2"] if tier == "quick" else ["th4", "th1", "th2", "th8", "16k"]
    vlib.build_all(geos)
    names = [s["name"] for s in json.load(open(SCN))]
    jobs = []
    for g in geos:
        for nm in names:
            a = ["conc", "scn=" + SCN, "name=" + nm, "solo=1", "seed=%d" % seed]
            a += ["bound=1", "limit=200", "bases=200", "nbases=8"] if tier == "quick" else \
                 ["bound=2", "limit=4000", "bases=4000", "nbases=150"]
            jobs.append((g, a))
    gen_and_validate(res, jobs, [prop], par=vlib.NCPU)
    res.cov["rule"] = ("for base schedules (non-preemptive ones and a sample of the DFS schedules) of every scenario: at "
                       "every scheduling point p and for every thread t with a call in flight, the execution is re-run "
                       "with prefix p and then only t scheduled until its call returns; the number of t's steps and the "
                       "way the call ended are logged as a solo event and checked by TLC against TraceAbs!SoloBound; "
                       "distinct = distinct (scenario, point, thread, steps) tuples")
    return res


PLANS["C05"] = check_c05
PLANS["C21"] = check_c21

"""Per-property verification plans (what is generated, what decides)."""
import json, os, sys, time
import vlib
from vlib import Result, gen_and_validate, log

SEQ_PROPS = ["C02", "C04", "C06", "C07", "C08", "C09", "C10", "C11", "C13", "C14", "C15", "C05"]


def geos_for(tier):
    return ["th4", "th1"] if tier == "quick" else ["th4", "th1", "th2", "th8", "16k"]


def seq_jobs(tier, seed, scale=1.0):
    """random sequential histories: (geo, args)"""
    jobs = []
    if tier == "quick":
        n, runs, ln = int(10 * scale), 12, 70
    else:
        n, runs, ln = int(60 * scale), 20, 250
    for g in geos_for(tier):
        for i in range(max(1, n if g in ("th4", "th1") else n // 2)):
            jobs.append((g, ["seq", "seed=%d" % (seed * 1000 + i), "runs=%d" % runs, "len=%d" % ln]))
    return jobs


def check_seq(prop, tier, seed):
    """Properties decided by the ABSTRACT monitor on sequential histories."""
    res = Result(prop, tier, seed, "model_checking")
    vlib.build_all(geos_for(tier))
    jobs = seq_jobs(tier, seed)
    gen_and_validate(res, jobs, [prop])
    res.cov["rule"] = ("seeded random sequential histories (all orders, targeted gets, frees of held / partly held / "
                       "never allocated blocks, drains, tree changes, invalid arguments, rebuilds) over rotating frame "
                       "counts, classings and geometries %s; every call's result and post-call observation is "
                       "validated by TLC against spec/TraceAbs.tla with property %s selected; distinct = distinct "
                       "(geometry, call, result, tree words, slot words, counters) tuples" % (geos_for(tier), prop))
    return res



PLANS = {p: check_seq for p in ["C02", "C04", "C07", "C08", "C09", "C10", "C13", "C14", "C15"]}

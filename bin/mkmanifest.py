#!/usr/bin/env python3
"""Regenerates /verif/MANIFEST.json from the table below (one source of truth for the registered checks)."""
import json, os, subprocess
V = os.path.dirname(os.path.dirname(os.path.abspath(__file__)))

TB = ("TLC 1.8.0 evaluating spec/TraceAbs.tla + spec/Abs.tla; the harness' projection of the allocator "
      "(per-frame stats_at queries, tree/slot words, counters); sequential consistency")

CHECKS = {
 "C02": ("model_checking", "trace validation against TLA+ ownership model (TraceAbs/Abs), random sequential histories",
         "Every call of seeded random sequential histories on the real allocator is one TLC step of TraceAbs: the result must be admissible in the abstract ownership state (Abs!PutOk / BlockFree / Check) and the per-frame observation after the call must equal the abstract post-state exactly (so a failing call with a side effect is caught at that call).", "5 C02"),
 "C04": ("model_checking", "trace validation: Quiescent predicate of TraceAbs after every call / at the end of every interleaving",
         "After every sequential call the logged counters, per-frame / per-huge / per-tree queries, tree and slot words and validate() outcome must satisfy TraceAbs!Quiescent w.r.t. the abstract allocation state.", "5 C04"),
 "C06": ("model_checking", "TLC validation of init sweeps against Abs!InitFr/InitWhole",
         "For each frame count of a dense sweep the fresh allocator's full observation must equal the specification's initial state (a function of the frame count only); exhaustive allocation / freeing is validated as composed BulkGet/BulkPut steps.", "5 C06"),
 "C07": ("model_checking", "trace validation: twin allocator rebuilt with Init::None must give equal results and observations",
         "At random quiescent points a second allocator is built in assume-initialized mode over byte copies of the three metadata buffers; both are driven with the same continuation and TraceAbs demands equal results, frames, classes and observations at every step.", "5 C07"),
 "C08": ("model_checking", "trace validation: Abs!Check is the exact enabling condition of the invalid-argument result",
         "Every get/put of the histories (which include out-of-range orders, misaligned and out-of-range frames, unconfigured classes) must return the argument error iff Abs!Check fails, and the observation must be unchanged.", "5 C08"),
 "C09": ("model_checking", "trace validation: no action of TraceAbs accepts a panic (sequential histories, all configurations)",
         "A panic of the code under test is caught per call and logged as the call's result; TraceAbs has no step that accepts it. Construction and rebuild (recover / none) panics are data as well.", "5 C09"),
 "C10": ("model_checking", "trace validation: DrainedOomOk / DrainedGetAtMust after drain events",
         "Histories insert a base-order or targeted allocation right after drains; TraceAbs rejects an out-of-memory result unless the abstract state justifies it.", "5 C10"),
 "C11": ("model_checking", "trace validation of single-slot exhaust/free/allocate histories (TraceAbs!BulkGet, C11 predicate)",
         "Single-slot histories over 2-4 trees; the monitor itself tracks the property's precondition (c11ok) and rejects OOM while a frame is free.", "5 C11"),
 "C13": ("model_checking", "trace validation: ClassAdmissible on every successful allocation",
         "The reported class of every successful allocation must be the requested one or one the specification's copy of the policy rates match/steal.", "5 C13"),
 "C14": ("model_checking", "trace validation: PerClass predicate after every call",
         "Per-class free+alloc must sum to trees*TREE_FRAMES and per-class free must sum to the fast count, after every call.", "5 C14"),
 "C15": ("model_checking", "trace validation: SeqChange action (tree words before/after) + FullyOffline guard on allocations",
         "Tree changes must apply to exactly one matching unreserved tree or change nothing; offline trees' frames leave the fast accounting (hidden) and no allocation may come from a fully offline tree.", "5 C15"),
 "C01": ("model_checking", "linearizability check of enumerated interleavings of the real code against TLA+ ownership model (TraceAbs Call/Lin/Ret)",
         "The real code runs the scenario catalogue under a baton scheduler with a scheduling point at every atomic access; all schedules with <=2 (quick) / <=3 (thorough) pre-emptions plus PCT schedules are executed and every distinct observable execution is validated by TLC: each successful allocation must take effect at some instant between call and return at which its block is aligned, in range and entirely free in the abstract state.", "5 C01"),
 "C03": ("model_checking", "trace validation of enumerated interleavings: no panic result is admissible, frees of held blocks must return Ok",
         "Same executions as C01, each followed by the callers' wind-down (every block still held is freed, then a drain; sequential sc events); panics are caught per call and logged as results, TraceAbs!Call / SeqPanic / SeqPut reject them and any failing free of a held block. Plus the FINE model (NoPanic, PutsOk) on catalogue and synthesised scenarios.", "5 C03, 0.3"),
 "C05": ("fault_enumeration", "crash-point enumeration on the real code, recovered state checked by TLC against TraceAbs!Crash",
         "Before every write to the persistent metadata (and at the end) of random single-thread programs and enumerated concurrent schedules the lower buffer is snapshotted, recovered with Init::Recover into a fresh allocator and observed; TLC evaluates the crash-consistency predicate against its own history variables (held blocks, in-flight calls, abstract free set).", "5 C05"),
 "C21": ("model_checking", "solo-run enumeration on the real code, step counts validated by TLC against TraceAbs!SoloBound; plus TLC on the FINE model with a Freeze step (every reachable state x every in-flight thread)",
         "At every scheduling point of base schedules every in-flight call is run alone (other threads frozen) until it returns; it must return normally within SoloBound(geometry) own steps. In addition TLC explores the FINE model LLFree.tla extended by a Freeze step (bin/freeze.py): from every reachable state of every interleaving of the scenario catalogue a thread run alone ends its call within a bound and without a panic; model counterexamples are replayed on the code.", "5 C21, 0.4"),
 "C12": ("model_checking", "trace validation of the compiled lower allocator against Abs (TraceSat!LGet/LPut)",
         "Lower::get(row hint, order) is called directly on structured and random allocation patterns; TLC rejects a failure while Abs!ExistsFreeBlock holds for the hinted tree and any success that is not exactly one aligned free block of that tree.", "5 C12"),
 "C16": ("model_checking", "exhaustive insertion sequences into the compiled SortedBuffer + random tree searches, validated by TLC against SortedBuf.tla",
         "All insertion sequences up to a bound for all capacities 1..8 are run on the compiled SortedBuffer and Trees::search_best; TLC checks that the fallback candidates tried are the N best rated, best first (SortedBuf!IterOk / TreeSearchOk).", "5 C16"),
 "C17": ("model_checking", "trace validation of ZoneAlloc / NvmAlloc driven through the Alloc trait (TraceAbs + NvmCreate/NvmRefuse/Reinit)",
         "The wrappers are driven with shifted frame numbers; TLC validates them with the ordinary ownership and accounting predicates plus the layout, refusal and recovery actions.", "5 C17"),
 "C19": ("model_checking", "enumeration of class configurations on the compiled ClassingConfig, requests validated by TLC against Classes!ValidRequest",
         "Every generated request must name a configured class and no slot or a slot below that class's count, and must be usable on a real allocator.", "5 C19"),
 "C20": ("model_checking", "TLC-enumerated traces (Replay.tla) replayed by the compiled binary; its output validated by TLC against Replay!Expected",
         "Every trace up to a length bound over an alphabet with whole / partial (first, middle, last) / unknown frees and re-allocations is written as a binary trace file and run through eval/src/bin/replay.rs.", "5 C20"),
 "C23": ("model_checking", "compiled row search on structured + random rows validated by TLC against RowSearch!SearchOk",
         "The compiled first_zeros_aligned is called on structured rows for every order 0..6; TLC checks the reported offset is the lowest aligned free block and the returned row sets exactly its bits. (The symbolic all-2^64-rows leg with Apalache is recorded in the evidence when wired.)", "5 C23"),
}

NA = [
 {"property_id": "C18", "reason": "memory safety / UB is a fact about the compiled program's memory model (ASan, Miri), not about an abstract state machine; a TLA+ specification cannot observe it (DESIGN.md section 8)"},
 {"property_id": "C22", "reason": "the C implementation is not in the tree (llc/ is an empty submodule, eval/src/llc.rs cannot be built): there is no second implementation to bind a specification to (DESIGN.md section 8)"},
]
PENDING = ["C01", "C03", "C05", "C12", "C16", "C17", "C19", "C20", "C21", "C23"]


def main():
    hooks_commits = subprocess.run(["git", "-C", "/repo", "log", "--format=%h", "--grep=^verif:"], capture_output=True, text=True).stdout.split()
    checks = []
    for p, (lvl, tech, text, ref) in sorted(CHECKS.items()):
        checks.append({
            "property_id": p,
            "quick_cmd": "bin/check %s --tier quick" % p,
            "thorough_cmd": "bin/check %s --tier thorough" % p,
            "evidence_file": "/verif/evidence/%s.json" % p,
            "replay_cmd_template": "bin/check %s --replay {path}" % p,
            "engine": "tlc-trace",
            "level_claimed": {"category": lvl, "text": text, "design_ref": "DESIGN.md section " + ref},
            "level_note": TB,
            "technique": tech,
        })
    na = list(NA)
    for p in PENDING:
        if p not in CHECKS:
            na.append({"property_id": p, "reason": "check not registered yet (work in progress, see DESIGN.md section 5 for the plan)"})
    m = {
        "version": 1,
        "setup_cmd": "bin/setup",
        "hooks": {
            "guard": "cargo feature `verif` of crate llfree (core/Cargo.toml)",
            "enable": "harness/Cargo.toml depends on llfree with features [\"std\", \"verif\"]; bin/check builds it with cargo build --offline",
            "baseline_off_cmd": "cd /repo && cargo test --workspace --no-fail-fast --offline",
            "source_commits": hooks_commits,
            "add_only": True,
        },
        "engines": [
            {"name": "tlc-trace", "path": "spec/TraceAbs.tla, spec/TraceSat.tla", "serves_properties": sorted(CHECKS),
             "kind_free_text": "TLC validates ndjson traces recorded from the real allocator by harness/ against the abstract TLA+ model (Abs.tla) and the satellite specs"},
            {"name": "tlc-fine", "path": "spec/LLFree.tla, spec/FineDefs.tla, bin/mkmc.py, bin/fineconf.py", "serves_properties": ["C01", "C03", "C04", "C05", "C13"],
             "kind_free_text": "PlusCal model with one label per atomic access at the real geometry: exhaustive TLC over the scenario catalogue, step conformance of the real code's access sequences (TFgen_* trace specs), replay of model counterexamples on the real code"},
            {"name": "tlc-gen", "path": "spec/Gen.tla, spec/Replay.tla", "serves_properties": ["C02", "C04", "C07", "C08", "C09", "C10", "C13", "C14", "C15", "C20"],
             "kind_free_text": "spec -> implementation: TLC enumerates every operation sequence of a bounded symbolic alphabet; the harness executes them on the real code"},
            {"name": "apalache-rowsearch", "path": "spec/sym/*.tla.in, bin/symbolic.py", "serves_properties": ["C23"],
             "kind_free_text": "Apalache checks the transcription of each arm of first_zeros_aligned for all 2^64 rows (thorough tier)"},
        ],
        "checks": checks,
        "not_applicable": na,
        "notes": "see DESIGN.md; known findings in known_findings.json",
    }
    json.dump(m, open(os.path.join(V, "MANIFEST.json"), "w"), indent=1)
    print("wrote MANIFEST.json with", len(checks), "checks")


main()

#!/usr/bin/env python3
"""fineconf.py <geo> <scenario,...|all> [bound] [limit]: step conformance of the real code's access sequences
against the FINE model, per scenario"""
import json, os, re, sys, time
sys.path.insert(0, os.path.dirname(os.path.abspath(__file__)))
import vlib, mkmc


def conform(geo, name, bound=2, limit=400, pct=0, scnfile=None):
    """-> dict(status: conforms|drift|n/a, sequences, states, detail)"""
    mod = mkmc.make(name, geo, scnfile=scnfile)
    if not mod:
        return {"status": "n/a"}
    ops = os.path.join(vlib.WORK, "ops-%s-%s-%d.ndjson" % (mkmc.modname(name), geo, os.getpid()))
    out = os.path.join(vlib.WORK, "ops-%s-%s-%d.out" % (mkmc.modname(name), geo, os.getpid()))
    vlib.harness(geo, ["conc", "scn=" + (scnfile or os.path.join(vlib.SPEC, "scenarios.json")), "name=" + name, "bound=%d" % bound,
                       "limit=%d" % limit, "pct=%d" % pct, "out=" + out, "opsout=" + ops])
    if not os.path.exists(ops):
        return {"status": "n/a"}
    n = sum(1 for ln in open(ops) if ln.strip())
    tf = mod.replace("MCgen_", "TFgen_")
    rc, o, dt = vlib.tlc(tf, env={"TRACE": ops}, workers=1, xmx="4g", timeout=1800)
    os.unlink(out)
    g, d = vlib.tlc_stats(o)
    if '"CONFORMS"' in o and rc == 0:
        os.unlink(ops)
        return {"status": "conforms", "sequences": n, "states": d, "s": dt}
    m = re.search(r'<<"DRIFT", (\d+), (\d+), (\d+), "(.*)">>', o)
    if m:
        return {"status": "drift", "sequences": n, "bad": int(m.group(1)), "trace": int(m.group(2)), "at": int(m.group(3)),
                "event": m.group(4).replace('\\"', '"'), "ops": ops, "states": d}
    return {"status": "error", "detail": o[-1500:]}


if __name__ == "__main__":
    geo, names = sys.argv[1], sys.argv[2]
    bound = int(sys.argv[3]) if len(sys.argv) > 3 else 2
    limit = int(sys.argv[4]) if len(sys.argv) > 4 else 400
    for s in json.load(open(os.path.join(vlib.SPEC, "scenarios.json"))):
        if names != "all" and s["name"] not in names.split(","):
            continue
        if False:
            print(s["name"], "skipped (tree changes are not in the FINE model)")
            continue
        print(s["name"], conform(geo, s["name"], bound, limit), flush=True)

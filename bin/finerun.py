#!/usr/bin/env python3
"""finerun.py <geo> <scenario,...|all> [workers]: model-check the FINE model for scenarios, print a table"""
import json, os, re, sys, time
sys.path.insert(0, os.path.dirname(os.path.abspath(__file__)))
import vlib, mkmc
geo = sys.argv[1]
names = sys.argv[2]
workers = int(sys.argv[3]) if len(sys.argv) > 3 else 8
scn = json.load(open(os.path.join(vlib.SPEC, "scenarios.json")))
for s in scn:
    if names != "all" and s["name"] not in names.split(","):
        continue
    mod = mkmc.make(s["name"], geo)
    if not mod:
        print(s["name"], "n/a for", geo)
        continue
    rc, out, dt = vlib.tlc(mod, workers=workers, xmx="12g", timeout=3000)
    g, d = vlib.tlc_stats(out)
    m = re.search(r"depth of the complete state graph search is (\d+)", out)
    err = re.search(r"Invariant (\w+) is violated", out)
    print("%-5s rc=%d states=%d distinct=%d depth=%s %.0fs %s" % (s["name"], rc, g, d, m.group(1) if m else "?", dt,
          ("VIOLATED " + err.group(1)) if err else ("ok" if "No error has been found" in out else "ERROR")))
    if rc != 0 and not err:
        print(out[-1500:])

------------------------------ MODULE FineDefs ------------------------------
(***************************************************************************)
(* Pure definitions of the FINE (atomic-step) model LLFree.tla: geometry,  *)
(* memory locations and word formats, the update functions passed to       *)
(* try_update / update, the policies and the bounded candidate buffer.     *)
(*                                                                         *)
(* Memory is ONE function `mem` from locations to values, at the REAL      *)
(* geometry (64-bit rows as sets of set bit positions, 8 rows = 512 frames *)
(* per huge frame):                                                        *)
(*   <<"row", h, r>>   subset of 0..63      row r of bitfield h            *)
(*   <<"entry", h>>    0..512 or HUGE       huge entry (tables cover       *)
(*                                          NT*TH entries, bitfields NHUGE)*)
(*   <<"tree", t>>     [free, res, class]   tree word                      *)
(*   <<"slot", c, k>>  [present, row, free] local reservation              *)
(***************************************************************************)
EXTENDS Integers, Sequences, FiniteSets, TLC

CONSTANTS
  TH,        \* huge frames per tree
  NT,        \* number of trees
  NHUGE,     \* number of bitfields (huge frames that exist, last may be partial)
  FRAMES,    \* managed frames
  CLS,       \* classing name (as in Abs.tla)
  K          \* slots per class

HO == 9
ROWS == 8
HF == 512
TF == TH * HF
TO == HO + (CASE TH = 1 -> 0 [] TH = 2 -> 1 [] TH = 4 -> 2 [] TH = 8 -> 3)
HUGE == -1
LEN == HF

P2(n) == 2^n
AlignDown(v, a) == (v \div a) * a
NextPow2(n) == CHOOSE p \in {1, 2, 4, 8, 16, 32, 64, 128, 256, 512, 1024} : p >= n /\ (p = 1 \/ p \div 2 < n)
MinI(a, b) == IF a < b THEN a ELSE b
MaxI(a, b) == IF a > b THEN a ELSE b

Row(h, r) == <<"row", h, r>>
Entry(h) == <<"entry", h>>
Tree(t) == <<"tree", t>>
Slot(c, k) == <<"slot", c, k>>

\* frame / row / huge / tree arithmetic (rows are numbered globally: frame \div 64)
RowOfFrame(f) == f \div 64
HugeOfFrame(f) == f \div HF
TreeOfFrame(f) == f \div TF
HugeOfRow(r) == (r * 64) \div HF
TreeOfRow(r) == (r * 64) \div TF
RowIdx(r) == r % ROWS            \* row index inside its bitfield

None == <<>>
Some(v) == <<v>>
IsSome(x) == x # <<>>
Val(x) == x[1]

----------------------------------------------------------------------------
\* Classing / policy (same tables as Abs.tla, plus match priorities)

Cfg == [frames |-> FRAMES, th |-> TH, ho |-> HO, cls |-> CLS, k |-> K]
ClassSlots ==
  CASE CLS = "simple"   -> (0 :> K @@ 1 :> K)
    [] CLS = "movable"  -> (0 :> K @@ 1 :> K @@ 2 :> K)
    [] CLS = "zeroed"   -> (0 :> K @@ 1 :> K @@ 2 :> K)
    [] CLS = "zeroslot" -> (0 :> K @@ 1 :> 0)
    [] CLS = "zeroslot0" -> (0 :> 0 @@ 1 :> K)
    [] CLS = "custom"   -> (0 :> K @@ 1 :> K @@ 2 :> K)
    [] CLS = "single"   -> (0 :> K)
    [] CLS = "uneven"   -> (0 :> K + 1 @@ 1 :> K)
Classes == DOMAIN ClassSlots
Configured(c) == c \in Classes
NSlots(c) == IF c \in Classes THEN ClassSlots[c] ELSE 0
DefaultClass ==
  CASE CLS = "simple" -> 1 [] CLS = "movable" -> 2 [] CLS = "zeroed" -> 1
    [] CLS = "zeroslot" -> 1 [] CLS = "zeroslot0" -> 1 [] CLS = "custom" -> 1 [] CLS = "single" -> 0 [] CLS = "uneven" -> 1

\* Policy(requested, target, free) as [kind, prio]
Policy(req, tgt, free) ==
  IF CLS = "custom" /\ ((req = 0 /\ tgt = 2) \/ (req = 2 /\ tgt = 0)) THEN [kind |-> "invalid", prio |-> 0]
  ELSE IF CLS # "single" /\ req > tgt THEN [kind |-> "steal", prio |-> 0]
  ELSE IF CLS # "single" /\ req < tgt THEN [kind |-> "demote", prio |-> 0]
  ELSE [kind |-> "match",
        prio |-> IF free >= TF \div 2 THEN 1
                 ELSE IF free >= TF \div 64 THEN 255
                 ELSE IF CLS = "movable" THEN 2 ELSE 0]
Invalid == [kind |-> "invalid", prio |-> 0]
Perfect == [kind |-> "match", prio |-> 255]
\* derived order of (Policy, bool): Match(p) < Demote < Steal; then `tree entirely free`
Rank(p, full) ==
  2 * (CASE p.kind = "match" -> p.prio [] p.kind = "demote" -> 256 [] p.kind = "steal" -> 257 [] OTHER -> 258)
  + (IF full THEN 1 ELSE 0)

----------------------------------------------------------------------------
\* Row search (the specification of first_zeros_aligned, see RowSearch.tla / C23)

Block(b, k) == b .. (b + P2(k) - 1)
FreeStarts(S, k) == {b \in 0 .. 63 : b % P2(k) = 0 /\ Block(b, k) \cap S = {}}
LowestFree(S, k) == CHOOSE b \in FreeStarts(S, k) : \A c \in FreeStarts(S, k) : b <= c
AllBits == 0 .. 63

----------------------------------------------------------------------------
\* Update functions: F(fn, arg, v) = Some(new value) or None  (closures of try_update)

TreeW(f, r, c) == [free |-> f, res |-> r, class |-> c]
SlotNone == [present |-> FALSE, row |-> 0, free |-> 0]
SlotW(row, free) == [present |-> TRUE, row |-> row, free |-> free]

\* Tree::put (also used by unreserve_add): may panic (assert) -> "panic" marker
TreePut(e, n) ==
  LET fr == e.free + n
      cl == IF fr = TF /\ ~e.res /\ Policy(e.class, DefaultClass, fr).kind # "invalid" THEN DefaultClass ELSE e.class
  IN [free |-> fr, res |-> e.res, class |-> cl]

F(fn, arg, v) ==
  CASE fn = "edec" -> IF v # HUGE /\ v >= arg THEN Some(v - arg) ELSE None
    [] fn = "einc" -> IF v # HUGE /\ v <= LEN - arg THEN Some(v + arg) ELSE None
    [] fn = "fza"  -> IF FreeStarts(v, arg) # {} THEN Some(v \cup Block(LowestFree(v, arg), arg)) ELSE None
    [] fn = "tog"  -> \* arg = [mask, expected]
         IF arg.expected THEN (IF arg.mask \subseteq v THEN Some(v \ arg.mask) ELSE None)
         ELSE (IF arg.mask \cap v = {} THEN Some(v \cup arg.mask) ELSE None)
    \* ---- tree words
    [] fn = "sync" -> IF v.res /\ v.free >= arg THEN Some([v EXCEPT !.free = 0]) ELSE None
    [] fn = "steal" -> \* arg = [class, n]
         IF v.free >= arg.n /\ ~v.res
         THEN LET p == Policy(arg.class, v.class, arg.n)
              IN CASE p.kind = "match" -> Some(TreeW(v.free - arg.n, v.res, arg.class))
                   [] p.kind = "demote" -> Some(TreeW(v.free - arg.n, v.res, arg.class))
                   [] p.kind = "steal" -> Some(TreeW(v.free - arg.n, v.res, v.class))
                   [] OTHER -> None
         ELSE None
    [] fn = "ros" -> \* reserve_or_steal, arg = [class, n]
         IF v.free >= arg.n /\ ~v.res
         THEN LET p == Policy(arg.class, v.class, arg.n)
              IN CASE p.kind \in {"match", "demote"} -> Some(TreeW(0, TRUE, arg.class))
                   [] p.kind = "steal" -> Some(TreeW(v.free - arg.n, v.res, v.class))
                   [] OTHER -> None
         ELSE None
    [] fn = "tput" -> Some(TreePut(v, arg))
    [] fn = "unres" -> \* arg = [free, class]; Steal / Invalid panic (checked by the caller)
         IF v.res
         THEN LET p == Policy(arg.class, v.class, arg.free)
                  c == IF p.kind = "match" THEN v.class ELSE arg.class
              IN Some(TreePut(TreeW(v.free, FALSE, c), arg.free))
         ELSE None
    [] fn = "chg" -> \* arg = [mclass, mfree, cclass, cop, fetched]
         IF ~v.res /\ (arg.mclass = -1 \/ arg.mclass = v.class) /\ v.free >= arg.mfree
         THEN LET c == IF arg.cclass = -1 THEN v.class ELSE arg.cclass
              IN CASE arg.cop = 2 -> Some(TreeW(0, FALSE, c))
                   [] arg.cop = 1 -> IF v.free = 0 THEN Some(TreeW(arg.fetched, FALSE, c)) ELSE None
                   [] OTHER -> Some(TreeW(v.free, FALSE, c))
         ELSE None
    \* ---- slot words
    [] fn = "sget" -> \* arg = [tree, n]
         IF v.present /\ (arg.tree = -1 \/ TreeOfRow(v.row) = arg.tree) /\ v.free >= arg.n
         THEN Some([v EXCEPT !.free = @ - arg.n]) ELSE None
    [] fn = "sput" -> \* arg = [tree, n]
         IF v.present /\ TreeOfRow(v.row) = arg.tree THEN Some([v EXCEPT !.free = @ + arg.n]) ELSE None
    [] fn = "sstart" -> \* arg = row
         IF v.present /\ TreeOfRow(v.row) = TreeOfRow(arg) /\ v.row # arg THEN Some([v EXCEPT !.row = arg]) ELSE None
    [] fn = "sdemote" -> \* arg = [tree, n]
         IF v.present /\ (arg.tree = -1 \/ TreeOfRow(v.row) = arg.tree) /\ v.free >= arg.n
         THEN Some(SlotNone) ELSE None

\* does the closure panic on this value?  (asserts inside the update functions)
FPanics(fn, arg, v) ==
  CASE fn = "tput" -> v.free + arg > TF
    [] fn = "unres" -> v.res /\ (Policy(arg.class, v.class, arg.free).kind \in {"steal", "invalid"} \/ v.free + arg.free > TF)
    [] fn = "sput" -> v.present /\ TreeOfRow(v.row) = arg.tree /\ v.free + arg.n > TF
    [] OTHER -> FALSE

----------------------------------------------------------------------------
\* SortedBuffer<N>: sequence of <<rank, tree>> sorted ascending by rank
SBAdd(buf, n, x) ==
  LET len == Len(buf)
      ge == {i \in 1 .. len : x[1] <= buf[i][1]}
      pos == IF ge = {} THEN len + 1 ELSE CHOOSE i \in ge : \A j \in ge : i <= j
  IN IF len < n
     THEN [i \in 1 .. len + 1 |-> IF i < pos THEN buf[i] ELSE IF i = pos THEN x ELSE buf[i - 1]]
     ELSE IF pos > 1
          THEN [i \in 1 .. len |-> IF i < pos - 1 THEN buf[i + 1] ELSE IF i = pos - 1 THEN x ELSE buf[i]]
          ELSE buf

\* visiting order of search_best / search: i-th index around start
SearchIdx(start, i) ==
  LET off == IF i % 2 = 0 THEN i \div 2 ELSE -((i + 1) \div 2)
  IN (start + NT + off) % NT
\* (start + len + off) can be negative only if off < -(start+len); i < len keeps it non-negative, but the
\* near search may run past the tree count: the implementation computes in isize and takes % len of a
\* non-negative number as long as i <= 2*(start+NT); all our scenarios satisfy this.

=============================================================================

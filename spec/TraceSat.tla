------------------------------ MODULE TraceSat ------------------------------
(***************************************************************************)
(* Trace validation for the stateless / lower-level satellites:            *)
(*   "row"  C23  compiled first_zeros_aligned vs RowSearch!SearchOk        *)
(*   "sb"   C16  compiled SortedBuffer vs SortedBuf!IterOk                 *)
(*   "ts"   C16  Trees::search_best vs SortedBuf!TreeSearchOk              *)
(*   "lreset" / "lget" / "lput"  C12  Lower::get / put vs Abs              *)
(***************************************************************************)
EXTENDS Abs, Json, IOUtils, SequencesExt

RS == INSTANCE RowSearch
SB == INSTANCE SortedBuf
CL == INSTANCE Classes
RP == INSTANCE Replay WITH Letters <- {}, Depth <- 0, hist <- <<>>

Rec == ndJsonDeserialize(IOEnv.TRACE)
NRec == Len(Rec)

VARIABLES l, props, cfg, fr, whole
vars == <<l, props, cfg, fr, whole>>

Chk(p, name, P) ==
  IF p \notin props THEN TRUE
  ELSE IF P THEN TRUE
  ELSE PrintT(<<"FAIL", p, name, l>>) /\ FALSE

e == Rec[l]
IsEv(k) == l <= NRec /\ e.ev = k
SeqSet(s) == {s[i] : i \in DOMAIN s}

RECURSIVE RangesToSet(_)
RangesToSet(rs) == IF rs = <<>> THEN {} ELSE (rs[1][1] .. rs[1][2]) \cup RangesToSet(Tail(rs))
ObsFr(o, prev, h) ==
  LET hits == SelectSeq(o.chg, LAMBDA p : p[1] = h)
  IN IF hits = <<>> THEN prev[h] ELSE RangesToSet(hits[1][2])

NoCfg == [frames |-> 0, th |-> 1, ho |-> 9, cls |-> "single", k |-> 1]

Init ==
  /\ TLCSet(1, 1)
  /\ l = 1 /\ props = {} /\ cfg = NoCfg /\ fr = <<>> /\ whole = <<>>

Hdr ==
  /\ IsEv("hdr")
  /\ props' = SeqSet(e.props)
  /\ l' = l + 1
  /\ UNCHANGED <<cfg, fr, whole>>

Row ==
  /\ IsEv("row")
  /\ Chk("C23", "no-panic", e.off # -2)
  /\ Chk("C23", "lowest-aligned-free-block", RS!SearchOk(SeqSet(e.s), e.k, e.off, SeqSet(e.n)))
  /\ l' = l + 1
  /\ UNCHANGED <<props, cfg, fr, whole>>

SortBuf ==
  /\ IsEv("sb")
  /\ Chk("C16", "keeps-best-rated-best-first", SB!IterOk(e.out, e.ins, e.n))
  /\ l' = l + 1
  /\ UNCHANGED <<props, cfg, fr, whole>>

TreeSearch ==
  /\ IsEv("ts")
  /\ Chk("C16", "search-tries-best-candidates-best-first",
         SB!TreeSearchOk(e.n, e.ranks, e.rated, e.accessed, e.perfect))
  /\ l' = l + 1
  /\ UNCHANGED <<props, cfg, fr, whole>>

\* ---- C19: one event = the requests generated for one (configuration, core count):
\* reqs[i] = <<core, pid, order, gfp, class, local, used>>; used: 1 allocation ok, 0 failed, -1 panic
ClsCfg ==
  /\ IsEv("clscfg")
  /\ Chk("C19", "configuration-accepted", FALSE)
  /\ l' = l + 1
  /\ UNCHANGED <<props, cfg, fr, whole>>
Cls ==
  /\ IsEv("cls")
  /\ Chk("C19", "classing-built", e.panic = "")
  /\ Chk("C19", "request-generated", \A i \in DOMAIN e.reqs : e.reqs[i][5] # -1 \/ e.reqs[i][7] # -1)
  /\ Chk("C19", "valid-class-and-slot",
         \A i \in DOMAIN e.reqs : CL!ValidRequest(e.classes, e.reqs[i][5], e.reqs[i][6]))
  /\ Chk("C19", "request-usable", \A i \in DOMAIN e.reqs : e.reqs[i][7] # -1)
  /\ l' = l + 1
  /\ UNCHANGED <<props, cfg, fr, whole>>

\* ---- C20: what the compiled replay binary reported for a trace
ReplayEv ==
  /\ IsEv("replay")
  /\ LET exp == RP!Expected(e.seq) IN
       /\ Chk("C20", "replay-completed", e.rc = 0)
       /\ Chk("C20", "every-traced-free-succeeds", e.failed = 0)
       /\ Chk("C20", "final-free-count", e.free = e.total - exp.held)
  /\ l' = l + 1
  /\ UNCHANGED <<props, cfg, fr, whole>>

\* ---- C08: metadata buffers handed to LLFree::new: req / off / len = <<local, trees, lower>> (bytes, offsets
\* relative to a 64-byte aligned arena).  Construction must succeed exactly for large enough, 64-byte aligned,
\* pairwise disjoint buffers and fail with the initialization error otherwise.
Disjoint(o1, l1, o2, l2) == o1 + l1 <= o2 \/ o2 + l2 <= o1
MetaValid(ev) ==
  /\ \A i \in 1 .. 3 : ev.len[i] >= ev.req[i] /\ ev.off[i] % 64 = 0
  /\ \A i \in 1 .. 3 : \A j \in 1 .. 3 : i < j => Disjoint(ev.off[i], ev.len[i], ev.off[j], ev.len[j])
Meta ==
  /\ IsEv("meta")
  /\ Chk("C08", "no-panic", e.res # "panic")
  /\ Chk("C08", "valid-metadata-accepted", MetaValid(e) => e.res = "ok")
  /\ Chk("C08", "invalid-metadata-rejected-with-initialization-error", ~MetaValid(e) => e.res = "init")
  /\ l' = l + 1
  /\ UNCHANGED <<props, cfg, fr, whole>>

\* ---- C12: the lower allocator alone ------------------------------------
LObs(p, prevf, f, o) ==
  /\ Chk(p, "frame-status", \A h \in Huges(cfg') : ObsFr(o, prevf, h) = f[h])
  /\ Chk(p, "huge-counters", \A h \in Huges(cfg') : o.huge[h + 1] = Cardinality(f[h]))

LReset ==
  /\ IsEv("lreset")
  /\ cfg' = [frames |-> e.frames, th |-> e.th, ho |-> e.ho, cls |-> "single", k |-> 1]
  /\ fr' = InitFr(cfg', e.init)
  /\ whole' = InitWhole(cfg', e.init)
  /\ LObs("C12", fr', fr', e.obs)
  /\ l' = l + 1
  /\ UNCHANGED props

LPut ==
  /\ IsEv("lput")
  /\ cfg' = cfg
  /\ Chk("C12", "no-panic", e.res # "panic")
  /\ Chk("C12", "free-follows-ownership", (e.res = "ok") = PutOk(cfg, fr, whole, e.frame, e.order))
  /\ fr' = IF e.res = "ok" THEN ReleaseFr(cfg, fr, e.frame, e.order) ELSE fr
  /\ whole' = IF e.res = "ok" THEN ReleaseWhole(cfg, whole, e.frame, e.order) ELSE whole
  /\ LObs("C12", fr, fr', e.obs)
  /\ l' = l + 1
  /\ UNCHANGED props

\* directed allocation in the tree of row hint e.row (or exactly e.target)
LGet ==
  /\ IsEv("lget")
  /\ cfg' = cfg
  /\ Chk("C12", "no-panic", e.res # "panic")
  /\ LET t == (e.row * 64) \div TF(cfg) IN
     IF e.res = "ok"
     THEN /\ Chk("C12", "block-in-tree-aligned-free",
                 /\ e.frame % Pow2(e.order) = 0
                 /\ e.frame + Pow2(e.order) <= cfg.frames
                 /\ e.target # -1 \/ TreeOf(cfg, e.frame) = t
                 /\ e.target = -1 \/ e.frame = e.target
                 /\ BlockFree(cfg, fr, e.frame, e.order))
          /\ fr' = TakeFr(cfg, fr, e.frame, e.order)
          /\ whole' = TakeWhole(cfg, whole, e.frame, e.order)
     ELSE /\ Chk("C12", "fails-only-if-no-aligned-free-block",
                 IF e.target = -1 THEN ~ExistsFreeBlock(cfg, fr, t, e.order)
                 ELSE ~BlockFree(cfg, fr, e.target, e.order))
          /\ fr' = fr /\ whole' = whole
  /\ LObs("C12", fr, fr', e.obs)
  /\ l' = l + 1
  /\ UNCHANGED props

Next == Hdr \/ Row \/ SortBuf \/ TreeSearch \/ ClsCfg \/ Cls \/ ReplayEv \/ Meta \/ LReset \/ LPut \/ LGet
Spec == Init /\ [][Next]_vars

Progress == IF l > TLCGet(1) THEN TLCSet(1, l) ELSE TRUE
Accepted ==
  IF TLCGet(1) = NRec + 1 THEN PrintT(<<"ACCEPTED", NRec>>)
  ELSE PrintT(<<"REJECTED", TLCGet(1), IF TLCGet(1) <= NRec THEN Rec[TLCGet(1)].ev ELSE "eof">>) /\ FALSE
=============================================================================

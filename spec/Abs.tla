------------------------------- MODULE Abs -------------------------------
(***************************************************************************)
(* ABSTRACT model of llfree: which frames are allocated, what the counters *)
(* mean, what a call may return.  All operators are pure functions of an   *)
(* explicit configuration record `c` and state components, so that the     *)
(* same definitions serve                                                  *)
(*   - TraceAbs.tla : validation of executions recorded from the real code *)
(*   - AbsMC.tla    : exhaustive exploration of the abstract machine and   *)
(*                    generation of operation sequences for the real code  *)
(*   - LLFree.tla   : refinement target of the atomic-step model           *)
(*                                                                         *)
(* Configuration record c:                                                 *)
(*   frames  managed frame count          th  huge frames per tree         *)
(*   ho      huge order (9, or 11 = 16K)  cls classing name   k slots/class*)
(* State:                                                                  *)
(*   fr[h]      set of FREE frame offsets of huge frame h                  *)
(*   whole[h]   huge frame h is allocated as one huge block                *)
(*   hidden[t]  free frames of tree t taken out of the fast accounting by  *)
(*              an offline change                                          *)
(***************************************************************************)
EXTENDS Integers, Sequences, FiniteSets, TLC

Pow2(n) == 2^n
Log2(n) == CASE n = 1 -> 0 [] n = 2 -> 1 [] n = 4 -> 2 [] n = 8 -> 3
             [] n = 16 -> 4 [] n = 32 -> 5 [] n = 64 -> 6
MinI(a, b) == IF a < b THEN a ELSE b
MaxI(a, b) == IF a > b THEN a ELSE b
CeilDiv(a, b) == (a + b - 1) \div b

RECURSIVE SumSeq(_)
SumSeq(s) == IF s = <<>> THEN 0 ELSE Head(s) + SumSeq(Tail(s))
RECURSIVE SumF(_, _)
\* sum of f[x] over the finite set S
SumF(f, S) == IF S = {} THEN 0
              ELSE LET x == CHOOSE x \in S : TRUE IN f[x] + SumF(f, S \ {x})

----------------------------------------------------------------------------
\* Geometry

HF(c) == Pow2(c.ho)                 \* frames per huge frame
TF(c) == c.th * HF(c)               \* frames per tree
TO(c) == c.ho + Log2(c.th)          \* tree order
NT(c) == CeilDiv(c.frames, TF(c))   \* number of trees
NH(c) == CeilDiv(c.frames, HF(c))   \* number of huge frames (bitfields)
Trees(c) == 0 .. NT(c) - 1
Huges(c) == 0 .. NH(c) - 1
HugeOf(c, f) == f \div HF(c)
TreeOf(c, f) == f \div TF(c)
TreeOfHuge(c, h) == h \div c.th
HugesOfTree(c, t) == {h \in Huges(c) : TreeOfHuge(c, h) = t}
\* managed offsets of huge frame h
Managed(c, h) == 0 .. (MinI(HF(c), c.frames - h * HF(c)) - 1)
FullHuge(c, h) == (h + 1) * HF(c) <= c.frames
FullTree(c, t) == (t + 1) * TF(c) <= c.frames
AllOff(c) == 0 .. HF(c) - 1

----------------------------------------------------------------------------
\* Classings and policies (mirrors llfree::Classing::{simple,movable} and the
\* harness' zeroed / zeroslot / custom / single classings)

ClassSlots(c) ==
  CASE c.cls = "simple"   -> (0 :> c.k @@ 1 :> c.k)
    [] c.cls = "movable"  -> (0 :> c.k @@ 1 :> c.k @@ 2 :> c.k)
    [] c.cls = "zeroed"   -> (0 :> c.k @@ 1 :> c.k @@ 2 :> c.k)
    [] c.cls = "zeroslot" -> (0 :> c.k @@ 1 :> 0)
    [] c.cls = "zeroslot0" -> (0 :> 0 @@ 1 :> c.k)
    [] c.cls = "custom"   -> (0 :> c.k @@ 1 :> c.k @@ 2 :> c.k)
    [] c.cls = "single"   -> (0 :> c.k)
    [] c.cls = "uneven"   -> (0 :> c.k + 1 @@ 1 :> c.k)
Classes(c) == DOMAIN ClassSlots(c)
DefaultClass(c) ==
  CASE c.cls = "simple" -> 1 [] c.cls = "movable" -> 2 [] c.cls = "zeroed" -> 1
    [] c.cls = "zeroslot" -> 1 [] c.cls = "zeroslot0" -> 1 [] c.cls = "custom" -> 1 [] c.cls = "single" -> 0 [] c.cls = "uneven" -> 1

\* kind of the policy's answer; none of the policies' kinds depends on `free`
PolicyKind(c, req, tgt) ==
  IF c.cls = "custom" /\ ((req = 0 /\ tgt = 2) \/ (req = 2 /\ tgt = 0)) THEN "invalid"
  ELSE IF c.cls = "single" THEN "match"
  ELSE IF req > tgt THEN "steal"
  ELSE IF req < tgt THEN "demote"
  ELSE "match"
\* priority of a match (u8): 255 is a perfect match
MatchPrio(c, free) ==
  IF free >= TF(c) \div 2 THEN 1
  ELSE IF free >= TF(c) \div 64 THEN 255
  ELSE IF c.cls = "movable" THEN 2 ELSE 0
NeverInvalid(c) == c.cls # "custom"

\* C13: the class reported for an allocation
ClassAdmissible(c, req, ret) ==
  ret = req \/ (ret \in Classes(c) /\ PolicyKind(c, req, ret) \in {"match", "steal"})

----------------------------------------------------------------------------
\* Initial states (C06): a function of the frame count only

InitFr(c, init) ==
  [h \in Huges(c) |-> IF init = "free" THEN Managed(c, h) ELSE {}]
InitWhole(c, init) ==
  [h \in Huges(c) |-> init = "alloc" /\ FullHuge(c, h)]
InitHidden(c) == [t \in Trees(c) |-> 0]

----------------------------------------------------------------------------
\* Ownership model (C01, C02, C08)

BlockOffs(c, f, o) == (f % HF(c)) .. ((f % HF(c)) + Pow2(o) - 1)     \* o < ho
BlockHuges(c, f, o) == HugeOf(c, f) .. (HugeOf(c, f) + Pow2(o - c.ho) - 1)  \* o >= ho
BlockFrames(f, o) == f .. (f + Pow2(o) - 1)

\* argument check of get / put (for get without target: f = 0)
Check(c, f, o, cl) ==
  /\ o <= TO(c)
  /\ f + Pow2(o) <= c.frames
  /\ f % Pow2(o) = 0
  /\ cl \in Classes(c)

BlockFree(c, fr, f, o) ==
  IF o < c.ho THEN BlockOffs(c, f, o) \subseteq fr[HugeOf(c, f)]
  ELSE \A h \in BlockHuges(c, f, o) : fr[h] = AllOff(c)

\* every frame of the block is allocated, and for o >= ho allocated whole
PutOk(c, fr, whole, f, o) ==
  IF o < c.ho THEN BlockOffs(c, f, o) \cap fr[HugeOf(c, f)] = {}
  ELSE \A h \in BlockHuges(c, f, o) : whole[h]

TakeFr(c, fr, f, o) ==
  IF o < c.ho
  THEN [fr EXCEPT ![HugeOf(c, f)] = @ \ BlockOffs(c, f, o)]
  ELSE [h \in DOMAIN fr |-> IF h \in BlockHuges(c, f, o) THEN {} ELSE fr[h]]
TakeWhole(c, whole, f, o) ==
  IF o < c.ho THEN whole
  ELSE [h \in DOMAIN whole |-> IF h \in BlockHuges(c, f, o) THEN TRUE ELSE whole[h]]

ReleaseFr(c, fr, f, o) ==
  IF o < c.ho
  THEN [fr EXCEPT ![HugeOf(c, f)] = @ \cup BlockOffs(c, f, o)]
  ELSE [h \in DOMAIN fr |-> IF h \in BlockHuges(c, f, o) THEN AllOff(c) ELSE fr[h]]
\* freeing part of a whole huge frame splits it
ReleaseWhole(c, whole, f, o) ==
  IF o < c.ho THEN [whole EXCEPT ![HugeOf(c, f)] = FALSE]
  ELSE [h \in DOMAIN whole |-> IF h \in BlockHuges(c, f, o) THEN FALSE ELSE whole[h]]

----------------------------------------------------------------------------
\* Counting (C04)

FreeInHuge(fr, h) == Cardinality(fr[h])
FreeInTree(c, fr, t) == SumF([h \in HugesOfTree(c, t) |-> Cardinality(fr[h])], HugesOfTree(c, t))
FreeTotal(c, fr) == SumF([h \in Huges(c) |-> Cardinality(fr[h])], Huges(c))
FreeHugeCount(c, fr) == Cardinality({h \in Huges(c) : fr[h] = AllOff(c)})
FreeTreeCount(c, fr) == Cardinality({t \in Trees(c) : FullTree(c, t) /\ FreeInTree(c, fr, t) = TF(c)})
HiddenTotal(c, hidden) == SumF(hidden, Trees(c))

ManagedInTree(c, t) == MinI(TF(c), c.frames - t * TF(c))
\* offline in the sense of C15: every managed frame of the tree is hidden
FullyOffline(c, hidden, t) == hidden[t] > 0 /\ hidden[t] = ManagedInTree(c, t)
Offline(hidden, t) == hidden[t] > 0

\* a successful allocation of block (f, o)
GetOk(c, fr, hidden, f, o) ==
  /\ f % Pow2(o) = 0
  /\ f + Pow2(o) <= c.frames
  /\ BlockFree(c, fr, f, o)
  /\ ~FullyOffline(c, hidden, TreeOf(c, f))

\* C10: a drained, quiescent allocator (policy never `Invalid`)
DrainedOomOk(c, fr, hidden) ==
  \A h \in Huges(c) : fr[h] # {} => Offline(hidden, TreeOfHuge(c, h))
DrainedGetAtMust(c, fr, hidden, f, o) ==
  BlockFree(c, fr, f, o) /\ ~Offline(hidden, TreeOf(c, f))
\* C11: single slot, base frames only
SingleSlotOomOk(c, fr) == \A h \in Huges(c) : fr[h] = {}

\* C12: directed allocation inside tree t
ExistsFreeBlock(c, fr, t, o) ==
  \E b \in {x \in (t * TF(c)) .. (MinI((t + 1) * TF(c), c.frames) - 1) : x % Pow2(o) = 0} :
     b + Pow2(o) <= c.frames /\ BlockFree(c, fr, b, o)

=============================================================================

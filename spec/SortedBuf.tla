----------------------------- MODULE SortedBuf -----------------------------
(***************************************************************************)
(* C16: the bounded buffer of fallback candidates.  After inserting the    *)
(* sequence `ins` into a buffer of capacity n, iterating from best to      *)
(* worst must yield the min(n, Len(ins)) greatest inserted ratings in      *)
(* non-increasing order (which of several equal ratings survives is free). *)
(* TreeSearch: the order in which Trees::search_best tries trees.          *)
(***************************************************************************)
EXTENDS Integers, Sequences, FiniteSets, Bags, SequencesExt

SeqBag(s) == [v \in {s[i] : i \in DOMAIN s} |-> Cardinality({i \in DOMAIN s : s[i] = v})]
NonIncreasing(s) == \A i \in 1 .. Len(s) - 1 : s[i] >= s[i + 1]
MinI2(a, b) == IF a < b THEN a ELSE b
\* out is a selection of the k greatest elements of ins (as bags)
IsTopK(out, ins, k) ==
  /\ Len(out) = k
  /\ \A v \in {out[i] : i \in DOMAIN out} :
        Cardinality({i \in DOMAIN out : out[i] = v}) <= Cardinality({i \in DOMAIN ins : ins[i] = v})
  \* nothing left out is greater than something kept
  /\ \A i \in DOMAIN ins :
        LET v == ins[i]
            kept == Cardinality({j \in DOMAIN out : out[j] = v})
            have == Cardinality({j \in DOMAIN ins : ins[j] = v})
        IN kept < have => \A j \in DOMAIN out : out[j] >= v

IterOk(out, ins, n) ==
  /\ NonIncreasing(out)
  /\ IsTopK(out, ins, MinI2(n, Len(ins)))

\* search_best: ranks[t] = rating of tree t (-2 reserved, -1 invalid), rated = the ratings
\* the search computed (one per visited unreserved tree), accessed = trees tried, in order
IsPerfect(r, perfect) == r \div 2 = perfect \div 2
TreeSearchOk(n, ranks, rated, accessed, perfect) ==
  LET acc == [i \in DOMAIN accessed |-> ranks[accessed[i] + 1]]
      accP == SelectSeq(acc, LAMBDA r : IsPerfect(r, perfect))
      accN == SelectSeq(acc, LAMBDA r : ~IsPerfect(r, perfect))
      cand == SelectSeq(rated, LAMBDA r : r >= 0 /\ ~IsPerfect(r, perfect))
      nperf == Len(SelectSeq(rated, LAMBDA r : IsPerfect(r, perfect)))
  IN /\ Cardinality({accessed[i] : i \in DOMAIN accessed}) = Len(accessed)   \* tried at most once
     /\ \A i \in DOMAIN acc : acc[i] >= 0                                    \* never a reserved / invalid tree
     /\ Len(accP) = nperf                                                    \* every perfect match is tried ...
     /\ \A i \in DOMAIN acc : \A j \in DOMAIN acc :                          \* ... before the fallbacks
           (IsPerfect(acc[j], perfect) /\ ~IsPerfect(acc[i], perfect)) => j < i
     /\ IterOk(accN, cand, n)                                                \* the n best fallbacks, best first
=============================================================================

SPECIFICATION Spec
CONSTANTS
  Letters <- Orders
  Depth = 3
INVARIANT Emit
CHECK_DEADLOCK FALSE

----------------------------- MODULE RowSearch -----------------------------
(***************************************************************************)
(* C23: search of one 64-bit allocation row.  A row is the set of its set  *)
(* (= allocated) bit positions.  SpecFirst(S, k) is the lowest aligned     *)
(* block of 2^k clear bits; the search must report it (or "none" exactly   *)
(* when there is none) and return the row with exactly that block set.     *)
(***************************************************************************)
EXTENDS Integers, FiniteSets

Bits == 0 .. 63
Block(b, k) == b .. (b + 2^k - 1)
Starts(k) == {b \in Bits : b % (2^k) = 0}
FreeBlocks(S, k) == {b \in Starts(k) : Block(b, k) \cap S = {}}
HasFree(S, k) == FreeBlocks(S, k) # {}
SpecFirst(S, k) == CHOOSE b \in FreeBlocks(S, k) : \A c \in FreeBlocks(S, k) : b <= c

\* off = -1: no block reported; otherwise the reported offset; N: the returned row
SearchOk(S, k, off, N) ==
  IF HasFree(S, k)
  THEN off = SpecFirst(S, k) /\ N = S \cup Block(off, k)
  ELSE off = -1
=============================================================================

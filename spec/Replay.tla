------------------------------- MODULE Replay -------------------------------
(***************************************************************************)
(* C20: bookkeeping of the trace replayer (eval/src/bin/replay.rs).        *)
(* A trace is a sequence of events <<alloc?, pfn, order>> (alloc? = 1/0).  *)
(* The replayer keeps, per traced pfn, the allocation it stands for; a     *)
(* free event releases exactly the frames of the traced block - if it      *)
(* names part of a larger earlier allocation the allocation is split, the  *)
(* named part is freed and the other parts stay allocated.                 *)
(*                                                                         *)
(* The module is used in both directions:                                  *)
(*  - Spec (Init/Next): TLC enumerates all traces over a small alphabet up *)
(*    to a bound and prints them; the driver feeds each to the compiled    *)
(*    replay binary (spec -> implementation);                              *)
(*  - Run(seq) is the oracle TraceSat uses to validate what the binary     *)
(*    reported for a trace (implementation -> spec).                       *)
(***************************************************************************)
EXTENDS Integers, Sequences, FiniteSets, TLC, Json

MaxOrder == 11        \* the replayer searches covering allocations up to the tree order
P2(n) == 2^n
AlignDown(p, o) == (p \div P2(o)) * P2(o)

\* records: function pfn -> order for the present traced allocations
Present(rec, p) == p \in DOMAIN rec

\* covering allocation of a free event, searched as the replayer does
RECURSIVE Find(_, _, _, _)
Find(rec, p, o, eo) ==
  IF o > MaxOrder THEN -1
  ELSE LET a == AlignDown(p, o)
       IN IF Present(rec, a) /\ rec[a] >= o THEN a ELSE Find(rec, p, o + 1, eo)

Restrict(f, S) == [x \in S |-> f[x]]

\* state: [rec, held (frames still allocated), unknown (free events without allocation)]
Step(st, ev) ==
  LET p == ev[2]  o == ev[3] IN
  IF ev[1] = 1
  THEN \* allocation: a new block; an existing record for this pfn is overwritten (its block leaks)
       [rec |-> [x \in (DOMAIN st.rec) \cup {p} |-> IF x = p THEN o ELSE st.rec[x]],
        held |-> st.held + P2(o), unknown |-> st.unknown]
  ELSE LET a == Find(st.rec, p, o, o) IN
       IF a = -1 THEN [st EXCEPT !.unknown = @ + 1]
       ELSE LET A == st.rec[a]
                parts == {a + i * P2(o) : i \in 0 .. (P2(A - o) - 1)}
                keep == ((DOMAIN st.rec) \ parts) \cup (parts \ {p})
            IN [rec |-> [x \in keep |-> IF x \in parts THEN o ELSE st.rec[x]],
                held |-> st.held - P2(o), unknown |-> st.unknown]

RECURSIVE Run(_, _)
Run(st, seq) == IF seq = <<>> THEN st ELSE Run(Step(st, Head(seq)), Tail(seq))
Empty == [rec |-> <<>>, held |-> 0, unknown |-> 0]
Expected(seq) == Run(Empty, seq)

----------------------------------------------------------------------------
\* generator
CONSTANTS Letters, Depth
VARIABLE hist
Init == hist = <<>>
\* a trace is consistent if an allocation never overlaps a block the trace still holds, except for a
\* re-allocation of the very same pfn (a free the trace missed): overlapping live allocations cannot happen in a
\* kernel, and "the frames the trace still holds" would not be defined for them
Overlaps(p, o, q, ro) == p < q + P2(ro) /\ q < p + P2(o)
ValidAlloc(rec, p, o) == \A q \in DOMAIN rec : Overlaps(p, o, q, rec[q]) => q = p
ValidEvent(h, ev) == ev[1] = 0 \/ ValidAlloc(Expected(h).rec, ev[2], ev[3])
Next == /\ Len(hist) < Depth
        /\ \E ev \in Letters : ValidEvent(hist, ev) /\ hist' = Append(hist, ev)
Spec == Init /\ [][Next]_hist
\* every reachable hist is printed once (BFS: one state per distinct sequence)
Emit == PrintT(<<"SEQ", ToJson(hist)>>)
=============================================================================

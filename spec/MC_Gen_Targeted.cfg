SPECIFICATION Spec
CONSTANTS
  Letters <- Targeted
  Depth = 3
INVARIANT Emit
CHECK_DEADLOCK FALSE

------------------------------- MODULE LLFree -------------------------------
(***************************************************************************)
(* FINE model of llfree-rs: every shared-memory access of the lower        *)
(* allocator (bitfields, huge entries) and the upper allocator (tree       *)
(* words, local reservations) is one label, at the real geometry.  One     *)
(* PlusCal procedure per Rust function; `try_update` / `update` are the    *)
(* load + compare-exchange loops the hooked build executes.  The model     *)
(* mirrors what the code does (search order, fallbacks, rollbacks,         *)
(* panics), it does not idealise it.                                       *)
(*                                                                         *)
(* Threads run constant programs Prog[t] (sequences of API calls with      *)
(* symbolic references to the blocks they hold).  TLC explores every       *)
(* interleaving of the access steps.                                       *)
(***************************************************************************)
EXTENDS FineDefs

CONSTANTS
  NTHREADS,
  Prog,       \* Prog[t]: sequence of calls, see Thread below
  InitMem,    \* initial memory (after the scenario's sequential setup)
  InitHeld,   \* InitHeld[t]: sequence of <<frame, order>> held by t initially
  InitHidden, \* InitHidden[t]: free frames of tree t taken offline by the setup (Abs.tla: hidden)
  KnownPanics \* panic reasons that are recorded known findings (tolerated by NoPanic)

Threads == 0 .. NTHREADS - 1
NoOp == [seq |-> 0, t |-> -1, k |-> "none", loc |-> <<>>, old |-> 0, new |-> 0, ok |-> TRUE]
Freed == <<-1, -1>>

(* --algorithm LLFree {
variables
  mem = InitMem,
  held = InitHeld,                       \* blocks returned and not yet freed (index stable, Freed = gone)
  results = [t \in Threads |-> <<>>],    \* results of completed calls
  inflight = [t \in Threads |-> <<>>],   \* the call in flight, <<>> if none
  rv = [t \in Threads |-> [ok |-> FALSE]],   \* return value of the last procedure
  panicked = [t \in Threads |-> ""],     \* why the thread panicked ("" = it did not)
  hid = InitHidden,                      \* ghost: frames per tree hidden by Offline changes (as Abs.tla counts them)
  lastop = NoOp;                         \* the last shared access (for step conformance)

define {
  ZerosOf(h) == LET S == UNION {{r * 64 + b : b \in AllBits \ mem[Row(h, r)]} : r \in 0 .. ROWS - 1} IN Cardinality(S)
}

macro Load(loc, into) {
  into := mem[loc];
  lastop := [seq |-> lastop.seq + 1, t |-> self, k |-> "load", loc |-> loc, old |-> mem[loc], new |-> mem[loc], ok |-> TRUE];
}
macro Store(loc, v) {
  lastop := [seq |-> lastop.seq + 1, t |-> self, k |-> "store", loc |-> loc, old |-> mem[loc], new |-> v, ok |-> TRUE];
  mem[loc] := v;
}
\* compare-exchange: okv := success, seen := value observed
macro Cas(loc, cur, new, okv, seen) {
  if (mem[loc] = cur) {
    okv := TRUE; seen := cur;
    lastop := [seq |-> lastop.seq + 1, t |-> self, k |-> "cas", loc |-> loc, old |-> cur, new |-> new, ok |-> TRUE];
    mem[loc] := new;
  } else {
    okv := FALSE; seen := mem[loc];
    lastop := [seq |-> lastop.seq + 1, t |-> self, k |-> "cas", loc |-> loc, old |-> mem[loc], new |-> new, ok |-> FALSE];
  }
}
\* sub-word compare-exchange on bits lo..lo+w-1 of a row (toggle_int::<u8|u16|u32|u64>)
macro CasBits(loc, lo, w, expected, okv) {
  if ((mem[loc] \cap (lo .. lo + w - 1)) = (IF expected THEN lo .. lo + w - 1 ELSE {})) {
    okv := TRUE;
    lastop := [seq |-> lastop.seq + 1, t |-> self, k |-> "casb", loc |-> loc, old |-> mem[loc],
               new |-> IF expected THEN mem[loc] \ (lo .. lo + w - 1) ELSE mem[loc] \cup (lo .. lo + w - 1), ok |-> TRUE];
    mem[loc] := IF expected THEN mem[loc] \ (lo .. lo + w - 1) ELSE mem[loc] \cup (lo .. lo + w - 1);
  } else {
    okv := FALSE;
    lastop := [seq |-> lastop.seq + 1, t |-> self, k |-> "casb", loc |-> loc, old |-> mem[loc], new |-> mem[loc], ok |-> FALSE];
  }
}

\* a panic / failed assertion of the code under test: the thread stops here for good
procedure do_panic(dp_why)
{
dp_flag:
  panicked[self] := dp_why;
dp_stop:
  await FALSE;
  return;
}

\* ------------------------------------------------------------------ atomics
\* Atom::try_update(f): load, then CAS while f(prev) is Some; rv = [ok, old, new]
procedure try_update(tu_loc, tu_fn, tu_arg)
variables tu_prev = 0, tu_next = <<>>, tu_done = FALSE, tu_ok = FALSE, tu_seen = 0;
{
tu_load:
  Load(tu_loc, tu_prev);
  tu_done := FALSE;
tu_cas:
  while (~tu_done) {
    if (FPanics(tu_fn, tu_arg, tu_prev)) {
      call do_panic("assertion");
    } else {
      tu_next := F(tu_fn, tu_arg, tu_prev);
      if (~IsSome(tu_next)) {
        rv[self] := [ok |-> FALSE, old |-> tu_prev, new |-> tu_prev];
        tu_done := TRUE;
      } else {
        Cas(tu_loc, tu_prev, Val(tu_next), tu_ok, tu_seen);
        if (tu_ok) {
          rv[self] := [ok |-> TRUE, old |-> tu_prev, new |-> Val(tu_next)];
          tu_done := TRUE;
        } else {
          tu_prev := tu_seen;
        }
      }
    }
  };
  return;
}

\* Lower::get without a target frame: start row hint, order; rv = [ok, frame]
procedure lower_get(lg_row, lg_order)
variables lg_tree = 0, lg_off = 0, lg_j = 0, lg_i = 0, lg_h = 0, lg_found = FALSE, lg_frame = 0, lg_n = 0;
{
lg_start:
  lg_tree := TreeOfRow(lg_row);
  lg_off := HugeOfRow(lg_row) % TH;
  lg_j := 0;
  lg_found := FALSE;
  if (lg_order >= HO) {
    lg_n := P2(lg_order - HO);
lg_huge:
    while (lg_j < TH /\ ~lg_found) {
      lg_i := (AlignDown(lg_off, lg_n) + lg_j) % TH;
      call cmpxchg_all(lg_tree * TH + lg_i, lg_n, LEN, HUGE);
lg_huge_r:
      if (rv[self].ok) {
        lg_found := TRUE;
        lg_frame := (lg_tree * TH + lg_i) * HF;
      } else {
        lg_j := lg_j + lg_n;
      }
    }
  } else {
lg_small:
    while (lg_j < TH /\ ~lg_found) {
      lg_i := (lg_off + lg_j) % TH;
      lg_h := lg_tree * TH + lg_i;
      call try_update(Entry(lg_h), "edec", P2(lg_order));
lg_small_r:
      if (rv[self].ok) {
        \* start with the bitfield row from the last allocation
        call set_first_zeros(lg_h, RowIdx(lg_row), lg_order);
lg_small_s:
        if (rv[self].ok) {
          lg_found := TRUE;
          lg_frame := lg_h * HF + rv[self].off;
        } else {
          call try_update(Entry(lg_h), "einc", P2(lg_order));
lg_small_u:
          if (~rv[self].ok) { call do_panic("assertion"); } else { lg_j := lg_j + 1; }
        }
      } else {
        lg_j := lg_j + 1;
      }
    }
  };
lg_ret:
  rv[self] := [ok |-> lg_found, frame |-> lg_frame, err |-> "mem"];
  return;
}

\* [Atom]::compare_exchange_all on entries h0 .. h0+num-1, with rollback; rv = [ok]
procedure cmpxchg_all(ca_h0, ca_num, ca_cur, ca_new)
variables ca_i = 0, ca_ok = TRUE, ca_seen = 0, ca_j = 0;
{
ca_start:
  ca_i := 0;
  ca_ok := TRUE;
ca_loop:
  while (ca_i < ca_num /\ ca_ok) {
    Cas(Entry(ca_h0 + ca_i), ca_cur, ca_new, ca_ok, ca_seen);
    if (ca_ok) { ca_i := ca_i + 1; }
  };
  if (~ca_ok) {
    ca_j := ca_i - 1;
ca_undo:
    while (ca_j >= 0) {
      Cas(Entry(ca_h0 + ca_j), ca_new, ca_cur, ca_ok, ca_seen);
      if (~ca_ok) { call do_panic("assertion"); } else { ca_j := ca_j - 1; }
    };
ca_fail:
    rv[self] := [ok |-> FALSE];
    return;
  } else {
    rv[self] := [ok |-> TRUE];
    return;
  }
}

\* Bitfield::set_first_zeros / set_first_zero_rows on bitfield h; rv = [ok, off]
procedure set_first_zeros(sf_h, sf_start, sf_order)
variables sf_i = 0, sf_r = 0, sf_found = FALSE, sf_off = 0, sf_nrows = 0, sf_c = 0, sf_k = 0, sf_v = {}, sf_zero = TRUE,
          sf_ok = FALSE, sf_seen = {}, sf_u = 0;
{
sf_begin:
  sf_found := FALSE;
  sf_i := 0;
  if (sf_order <= 6) {
sf_rows:
    while (sf_i < ROWS /\ ~sf_found) {
      sf_r := (sf_i + sf_start) % ROWS;
      call try_update(Row(sf_h, sf_r), "fza", sf_order);
sf_rows_r:
      if (rv[self].ok) {
        sf_found := TRUE;
        sf_off := sf_r * 64 + (CHOOSE b \in (rv[self].new \ rv[self].old) : \A c \in (rv[self].new \ rv[self].old) : b <= c);
      } else {
        sf_i := sf_i + 1;
      }
    }
  } else {
    \* allocate multiple rows with multiple CAS
    sf_nrows := P2(sf_order - 6);
    sf_c := 0;
sf_chunks:
    while (sf_c * sf_nrows < ROWS /\ ~sf_found) {
      \* check that these rows are free: loads until the first non-zero row
      sf_k := 0;
      sf_zero := TRUE;
sf_check:
      while (sf_k < sf_nrows /\ sf_zero) {
        Load(Row(sf_h, sf_c * sf_nrows + sf_k), sf_v);
        if (sf_v # {}) { sf_zero := FALSE; } else { sf_k := sf_k + 1; }
      };
      if (sf_zero) {
        sf_k := 0;
        sf_ok := TRUE;
sf_set:
        while (sf_k < sf_nrows /\ sf_ok) {
          Cas(Row(sf_h, sf_c * sf_nrows + sf_k), {}, AllBits, sf_ok, sf_seen);
          if (sf_ok) { sf_k := sf_k + 1; }
        };
        if (sf_ok) {
          sf_found := TRUE;
          sf_off := sf_c * sf_nrows * 64;
        } else {
          \* undo previous updates, then continue with the next chunk
          sf_u := sf_k - 1;
sf_undo:
          while (sf_u >= 0) {
            Cas(Row(sf_h, sf_c * sf_nrows + sf_u), AllBits, {}, sf_ok, sf_seen);
            if (~sf_ok) { call do_panic("assertion"); } else { sf_u := sf_u - 1; }
          };
          sf_c := sf_c + 1;
        }
      } else {
        sf_c := sf_c + 1;
      }
    }
  };
sf_ret:
  rv[self] := [ok |-> sf_found, off |-> sf_off];
  return;
}

\* Bitfield::toggle of 2^order bits at offset off of bitfield h; rv = [ok]
procedure toggle(tg_h, tg_off, tg_order, tg_exp)
variables tg_ok = FALSE, tg_i = 0, tg_n = 0, tg_seen = {}, tg_u = 0, tg_r0 = 0;
{
tg_begin:
  if (tg_order <= 2) {
    call try_update(Row(tg_h, tg_off \div 64), "tog",
                    [mask |-> ((tg_off % 64) .. ((tg_off % 64) + P2(tg_order) - 1)), expected |-> tg_exp]);
tg_small_r:
    rv[self] := [ok |-> rv[self].ok];
    return;
  } else if (tg_order <= 5) {
tg_int:
    CasBits(Row(tg_h, tg_off \div 64), tg_off % 64, P2(tg_order), tg_exp, tg_ok);
    rv[self] := [ok |-> tg_ok];
    return;
  } else if (tg_order = 6) {
tg_int64:
    Cas(Row(tg_h, tg_off \div 64), IF tg_exp THEN AllBits ELSE {}, IF tg_exp THEN {} ELSE AllBits, tg_ok, tg_seen);
    rv[self] := [ok |-> tg_ok];
    return;
  } else {
    tg_n := P2(tg_order - 6);
    tg_r0 := tg_off \div 64;
    tg_i := 0;
    tg_ok := TRUE;
tg_rows:
    while (tg_i < tg_n /\ tg_ok) {
      Cas(Row(tg_h, tg_r0 + tg_i), IF tg_exp THEN AllBits ELSE {}, IF tg_exp THEN {} ELSE AllBits, tg_ok, tg_seen);
      if (tg_ok) { tg_i := tg_i + 1; }
    };
    if (~tg_ok) {
      tg_u := tg_i - 1;
tg_undo:
      while (tg_u >= 0) {
        Cas(Row(tg_h, tg_r0 + tg_u), IF tg_exp THEN {} ELSE AllBits, IF tg_exp THEN AllBits ELSE {}, tg_ok, tg_seen);
        if (~tg_ok) { call do_panic("assertion"); } else { tg_u := tg_u - 1; }
      };
tg_fail:
      rv[self] := [ok |-> FALSE];
      return;
    } else {
      rv[self] := [ok |-> TRUE];
      return;
    }
  }
}

\* Lower::get_at; rv = [ok]
procedure lower_get_at(la_frame, la_order)
variables la_h = 0;
{
la_begin:
  la_h := HugeOfFrame(la_frame);
  if (la_order >= HO) {
    call cmpxchg_all(la_h, P2(la_order - HO), LEN, HUGE);
la_huge_r:
    rv[self] := [ok |-> rv[self].ok, frame |-> la_frame, err |-> "mem"];
    return;
  } else {
    call try_update(Entry(la_h), "edec", P2(la_order));
la_dec_r:
    if (rv[self].ok) {
      call toggle(la_h, la_frame % HF, la_order, FALSE);
la_tog_r:
      if (rv[self].ok) {
        rv[self] := [ok |-> TRUE, frame |-> la_frame, err |-> "mem"];
        return;
      } else {
        \* undo decrement
        call try_update(Entry(la_h), "einc", P2(la_order));
la_undo_r:
        if (~rv[self].ok) { call do_panic("assertion"); } else {
          rv[self] := [ok |-> FALSE, frame |-> la_frame, err |-> "mem"];
          return;
        }
      }
    } else {
      rv[self] := [ok |-> FALSE, frame |-> la_frame, err |-> "mem"];
      return;
    }
  }
}

\* Lower::put_small; rv = [ok]
procedure put_small(ps_frame, ps_order)
{
ps_begin:
  call toggle(HugeOfFrame(ps_frame), ps_frame % HF, ps_order, TRUE);
ps_tog_r:
  if (~rv[self].ok) {
    rv[self] := [ok |-> FALSE];
    return;
  } else {
    call try_update(Entry(HugeOfFrame(ps_frame)), "einc", P2(ps_order));
ps_inc_r:
    if (~rv[self].ok) { call do_panic("assertion"); } else {
      rv[self] := [ok |-> TRUE];
      return;
    }
  }
}

\* Lower::put (incl. partial_put_huge); rv = [ok]
procedure lower_put(lp_frame, lp_order)
variables lp_h = 0, lp_old = 0, lp_ok = FALSE, lp_seen = 0, lp_spin = 0, lp_v = 0;
{
lp_begin:
  lp_h := HugeOfFrame(lp_frame);
  if (lp_order >= HO) {
    call cmpxchg_all(lp_h, P2(lp_order - HO), HUGE, LEN);
lp_huge_r:
    rv[self] := [ok |-> rv[self].ok];
    return;
  } else {
lp_load:
    Load(Entry(lp_h), lp_old);
    if (lp_old = HUGE) {
      \* partial_put_huge: try filling the whole bitfield
      call toggle(lp_h, 0, HO, FALSE);
lp_fill_r:
      if (rv[self].ok) {
lp_clear:
        Cas(Entry(lp_h), lp_old, 0, lp_ok, lp_seen);
        if (~lp_ok) { call do_panic("assertion"); }
      } else {
        \* wait for the parallel partial_put_huge to finish: RETRIES loads, then panic
        lp_spin := 0;
        lp_v := HUGE;
lp_wait:
        while (lp_spin < 4 /\ lp_v = HUGE) {
          Load(Entry(lp_h), lp_v);
          lp_spin := lp_spin + 1;
        };
        if (lp_v = HUGE) { call do_panic("exceeding-retries"); }
      };
lp_small:
      call put_small(lp_frame, lp_order);
lp_small_r:
      return;
    } else if (lp_old <= LEN - P2(lp_order)) {
      call put_small(lp_frame, lp_order);
lp_small2_r:
      return;
    } else {
      rv[self] := [ok |-> FALSE];
      return;
    }
  }
}

\* Trees::put = update loop (cannot fail, may panic)
procedure trees_put(tp_t, tp_n)
{
tp_begin:
  call try_update(Tree(tp_t), "tput", tp_n);
tp_r:
  return;
}

\* Trees::unreserve (expect)
procedure trees_unreserve(tu2_t, tu2_free, tu2_class)
{
un_begin:
  call try_update(Tree(tu2_t), "unres", [free |-> tu2_free, class |-> tu2_class]);
un_r:
  if (~rv[self].ok) { call do_panic("assertion"); } else { return; }
}

\* LLFree::get_local; rv = [ok, frame, class, err, tree]  (tree = -1: no reservation)
procedure get_local(gl_order, gl_class, gl_local, gl_frame, gl_sync)
variables gl_row = 0, gl_res = SlotNone, gl_min = 0, gl_got = 0;
{
gl_begin:
  call try_update(Slot(gl_class, gl_local), "sget",
                  [tree |-> IF gl_frame = -1 THEN -1 ELSE TreeOfFrame(gl_frame), n |-> P2(gl_order)]);
gl_get_r:
  if (rv[self].ok) {
    gl_row := rv[self].old.row;
    if (gl_frame = -1) { call lower_get(gl_row, gl_order); } else { call lower_get_at(gl_frame, gl_order); };
gl_lower_r:
    if (rv[self].ok) {
      gl_got := rv[self].frame;
      \* update the start row if it changed (try_update: a load, and a CAS if applicable)
      if (gl_row # RowOfFrame(gl_got)) {
        call try_update(Slot(gl_class, gl_local), "sstart", RowOfFrame(gl_got));
      };
gl_ok:
      rv[self] := [ok |-> TRUE, frame |-> gl_got, class |-> gl_class, err |-> "", tree |-> -1];
      return;
    } else {
      call trees_put(TreeOfRow(gl_row), P2(gl_order));
gl_undo_r:
      rv[self] := [ok |-> FALSE, frame |-> -1, class |-> -1, err |-> "mem", tree |-> TreeOfRow(gl_row)];
      return;
    }
  } else {
    gl_res := rv[self].old;
    if (~gl_res.present) {
      rv[self] := [ok |-> FALSE, frame |-> -1, class |-> -1, err |-> "mem", tree |-> -1];
      return;
    } else {
      if (gl_sync /\ gl_res.free < P2(gl_order)) {
        gl_min := P2(gl_order) - gl_res.free;
        call try_update(Tree(TreeOfRow(gl_res.row)), "sync", gl_min);
gl_sync_r:
        if (rv[self].ok) {
          gl_got := rv[self].old.free;
          call try_update(Slot(gl_class, gl_local), "sput", [tree |-> TreeOfRow(gl_res.row), n |-> gl_got]);
gl_sput_r:
          if (rv[self].ok) {
            call get_local(gl_order, gl_class, gl_local, gl_frame, FALSE);
gl_retry_r:
            return;
          } else {
            call trees_put(TreeOfRow(gl_res.row), gl_got);
          }
        }
      };
gl_fail:
      rv[self] := [ok |-> FALSE, frame |-> -1, class |-> -1, err |-> "mem", tree |-> TreeOfRow(gl_res.row)];
      return;
    }
  }
}

\* LLFree::steal_global; rv = [ok, frame, class]
procedure steal_global(sg_i, sg_class, sg_order, sg_frame)
variables sg_c = 0;
{
sg_begin:
  call try_update(Tree(sg_i), "steal", [class |-> sg_class, n |-> P2(sg_order)]);
sg_steal_r:
  if (rv[self].ok) {
    sg_c := rv[self].new.class;
    if (sg_frame = -1) { call lower_get(sg_i * (TF \div 64), sg_order); } else { call lower_get_at(sg_frame, sg_order); };
sg_lower_r:
    if (rv[self].ok) {
      rv[self] := [ok |-> TRUE, frame |-> rv[self].frame, class |-> sg_c, err |-> ""];
      return;
    } else {
      call trees_put(sg_i, P2(sg_order));
sg_undo_r:
      rv[self] := [ok |-> FALSE, frame |-> -1, class |-> -1, err |-> "mem"];
      return;
    }
  } else {
    rv[self] := [ok |-> FALSE, frame |-> -1, class |-> -1, err |-> "mem"];
    return;
  }
}

\* LLFree::reserve_or_steal; rv = [ok, frame, class]
procedure reserve_or_steal(rs_i, rs_order, rs_class, rs_local)
variables rs_reserved = FALSE, rs_free = 0, rs_tc = 0, rs_frame = 0, rs_old = SlotNone;
{
rs_begin:
  call try_update(Tree(rs_i), "ros", [class |-> rs_class, n |-> P2(rs_order)]);
rs_ros_r:
  if (rv[self].ok) {
    rs_reserved := rv[self].new.res;
    rs_free := rv[self].old.free;
    rs_tc := rv[self].new.class;
    call lower_get(rs_i * (TF \div 64), rs_order);
rs_lower_r:
    if (rv[self].ok) {
      rs_frame := rv[self].frame;
      if (rs_reserved) {
        if (NSlots(rs_tc) = 0) { call do_panic("assertion"); } else {
rs_swap:
          rs_old := mem[Slot(rs_tc, rs_local % NSlots(rs_tc))];
          lastop := [seq |-> lastop.seq + 1, t |-> self, k |-> "swap", loc |-> Slot(rs_tc, rs_local % NSlots(rs_tc)),
                     old |-> mem[Slot(rs_tc, rs_local % NSlots(rs_tc))],
                     new |-> SlotW(TreeOfFrame(rs_frame) * (TF \div 64), rs_free - P2(rs_order)), ok |-> TRUE];
          mem[Slot(rs_tc, rs_local % NSlots(rs_tc))] := SlotW(TreeOfFrame(rs_frame) * (TF \div 64), rs_free - P2(rs_order));
          if (rs_old.present) {
            call trees_unreserve(TreeOfRow(rs_old.row), rs_old.free, rs_tc);
          }
        }
      };
rs_ok:
      rv[self] := [ok |-> TRUE, frame |-> rs_frame, class |-> rs_tc, err |-> ""];
      return;
    } else {
      if (rs_reserved) { call trees_unreserve(rs_i, rs_free, rs_tc); } else { call trees_put(rs_i, P2(rs_order)); };
rs_fail:
      rv[self] := [ok |-> FALSE, frame |-> -1, class |-> -1, err |-> "mem"];
      return;
    }
  } else {
    rv[self] := [ok |-> FALSE, frame |-> -1, class |-> -1, err |-> "mem"];
    return;
  }
}

\* Trees::search_best::<N>; mode: "steal" (access = steal_global), "near" / "glob" (access = reserve_or_steal
\* with the two rating filters of search_and_reserve); rv = [ok, frame, class]
procedure search_best(sb_n, sb_start, sb_offset, sb_len, sb_mode, sb_order, sb_class, sb_local)
variables sb_i = 0, sb_idx = 0, sb_t = TreeW(0, FALSE, 0), sb_p = Invalid, sb_best = <<>>, sb_done = FALSE, sb_k = 0;
{
sb_begin:
  sb_i := sb_offset;
  sb_best := <<>>;
  sb_done := FALSE;
sb_scan:
  while (sb_i < sb_len /\ ~sb_done) {
    sb_idx := SearchIdx(sb_start, sb_i);
    Load(Tree(sb_idx), sb_t);
    sb_i := sb_i + 1;
    if (~sb_t.res) {
      \* rate
      sb_p := IF sb_t.free < P2(sb_order) THEN Invalid ELSE Policy(sb_class, sb_t.class, sb_t.free);
      if (sb_mode = "near") {
        sb_p := IF sb_p.kind = "match" THEN sb_p
                ELSE IF sb_p.kind = "demote" /\ sb_t.free = TF THEN sb_p ELSE Invalid;
      } else if (sb_mode = "glob") {
        sb_p := IF sb_p.kind = "match" THEN Perfect
                ELSE IF sb_p.kind = "demote" /\ sb_t.free = TF THEN Perfect ELSE sb_p;
      };
      if (sb_p = Perfect) {
        if (sb_mode = "steal") { call steal_global(sb_idx, sb_class, sb_order, -1); }
        else { call reserve_or_steal(sb_idx, sb_order, sb_class, sb_local); };
sb_scan_r:
        if (rv[self].ok) { sb_done := TRUE; }
      } else if (sb_p.kind # "invalid") {
        sb_best := SBAdd(sb_best, sb_n, <<Rank(sb_p, sb_t.free = TF), sb_idx>>);
      }
    }
  };
  sb_k := Len(sb_best);
sb_try:
  while (sb_k >= 1 /\ ~sb_done) {
    if (sb_mode = "steal") { call steal_global(sb_best[sb_k][2], sb_class, sb_order, -1); }
    else { call reserve_or_steal(sb_best[sb_k][2], sb_order, sb_class, sb_local); };
sb_try_r:
    if (rv[self].ok) { sb_done := TRUE; } else { sb_k := sb_k - 1; }
  };
sb_ret:
  if (~sb_done) { rv[self] := [ok |-> FALSE, frame |-> -1, class |-> -1, err |-> "mem"]; };
  return;
}

\* LLFree::steal_local; rv = [ok, frame, class]
procedure steal_local(sl_class, sl_local, sl_order, sl_frame)
variables sl_i = 0, sl_tc = 0, sl_j = 0, sl_found = FALSE, sl_row = 0, sl_jj = 0;
{
sl_begin:
  sl_i := 0;
  sl_found := FALSE;
sl_classes:
  while (sl_i < 8 /\ ~sl_found) {
    sl_tc := (sl_i + sl_class) % 8;
    if (Configured(sl_tc) /\ Policy(sl_class, sl_tc, P2(sl_order)).kind \in {"steal", "match"}) {
      sl_j := 0;
sl_slots:
      while (sl_j < NSlots(sl_tc) /\ ~sl_found) {
        sl_jj := ((IF sl_local = -1 THEN 0 ELSE sl_local) + sl_j) % NSlots(sl_tc);
        call try_update(Slot(sl_tc, sl_jj), "sget",
                        [tree |-> IF sl_frame = -1 THEN -1 ELSE TreeOfFrame(sl_frame), n |-> P2(sl_order)]);
sl_slots_r:
        if (rv[self].ok) { sl_found := TRUE; sl_row := rv[self].old.row; } else { sl_j := sl_j + 1; }
      };
sl_next:
      if (~sl_found) { sl_i := sl_i + 1; }
    } else {
      sl_i := sl_i + 1;
    }
  };
  if (sl_found) {
    if (sl_frame = -1) { call lower_get(sl_row, sl_order); } else { call lower_get_at(sl_frame, sl_order); };
sl_lower_r:
    if (rv[self].ok) {
      rv[self] := [ok |-> TRUE, frame |-> rv[self].frame, class |-> sl_tc, err |-> ""];
      return;
    } else {
      call trees_put(TreeOfRow(sl_row), P2(sl_order));
sl_undo_r:
      rv[self] := [ok |-> FALSE, frame |-> -1, class |-> -1, err |-> "mem"];
      return;
    }
  } else {
    rv[self] := [ok |-> FALSE, frame |-> -1, class |-> -1, err |-> "mem"];
    return;
  }
}

\* LLFree::demote_local; rv = [ok, frame, class]
procedure demote_local(dl_class, dl_local, dl_order, dl_frame)
variables dl_i = 1, dl_tc = 0, dl_j = 0, dl_found = FALSE, dl_new = SlotNone, dl_old = SlotNone, dl_jj = 0, dl_oldclass = 0;
{
dl_begin:
  dl_i := 1;
  dl_found := FALSE;
  if (~Configured(dl_class)) {
    rv[self] := [ok |-> FALSE, frame |-> -1, class |-> -1, err |-> "mem"];
    return;
  } else {
dl_classes:
    while (dl_i < 8 /\ ~dl_found) {
      dl_tc := (dl_i + dl_class) % 8;
      if (Configured(dl_tc) /\ Policy(dl_class, dl_tc, P2(dl_order)).kind = "demote") {
        dl_j := 0;
dl_slots:
        while (dl_j < NSlots(dl_tc) /\ ~dl_found) {
          dl_jj := ((IF dl_local = -1 THEN 0 ELSE dl_local) + dl_j) % NSlots(dl_tc);
          call try_update(Slot(dl_tc, dl_jj), "sdemote",
                          [tree |-> IF dl_frame = -1 THEN -1 ELSE TreeOfFrame(dl_frame), n |-> P2(dl_order)]);
dl_slots_r:
          if (rv[self].ok) {
            dl_found := TRUE;
            dl_new := [rv[self].old EXCEPT !.free = @ - P2(dl_order)];
          } else { dl_j := dl_j + 1; }
        };
dl_next:
        if (~dl_found) { dl_i := dl_i + 1; }
      } else {
        dl_i := dl_i + 1;
      }
    };
    if (~dl_found) {
      rv[self] := [ok |-> FALSE, frame |-> -1, class |-> -1, err |-> "mem"];
      return;
    } else {
      if (dl_local # -1) {
dl_swap:
        \* replace the own local tree, the old one is unreserved
        dl_old := mem[Slot(dl_class, dl_local)];
        lastop := [seq |-> lastop.seq + 1, t |-> self, k |-> "swap", loc |-> Slot(dl_class, dl_local),
                   old |-> mem[Slot(dl_class, dl_local)], new |-> dl_new, ok |-> TRUE];
        mem[Slot(dl_class, dl_local)] := dl_new;
      } else {
        \* or return (and unreserve) the demoted tree
        dl_old := dl_new;
      };
dl_unres:
      if (dl_old.present) {
        call trees_unreserve(TreeOfRow(dl_old.row), dl_old.free, dl_class);
      };
dl_lower:
      if (dl_frame = -1) { call lower_get(dl_new.row, dl_order); } else { call lower_get_at(dl_frame, dl_order); };
dl_lower_r:
      if (rv[self].ok) {
        rv[self] := [ok |-> TRUE, frame |-> rv[self].frame, class |-> dl_class, err |-> ""];
        return;
      } else {
        call trees_put(TreeOfRow(dl_new.row), P2(dl_order));
dl_undo_r:
        rv[self] := [ok |-> FALSE, frame |-> -1, class |-> -1, err |-> "mem"];
        return;
      }
    }
  }
}

\* LLFree::get (with or without a target frame); rv = [ok, frame, class, err]
procedure api_get(ag_order, ag_class, ag_local, ag_frame)
variables ag_len = 0, ag_start = 0, ag_near = 0, ag_done = FALSE;
{
ag_begin:
  ag_done := FALSE;
  if (~(ag_order <= TO /\ (IF ag_frame = -1 THEN 0 ELSE ag_frame) + P2(ag_order) <= FRAMES
        /\ (IF ag_frame = -1 THEN 0 ELSE ag_frame) % P2(ag_order) = 0 /\ Configured(ag_class))) {
    rv[self] := [ok |-> FALSE, frame |-> -1, class |-> -1, err |-> "arg"];
    return;
  } else if (ag_frame # -1) {
    \* get_at: local reservation first
    if (ag_local # -1) {
      call get_local(ag_order, ag_class, ag_local, ag_frame, TRUE);
ag_at_local_r:
      if (rv[self].ok) { ag_done := TRUE; }
    };
ag_at_global:
    if (~ag_done) {
      call steal_global(TreeOfFrame(ag_frame), ag_class, ag_order, ag_frame);
ag_at_global_r:
      if (rv[self].ok) { ag_done := TRUE; }
    };
ag_at_steal:
    if (~ag_done) {
      call steal_local(ag_class, ag_local, ag_order, ag_frame);
ag_at_steal_r:
      if (rv[self].ok) { ag_done := TRUE; }
    };
ag_at_demote:
    if (~ag_done) {
      call demote_local(ag_class, ag_local, ag_order, ag_frame);
    };
ag_at_ret:
    return;
  } else {
    ag_len := NSlots(ag_class);
    ag_start := (IF ag_len = 0 THEN 0 ELSE NT \div ag_len) * (IF ag_local = -1 THEN 0 ELSE ag_local);
    if (ag_local # -1 /\ ag_len > 0 /\ ag_len < NT) {
      call get_local(ag_order, ag_class, ag_local, -1, TRUE);
ag_local_r:
      if (rv[self].ok) { ag_done := TRUE; }
      else if (rv[self].tree # -1) { ag_start := rv[self].tree; };
ag_reserve:
      if (~ag_done) {
        \* search_and_reserve
        ag_near := MaxI(NT \div 16, 4);
        ag_start := AlignDown(ag_start, NextPow2(2 * ag_near));
        if (ag_order < HO) {
          call search_best(3, ag_start, 1, ag_near, "near", ag_order, ag_class, ag_local);
ag_near_r:
          if (rv[self].ok) { ag_done := TRUE; }
        };
ag_global:
        if (~ag_done) {
          call search_best(8, ag_start, 0, NT, "glob", ag_order, ag_class, ag_local);
ag_global_r:
          if (rv[self].ok) { ag_done := TRUE; }
        }
      }
    } else {
      call search_best(8, ag_start, 0, NT, "steal", ag_order, ag_class, ag_local);
ag_steal_r:
      if (rv[self].ok) { ag_done := TRUE; }
    };
ag_oom1:
    if (~ag_done) {
      call steal_local(ag_class, ag_local, ag_order, -1);
ag_oom1_r:
      if (rv[self].ok) { ag_done := TRUE; }
    };
ag_oom2:
    if (~ag_done) {
      call demote_local(ag_class, ag_local, ag_order, -1);
    };
ag_ret:
    return;
  }
}

\* LLFree::put; rv = [ok, err]
procedure api_put(ap_frame, ap_order, ap_class, ap_local)
{
ap_begin:
  if (~(ap_order <= TO /\ ap_frame + P2(ap_order) <= FRAMES /\ ap_frame % P2(ap_order) = 0 /\ Configured(ap_class))) {
    rv[self] := [ok |-> FALSE, err |-> "arg"];
    return;
  } else {
    call lower_put(ap_frame, ap_order);
ap_lower_r:
    if (~rv[self].ok) {
      rv[self] := [ok |-> FALSE, err |-> "mem"];
      return;
    } else {
      if (ap_local # -1) {
        call try_update(Slot(ap_class, ap_local), "sput", [tree |-> TreeOfFrame(ap_frame), n |-> P2(ap_order)]);
ap_local_r:
        if (rv[self].ok) {
          rv[self] := [ok |-> TRUE, err |-> ""];
          return;
        }
      };
ap_global:
      call trees_put(TreeOfFrame(ap_frame), P2(ap_order));
ap_global_r:
      rv[self] := [ok |-> TRUE, err |-> ""];
      return;
    }
  }
}

\* LLFree::drain
procedure api_drain()
variables ad_c = 0, ad_k = 0, ad_old = SlotNone;
{
ad_begin:
  ad_c := 0;
ad_classes:
  while (ad_c < 8) {
    ad_k := 0;
ad_slots:
    while (ad_k < NSlots(ad_c)) {
      ad_old := mem[Slot(ad_c, ad_k)];
      lastop := [seq |-> lastop.seq + 1, t |-> self, k |-> "swap", loc |-> Slot(ad_c, ad_k),
                 old |-> mem[Slot(ad_c, ad_k)], new |-> SlotNone, ok |-> TRUE];
      mem[Slot(ad_c, ad_k)] := SlotNone;
      if (ad_old.present) {
        call trees_unreserve(TreeOfRow(ad_old.row), ad_old.free, ad_c);
      };
ad_next:
      ad_k := ad_k + 1;
    };
    ad_c := ad_c + 1;
  };
  rv[self] := [ok |-> TRUE, err |-> ""];
  return;
}


\* Trees::change_at: try_update whose closure (Tree::change) calls fetch_free() = stats_at(tree, TREE_ORDER)
\* (TH entry loads) when an Online change is applicable; rv = [ok]
procedure change_at(cg_t, cg_mclass, cg_mfree, cg_cclass, cg_cop)
variables cg_prev = TreeW(0, FALSE, 0), cg_done = FALSE, cg_fetched = 0, cg_h = 0, cg_v = 0, cg_next = <<>>, cg_ok = FALSE,
          cg_seen = TreeW(0, FALSE, 0);
{
cg_load:
  Load(Tree(cg_t), cg_prev);
  cg_done := FALSE;
cg_loop:
  while (~cg_done) {
    cg_fetched := 0;
    if (~cg_prev.res /\ (cg_mclass = -1 \/ cg_mclass = cg_prev.class) /\ cg_prev.free >= cg_mfree
        /\ cg_cop = 1 /\ cg_prev.free = 0) {
      cg_h := 0;
cg_fetch:
      while (cg_h < TH) {
        Load(Entry(cg_t * TH + cg_h), cg_v);
        cg_fetched := cg_fetched + (IF cg_v = HUGE THEN 0 ELSE cg_v);
        cg_h := cg_h + 1;
      }
    };
cg_cas:
    cg_next := F("chg", [mclass |-> cg_mclass, mfree |-> cg_mfree, cclass |-> cg_cclass, cop |-> cg_cop, fetched |-> cg_fetched], cg_prev);
    if (~IsSome(cg_next)) {
      rv[self] := [ok |-> FALSE, err |-> "mem"];
      cg_done := TRUE;
    } else {
      Cas(Tree(cg_t), cg_prev, Val(cg_next), cg_ok, cg_seen);
      if (cg_ok) {
        rv[self] := [ok |-> TRUE, err |-> ""];
        cg_done := TRUE;
        \* ghost bookkeeping as in TraceAbs!SeqChange: Offline hides what the counter held, Online ends the hiding
        if (cg_cop = 2) { hid[cg_t] := hid[cg_t] + cg_prev.free; }
        else if (cg_cop = 1) { hid[cg_t] := 0; };
      } else {
        cg_prev := cg_seen;
      }
    }
  };
  return;
}

\* LLFree::change_tree; rv = [ok, err]
procedure api_change(ac_id, ac_mclass, ac_mfree, ac_cclass, ac_cop)
variables ac_i = 0, ac_done = FALSE;
{
ac_begin:
  if (ac_id # -1) {
    if (ac_id >= NT) {
      rv[self] := [ok |-> FALSE, err |-> "arg"];
      return;
    } else {
      call change_at(ac_id, ac_mclass, ac_mfree, ac_cclass, ac_cop);
ac_id_r:
      return;
    }
  } else {
    ac_i := 0;
    ac_done := FALSE;
ac_search:
    while (ac_i < NT /\ ~ac_done) {
      call change_at(SearchIdx(0, ac_i), ac_mclass, ac_mfree, ac_cclass, ac_cop);
ac_search_r:
      if (rv[self].ok) { ac_done := TRUE; } else { ac_i := ac_i + 1; }
    };
    if (~ac_done) { rv[self] := [ok |-> FALSE, err |-> "mem"]; };
    return;
  }
}

\* ------------------------------------------------------------------ threads
\* Prog[t][i] = [op |-> "get", order, class, slot, target] | [op |-> "put", idx, sub, part, class, slot]
\*            | [op |-> "putraw", frame, order, class, slot] | [op |-> "drain"]
process (T \in Threads)
variables pcx = 1, cur = [op |-> "none"], blk = Freed;
{
t_loop:
  while (pcx <= Len(Prog[self])) {
    cur := Prog[self][pcx];
    if (cur.op = "get") {
      inflight[self] := cur;
      call api_get(cur.order, cur.class, cur.slot, cur.target);
t_get_r:
      results[self] := Append(results[self], [op |-> "get", ok |-> rv[self].ok,
                              frame |-> IF rv[self].ok THEN rv[self].frame ELSE -1,
                              class |-> IF rv[self].ok THEN rv[self].class ELSE -1, err |-> rv[self].err]);
      if (rv[self].ok) { held[self] := Append(held[self], <<rv[self].frame, cur.order>>); };
      inflight[self] := <<>>;
    } else if (cur.op = "put") {
      if (cur.idx <= Len(held[self]) /\ held[self][cur.idx] # Freed) {
        blk := held[self][cur.idx];
        \* a started free gives up the block
        held[self][cur.idx] := Freed;
        inflight[self] := [op |-> "put", frame |-> blk[1] + (IF cur.sub < blk[2] THEN (cur.part % P2(blk[2] - cur.sub)) * P2(cur.sub) ELSE 0),
                           order |-> MinI(cur.sub, blk[2]), of |-> blk];
        call api_put(inflight[self].frame, inflight[self].order, cur.class, cur.slot);
t_put_r:
        results[self] := Append(results[self], [op |-> "put", ok |-> rv[self].ok, frame |-> inflight[self].frame,
                                class |-> -1, err |-> rv[self].err]);
        inflight[self] := <<>>;
      }
    } else if (cur.op = "putraw") {
      inflight[self] := [op |-> "put", frame |-> cur.frame, order |-> cur.order, of |-> Freed];
      call api_put(cur.frame, cur.order, cur.class, cur.slot);
t_putraw_r:
      results[self] := Append(results[self], [op |-> "put", ok |-> rv[self].ok, frame |-> cur.frame,
                              class |-> -1, err |-> rv[self].err]);
      inflight[self] := <<>>;
    } else if (cur.op = "change") {
      inflight[self] := cur;
      call api_change(cur.id, cur.mclass, cur.mfree, cur.cclass, cur.cop);
t_change_r:
      results[self] := Append(results[self], [op |-> "change", ok |-> rv[self].ok, frame |-> -1, class |-> -1, err |-> rv[self].err]);
      inflight[self] := <<>>;
    } else if (cur.op = "drain") {
      inflight[self] := cur;
      call api_drain();
t_drain_r:
      results[self] := Append(results[self], [op |-> "drain", ok |-> TRUE, frame |-> -1, class |-> -1, err |-> ""]);
      inflight[self] := <<>>;
    };
t_next:
    pcx := pcx + 1;
  };
}
} *)
\* BEGIN TRANSLATION (chksum(pcal) = "4f26e731" /\ chksum(tla) = "7e15f20b")
CONSTANT defaultInitValue
VARIABLES pc, mem, held, results, inflight, rv, panicked, hid, lastop, stack

(* define statement *)
ZerosOf(h) == LET S == UNION {{r * 64 + b : b \in AllBits \ mem[Row(h, r)]} : r \in 0 .. ROWS - 1} IN Cardinality(S)

VARIABLES dp_why, tu_loc, tu_fn, tu_arg, tu_prev, tu_next, tu_done, tu_ok, 
          tu_seen, lg_row, lg_order, lg_tree, lg_off, lg_j, lg_i, lg_h, 
          lg_found, lg_frame, lg_n, ca_h0, ca_num, ca_cur, ca_new, ca_i, 
          ca_ok, ca_seen, ca_j, sf_h, sf_start, sf_order, sf_i, sf_r, 
          sf_found, sf_off, sf_nrows, sf_c, sf_k, sf_v, sf_zero, sf_ok, 
          sf_seen, sf_u, tg_h, tg_off, tg_order, tg_exp, tg_ok, tg_i, tg_n, 
          tg_seen, tg_u, tg_r0, la_frame, la_order, la_h, ps_frame, ps_order, 
          lp_frame, lp_order, lp_h, lp_old, lp_ok, lp_seen, lp_spin, lp_v, 
          tp_t, tp_n, tu2_t, tu2_free, tu2_class, gl_order, gl_class, 
          gl_local, gl_frame, gl_sync, gl_row, gl_res, gl_min, gl_got, sg_i, 
          sg_class, sg_order, sg_frame, sg_c, rs_i, rs_order, rs_class, 
          rs_local, rs_reserved, rs_free, rs_tc, rs_frame, rs_old, sb_n, 
          sb_start, sb_offset, sb_len, sb_mode, sb_order, sb_class, sb_local, 
          sb_i, sb_idx, sb_t, sb_p, sb_best, sb_done, sb_k, sl_class, 
          sl_local, sl_order, sl_frame, sl_i, sl_tc, sl_j, sl_found, sl_row, 
          sl_jj, dl_class, dl_local, dl_order, dl_frame, dl_i, dl_tc, dl_j, 
          dl_found, dl_new, dl_old, dl_jj, dl_oldclass, ag_order, ag_class, 
          ag_local, ag_frame, ag_len, ag_start, ag_near, ag_done, ap_frame, 
          ap_order, ap_class, ap_local, ad_c, ad_k, ad_old, cg_t, cg_mclass, 
          cg_mfree, cg_cclass, cg_cop, cg_prev, cg_done, cg_fetched, cg_h, 
          cg_v, cg_next, cg_ok, cg_seen, ac_id, ac_mclass, ac_mfree, 
          ac_cclass, ac_cop, ac_i, ac_done, pcx, cur, blk

vars == << pc, mem, held, results, inflight, rv, panicked, hid, lastop, stack, 
           dp_why, tu_loc, tu_fn, tu_arg, tu_prev, tu_next, tu_done, tu_ok, 
           tu_seen, lg_row, lg_order, lg_tree, lg_off, lg_j, lg_i, lg_h, 
           lg_found, lg_frame, lg_n, ca_h0, ca_num, ca_cur, ca_new, ca_i, 
           ca_ok, ca_seen, ca_j, sf_h, sf_start, sf_order, sf_i, sf_r, 
           sf_found, sf_off, sf_nrows, sf_c, sf_k, sf_v, sf_zero, sf_ok, 
           sf_seen, sf_u, tg_h, tg_off, tg_order, tg_exp, tg_ok, tg_i, tg_n, 
           tg_seen, tg_u, tg_r0, la_frame, la_order, la_h, ps_frame, ps_order, 
           lp_frame, lp_order, lp_h, lp_old, lp_ok, lp_seen, lp_spin, lp_v, 
           tp_t, tp_n, tu2_t, tu2_free, tu2_class, gl_order, gl_class, 
           gl_local, gl_frame, gl_sync, gl_row, gl_res, gl_min, gl_got, sg_i, 
           sg_class, sg_order, sg_frame, sg_c, rs_i, rs_order, rs_class, 
           rs_local, rs_reserved, rs_free, rs_tc, rs_frame, rs_old, sb_n, 
           sb_start, sb_offset, sb_len, sb_mode, sb_order, sb_class, sb_local, 
           sb_i, sb_idx, sb_t, sb_p, sb_best, sb_done, sb_k, sl_class, 
           sl_local, sl_order, sl_frame, sl_i, sl_tc, sl_j, sl_found, sl_row, 
           sl_jj, dl_class, dl_local, dl_order, dl_frame, dl_i, dl_tc, dl_j, 
           dl_found, dl_new, dl_old, dl_jj, dl_oldclass, ag_order, ag_class, 
           ag_local, ag_frame, ag_len, ag_start, ag_near, ag_done, ap_frame, 
           ap_order, ap_class, ap_local, ad_c, ad_k, ad_old, cg_t, cg_mclass, 
           cg_mfree, cg_cclass, cg_cop, cg_prev, cg_done, cg_fetched, cg_h, 
           cg_v, cg_next, cg_ok, cg_seen, ac_id, ac_mclass, ac_mfree, 
           ac_cclass, ac_cop, ac_i, ac_done, pcx, cur, blk >>

ProcSet == (Threads)

Init == (* Global variables *)
        /\ mem = InitMem
        /\ held = InitHeld
        /\ results = [t \in Threads |-> <<>>]
        /\ inflight = [t \in Threads |-> <<>>]
        /\ rv = [t \in Threads |-> [ok |-> FALSE]]
        /\ panicked = [t \in Threads |-> ""]
        /\ hid = InitHidden
        /\ lastop = NoOp
        (* Procedure do_panic *)
        /\ dp_why = [ self \in ProcSet |-> defaultInitValue]
        (* Procedure try_update *)
        /\ tu_loc = [ self \in ProcSet |-> defaultInitValue]
        /\ tu_fn = [ self \in ProcSet |-> defaultInitValue]
        /\ tu_arg = [ self \in ProcSet |-> defaultInitValue]
        /\ tu_prev = [ self \in ProcSet |-> 0]
        /\ tu_next = [ self \in ProcSet |-> <<>>]
        /\ tu_done = [ self \in ProcSet |-> FALSE]
        /\ tu_ok = [ self \in ProcSet |-> FALSE]
        /\ tu_seen = [ self \in ProcSet |-> 0]
        (* Procedure lower_get *)
        /\ lg_row = [ self \in ProcSet |-> defaultInitValue]
        /\ lg_order = [ self \in ProcSet |-> defaultInitValue]
        /\ lg_tree = [ self \in ProcSet |-> 0]
        /\ lg_off = [ self \in ProcSet |-> 0]
        /\ lg_j = [ self \in ProcSet |-> 0]
        /\ lg_i = [ self \in ProcSet |-> 0]
        /\ lg_h = [ self \in ProcSet |-> 0]
        /\ lg_found = [ self \in ProcSet |-> FALSE]
        /\ lg_frame = [ self \in ProcSet |-> 0]
        /\ lg_n = [ self \in ProcSet |-> 0]
        (* Procedure cmpxchg_all *)
        /\ ca_h0 = [ self \in ProcSet |-> defaultInitValue]
        /\ ca_num = [ self \in ProcSet |-> defaultInitValue]
        /\ ca_cur = [ self \in ProcSet |-> defaultInitValue]
        /\ ca_new = [ self \in ProcSet |-> defaultInitValue]
        /\ ca_i = [ self \in ProcSet |-> 0]
        /\ ca_ok = [ self \in ProcSet |-> TRUE]
        /\ ca_seen = [ self \in ProcSet |-> 0]
        /\ ca_j = [ self \in ProcSet |-> 0]
        (* Procedure set_first_zeros *)
        /\ sf_h = [ self \in ProcSet |-> defaultInitValue]
        /\ sf_start = [ self \in ProcSet |-> defaultInitValue]
        /\ sf_order = [ self \in ProcSet |-> defaultInitValue]
        /\ sf_i = [ self \in ProcSet |-> 0]
        /\ sf_r = [ self \in ProcSet |-> 0]
        /\ sf_found = [ self \in ProcSet |-> FALSE]
        /\ sf_off = [ self \in ProcSet |-> 0]
        /\ sf_nrows = [ self \in ProcSet |-> 0]
        /\ sf_c = [ self \in ProcSet |-> 0]
        /\ sf_k = [ self \in ProcSet |-> 0]
        /\ sf_v = [ self \in ProcSet |-> {}]
        /\ sf_zero = [ self \in ProcSet |-> TRUE]
        /\ sf_ok = [ self \in ProcSet |-> FALSE]
        /\ sf_seen = [ self \in ProcSet |-> {}]
        /\ sf_u = [ self \in ProcSet |-> 0]
        (* Procedure toggle *)
        /\ tg_h = [ self \in ProcSet |-> defaultInitValue]
        /\ tg_off = [ self \in ProcSet |-> defaultInitValue]
        /\ tg_order = [ self \in ProcSet |-> defaultInitValue]
        /\ tg_exp = [ self \in ProcSet |-> defaultInitValue]
        /\ tg_ok = [ self \in ProcSet |-> FALSE]
        /\ tg_i = [ self \in ProcSet |-> 0]
        /\ tg_n = [ self \in ProcSet |-> 0]
        /\ tg_seen = [ self \in ProcSet |-> {}]
        /\ tg_u = [ self \in ProcSet |-> 0]
        /\ tg_r0 = [ self \in ProcSet |-> 0]
        (* Procedure lower_get_at *)
        /\ la_frame = [ self \in ProcSet |-> defaultInitValue]
        /\ la_order = [ self \in ProcSet |-> defaultInitValue]
        /\ la_h = [ self \in ProcSet |-> 0]
        (* Procedure put_small *)
        /\ ps_frame = [ self \in ProcSet |-> defaultInitValue]
        /\ ps_order = [ self \in ProcSet |-> defaultInitValue]
        (* Procedure lower_put *)
        /\ lp_frame = [ self \in ProcSet |-> defaultInitValue]
        /\ lp_order = [ self \in ProcSet |-> defaultInitValue]
        /\ lp_h = [ self \in ProcSet |-> 0]
        /\ lp_old = [ self \in ProcSet |-> 0]
        /\ lp_ok = [ self \in ProcSet |-> FALSE]
        /\ lp_seen = [ self \in ProcSet |-> 0]
        /\ lp_spin = [ self \in ProcSet |-> 0]
        /\ lp_v = [ self \in ProcSet |-> 0]
        (* Procedure trees_put *)
        /\ tp_t = [ self \in ProcSet |-> defaultInitValue]
        /\ tp_n = [ self \in ProcSet |-> defaultInitValue]
        (* Procedure trees_unreserve *)
        /\ tu2_t = [ self \in ProcSet |-> defaultInitValue]
        /\ tu2_free = [ self \in ProcSet |-> defaultInitValue]
        /\ tu2_class = [ self \in ProcSet |-> defaultInitValue]
        (* Procedure get_local *)
        /\ gl_order = [ self \in ProcSet |-> defaultInitValue]
        /\ gl_class = [ self \in ProcSet |-> defaultInitValue]
        /\ gl_local = [ self \in ProcSet |-> defaultInitValue]
        /\ gl_frame = [ self \in ProcSet |-> defaultInitValue]
        /\ gl_sync = [ self \in ProcSet |-> defaultInitValue]
        /\ gl_row = [ self \in ProcSet |-> 0]
        /\ gl_res = [ self \in ProcSet |-> SlotNone]
        /\ gl_min = [ self \in ProcSet |-> 0]
        /\ gl_got = [ self \in ProcSet |-> 0]
        (* Procedure steal_global *)
        /\ sg_i = [ self \in ProcSet |-> defaultInitValue]
        /\ sg_class = [ self \in ProcSet |-> defaultInitValue]
        /\ sg_order = [ self \in ProcSet |-> defaultInitValue]
        /\ sg_frame = [ self \in ProcSet |-> defaultInitValue]
        /\ sg_c = [ self \in ProcSet |-> 0]
        (* Procedure reserve_or_steal *)
        /\ rs_i = [ self \in ProcSet |-> defaultInitValue]
        /\ rs_order = [ self \in ProcSet |-> defaultInitValue]
        /\ rs_class = [ self \in ProcSet |-> defaultInitValue]
        /\ rs_local = [ self \in ProcSet |-> defaultInitValue]
        /\ rs_reserved = [ self \in ProcSet |-> FALSE]
        /\ rs_free = [ self \in ProcSet |-> 0]
        /\ rs_tc = [ self \in ProcSet |-> 0]
        /\ rs_frame = [ self \in ProcSet |-> 0]
        /\ rs_old = [ self \in ProcSet |-> SlotNone]
        (* Procedure search_best *)
        /\ sb_n = [ self \in ProcSet |-> defaultInitValue]
        /\ sb_start = [ self \in ProcSet |-> defaultInitValue]
        /\ sb_offset = [ self \in ProcSet |-> defaultInitValue]
        /\ sb_len = [ self \in ProcSet |-> defaultInitValue]
        /\ sb_mode = [ self \in ProcSet |-> defaultInitValue]
        /\ sb_order = [ self \in ProcSet |-> defaultInitValue]
        /\ sb_class = [ self \in ProcSet |-> defaultInitValue]
        /\ sb_local = [ self \in ProcSet |-> defaultInitValue]
        /\ sb_i = [ self \in ProcSet |-> 0]
        /\ sb_idx = [ self \in ProcSet |-> 0]
        /\ sb_t = [ self \in ProcSet |-> TreeW(0, FALSE, 0)]
        /\ sb_p = [ self \in ProcSet |-> Invalid]
        /\ sb_best = [ self \in ProcSet |-> <<>>]
        /\ sb_done = [ self \in ProcSet |-> FALSE]
        /\ sb_k = [ self \in ProcSet |-> 0]
        (* Procedure steal_local *)
        /\ sl_class = [ self \in ProcSet |-> defaultInitValue]
        /\ sl_local = [ self \in ProcSet |-> defaultInitValue]
        /\ sl_order = [ self \in ProcSet |-> defaultInitValue]
        /\ sl_frame = [ self \in ProcSet |-> defaultInitValue]
        /\ sl_i = [ self \in ProcSet |-> 0]
        /\ sl_tc = [ self \in ProcSet |-> 0]
        /\ sl_j = [ self \in ProcSet |-> 0]
        /\ sl_found = [ self \in ProcSet |-> FALSE]
        /\ sl_row = [ self \in ProcSet |-> 0]
        /\ sl_jj = [ self \in ProcSet |-> 0]
        (* Procedure demote_local *)
        /\ dl_class = [ self \in ProcSet |-> defaultInitValue]
        /\ dl_local = [ self \in ProcSet |-> defaultInitValue]
        /\ dl_order = [ self \in ProcSet |-> defaultInitValue]
        /\ dl_frame = [ self \in ProcSet |-> defaultInitValue]
        /\ dl_i = [ self \in ProcSet |-> 1]
        /\ dl_tc = [ self \in ProcSet |-> 0]
        /\ dl_j = [ self \in ProcSet |-> 0]
        /\ dl_found = [ self \in ProcSet |-> FALSE]
        /\ dl_new = [ self \in ProcSet |-> SlotNone]
        /\ dl_old = [ self \in ProcSet |-> SlotNone]
        /\ dl_jj = [ self \in ProcSet |-> 0]
        /\ dl_oldclass = [ self \in ProcSet |-> 0]
        (* Procedure api_get *)
        /\ ag_order = [ self \in ProcSet |-> defaultInitValue]
        /\ ag_class = [ self \in ProcSet |-> defaultInitValue]
        /\ ag_local = [ self \in ProcSet |-> defaultInitValue]
        /\ ag_frame = [ self \in ProcSet |-> defaultInitValue]
        /\ ag_len = [ self \in ProcSet |-> 0]
        /\ ag_start = [ self \in ProcSet |-> 0]
        /\ ag_near = [ self \in ProcSet |-> 0]
        /\ ag_done = [ self \in ProcSet |-> FALSE]
        (* Procedure api_put *)
        /\ ap_frame = [ self \in ProcSet |-> defaultInitValue]
        /\ ap_order = [ self \in ProcSet |-> defaultInitValue]
        /\ ap_class = [ self \in ProcSet |-> defaultInitValue]
        /\ ap_local = [ self \in ProcSet |-> defaultInitValue]
        (* Procedure api_drain *)
        /\ ad_c = [ self \in ProcSet |-> 0]
        /\ ad_k = [ self \in ProcSet |-> 0]
        /\ ad_old = [ self \in ProcSet |-> SlotNone]
        (* Procedure change_at *)
        /\ cg_t = [ self \in ProcSet |-> defaultInitValue]
        /\ cg_mclass = [ self \in ProcSet |-> defaultInitValue]
        /\ cg_mfree = [ self \in ProcSet |-> defaultInitValue]
        /\ cg_cclass = [ self \in ProcSet |-> defaultInitValue]
        /\ cg_cop = [ self \in ProcSet |-> defaultInitValue]
        /\ cg_prev = [ self \in ProcSet |-> TreeW(0, FALSE, 0)]
        /\ cg_done = [ self \in ProcSet |-> FALSE]
        /\ cg_fetched = [ self \in ProcSet |-> 0]
        /\ cg_h = [ self \in ProcSet |-> 0]
        /\ cg_v = [ self \in ProcSet |-> 0]
        /\ cg_next = [ self \in ProcSet |-> <<>>]
        /\ cg_ok = [ self \in ProcSet |-> FALSE]
        /\ cg_seen = [ self \in ProcSet |-> TreeW(0, FALSE, 0)]
        (* Procedure api_change *)
        /\ ac_id = [ self \in ProcSet |-> defaultInitValue]
        /\ ac_mclass = [ self \in ProcSet |-> defaultInitValue]
        /\ ac_mfree = [ self \in ProcSet |-> defaultInitValue]
        /\ ac_cclass = [ self \in ProcSet |-> defaultInitValue]
        /\ ac_cop = [ self \in ProcSet |-> defaultInitValue]
        /\ ac_i = [ self \in ProcSet |-> 0]
        /\ ac_done = [ self \in ProcSet |-> FALSE]
        (* Process T *)
        /\ pcx = [self \in Threads |-> 1]
        /\ cur = [self \in Threads |-> [op |-> "none"]]
        /\ blk = [self \in Threads |-> Freed]
        /\ stack = [self \in ProcSet |-> << >>]
        /\ pc = [self \in ProcSet |-> "t_loop"]

dp_flag(self) == /\ pc[self] = "dp_flag"
                 /\ panicked' = [panicked EXCEPT ![self] = dp_why[self]]
                 /\ pc' = [pc EXCEPT ![self] = "dp_stop"]
                 /\ UNCHANGED << mem, held, results, inflight, rv, hid, lastop, 
                                 stack, dp_why, tu_loc, tu_fn, tu_arg, tu_prev, 
                                 tu_next, tu_done, tu_ok, tu_seen, lg_row, 
                                 lg_order, lg_tree, lg_off, lg_j, lg_i, lg_h, 
                                 lg_found, lg_frame, lg_n, ca_h0, ca_num, 
                                 ca_cur, ca_new, ca_i, ca_ok, ca_seen, ca_j, 
                                 sf_h, sf_start, sf_order, sf_i, sf_r, 
                                 sf_found, sf_off, sf_nrows, sf_c, sf_k, sf_v, 
                                 sf_zero, sf_ok, sf_seen, sf_u, tg_h, tg_off, 
                                 tg_order, tg_exp, tg_ok, tg_i, tg_n, tg_seen, 
                                 tg_u, tg_r0, la_frame, la_order, la_h, 
                                 ps_frame, ps_order, lp_frame, lp_order, lp_h, 
                                 lp_old, lp_ok, lp_seen, lp_spin, lp_v, tp_t, 
                                 tp_n, tu2_t, tu2_free, tu2_class, gl_order, 
                                 gl_class, gl_local, gl_frame, gl_sync, gl_row, 
                                 gl_res, gl_min, gl_got, sg_i, sg_class, 
                                 sg_order, sg_frame, sg_c, rs_i, rs_order, 
                                 rs_class, rs_local, rs_reserved, rs_free, 
                                 rs_tc, rs_frame, rs_old, sb_n, sb_start, 
                                 sb_offset, sb_len, sb_mode, sb_order, 
                                 sb_class, sb_local, sb_i, sb_idx, sb_t, sb_p, 
                                 sb_best, sb_done, sb_k, sl_class, sl_local, 
                                 sl_order, sl_frame, sl_i, sl_tc, sl_j, 
                                 sl_found, sl_row, sl_jj, dl_class, dl_local, 
                                 dl_order, dl_frame, dl_i, dl_tc, dl_j, 
                                 dl_found, dl_new, dl_old, dl_jj, dl_oldclass, 
                                 ag_order, ag_class, ag_local, ag_frame, 
                                 ag_len, ag_start, ag_near, ag_done, ap_frame, 
                                 ap_order, ap_class, ap_local, ad_c, ad_k, 
                                 ad_old, cg_t, cg_mclass, cg_mfree, cg_cclass, 
                                 cg_cop, cg_prev, cg_done, cg_fetched, cg_h, 
                                 cg_v, cg_next, cg_ok, cg_seen, ac_id, 
                                 ac_mclass, ac_mfree, ac_cclass, ac_cop, ac_i, 
                                 ac_done, pcx, cur, blk >>

dp_stop(self) == /\ pc[self] = "dp_stop"
                 /\ FALSE
                 /\ pc' = [pc EXCEPT ![self] = Head(stack[self]).pc]
                 /\ dp_why' = [dp_why EXCEPT ![self] = Head(stack[self]).dp_why]
                 /\ stack' = [stack EXCEPT ![self] = Tail(stack[self])]
                 /\ UNCHANGED << mem, held, results, inflight, rv, panicked, 
                                 hid, lastop, tu_loc, tu_fn, tu_arg, tu_prev, 
                                 tu_next, tu_done, tu_ok, tu_seen, lg_row, 
                                 lg_order, lg_tree, lg_off, lg_j, lg_i, lg_h, 
                                 lg_found, lg_frame, lg_n, ca_h0, ca_num, 
                                 ca_cur, ca_new, ca_i, ca_ok, ca_seen, ca_j, 
                                 sf_h, sf_start, sf_order, sf_i, sf_r, 
                                 sf_found, sf_off, sf_nrows, sf_c, sf_k, sf_v, 
                                 sf_zero, sf_ok, sf_seen, sf_u, tg_h, tg_off, 
                                 tg_order, tg_exp, tg_ok, tg_i, tg_n, tg_seen, 
                                 tg_u, tg_r0, la_frame, la_order, la_h, 
                                 ps_frame, ps_order, lp_frame, lp_order, lp_h, 
                                 lp_old, lp_ok, lp_seen, lp_spin, lp_v, tp_t, 
                                 tp_n, tu2_t, tu2_free, tu2_class, gl_order, 
                                 gl_class, gl_local, gl_frame, gl_sync, gl_row, 
                                 gl_res, gl_min, gl_got, sg_i, sg_class, 
                                 sg_order, sg_frame, sg_c, rs_i, rs_order, 
                                 rs_class, rs_local, rs_reserved, rs_free, 
                                 rs_tc, rs_frame, rs_old, sb_n, sb_start, 
                                 sb_offset, sb_len, sb_mode, sb_order, 
                                 sb_class, sb_local, sb_i, sb_idx, sb_t, sb_p, 
                                 sb_best, sb_done, sb_k, sl_class, sl_local, 
                                 sl_order, sl_frame, sl_i, sl_tc, sl_j, 
                                 sl_found, sl_row, sl_jj, dl_class, dl_local, 
                                 dl_order, dl_frame, dl_i, dl_tc, dl_j, 
                                 dl_found, dl_new, dl_old, dl_jj, dl_oldclass, 
                                 ag_order, ag_class, ag_local, ag_frame, 
                                 ag_len, ag_start, ag_near, ag_done, ap_frame, 
                                 ap_order, ap_class, ap_local, ad_c, ad_k, 
                                 ad_old, cg_t, cg_mclass, cg_mfree, cg_cclass, 
                                 cg_cop, cg_prev, cg_done, cg_fetched, cg_h, 
                                 cg_v, cg_next, cg_ok, cg_seen, ac_id, 
                                 ac_mclass, ac_mfree, ac_cclass, ac_cop, ac_i, 
                                 ac_done, pcx, cur, blk >>

do_panic(self) == dp_flag(self) \/ dp_stop(self)

tu_load(self) == /\ pc[self] = "tu_load"
                 /\ tu_prev' = [tu_prev EXCEPT ![self] = mem[tu_loc[self]]]
                 /\ lastop' = [seq |-> lastop.seq + 1, t |-> self, k |-> "load", loc |-> tu_loc[self], old |-> mem[tu_loc[self]], new |-> mem[tu_loc[self]], ok |-> TRUE]
                 /\ tu_done' = [tu_done EXCEPT ![self] = FALSE]
                 /\ pc' = [pc EXCEPT ![self] = "tu_cas"]
                 /\ UNCHANGED << mem, held, results, inflight, rv, panicked, 
                                 hid, stack, dp_why, tu_loc, tu_fn, tu_arg, 
                                 tu_next, tu_ok, tu_seen, lg_row, lg_order, 
                                 lg_tree, lg_off, lg_j, lg_i, lg_h, lg_found, 
                                 lg_frame, lg_n, ca_h0, ca_num, ca_cur, ca_new, 
                                 ca_i, ca_ok, ca_seen, ca_j, sf_h, sf_start, 
                                 sf_order, sf_i, sf_r, sf_found, sf_off, 
                                 sf_nrows, sf_c, sf_k, sf_v, sf_zero, sf_ok, 
                                 sf_seen, sf_u, tg_h, tg_off, tg_order, tg_exp, 
                                 tg_ok, tg_i, tg_n, tg_seen, tg_u, tg_r0, 
                                 la_frame, la_order, la_h, ps_frame, ps_order, 
                                 lp_frame, lp_order, lp_h, lp_old, lp_ok, 
                                 lp_seen, lp_spin, lp_v, tp_t, tp_n, tu2_t, 
                                 tu2_free, tu2_class, gl_order, gl_class, 
                                 gl_local, gl_frame, gl_sync, gl_row, gl_res, 
                                 gl_min, gl_got, sg_i, sg_class, sg_order, 
                                 sg_frame, sg_c, rs_i, rs_order, rs_class, 
                                 rs_local, rs_reserved, rs_free, rs_tc, 
                                 rs_frame, rs_old, sb_n, sb_start, sb_offset, 
                                 sb_len, sb_mode, sb_order, sb_class, sb_local, 
                                 sb_i, sb_idx, sb_t, sb_p, sb_best, sb_done, 
                                 sb_k, sl_class, sl_local, sl_order, sl_frame, 
                                 sl_i, sl_tc, sl_j, sl_found, sl_row, sl_jj, 
                                 dl_class, dl_local, dl_order, dl_frame, dl_i, 
                                 dl_tc, dl_j, dl_found, dl_new, dl_old, dl_jj, 
                                 dl_oldclass, ag_order, ag_class, ag_local, 
                                 ag_frame, ag_len, ag_start, ag_near, ag_done, 
                                 ap_frame, ap_order, ap_class, ap_local, ad_c, 
                                 ad_k, ad_old, cg_t, cg_mclass, cg_mfree, 
                                 cg_cclass, cg_cop, cg_prev, cg_done, 
                                 cg_fetched, cg_h, cg_v, cg_next, cg_ok, 
                                 cg_seen, ac_id, ac_mclass, ac_mfree, 
                                 ac_cclass, ac_cop, ac_i, ac_done, pcx, cur, 
                                 blk >>

tu_cas(self) == /\ pc[self] = "tu_cas"
                /\ IF ~tu_done[self]
                      THEN /\ IF FPanics(tu_fn[self], tu_arg[self], tu_prev[self])
                                 THEN /\ /\ dp_why' = [dp_why EXCEPT ![self] = "assertion"]
                                         /\ stack' = [stack EXCEPT ![self] = << [ procedure |->  "do_panic",
                                                                                  pc        |->  "tu_cas",
                                                                                  dp_why    |->  dp_why[self] ] >>
                                                                              \o stack[self]]
                                      /\ pc' = [pc EXCEPT ![self] = "dp_flag"]
                                      /\ UNCHANGED << mem, rv, lastop, tu_prev, 
                                                      tu_next, tu_done, tu_ok, 
                                                      tu_seen >>
                                 ELSE /\ tu_next' = [tu_next EXCEPT ![self] = F(tu_fn[self], tu_arg[self], tu_prev[self])]
                                      /\ IF ~IsSome(tu_next'[self])
                                            THEN /\ rv' = [rv EXCEPT ![self] = [ok |-> FALSE, old |-> tu_prev[self], new |-> tu_prev[self]]]
                                                 /\ tu_done' = [tu_done EXCEPT ![self] = TRUE]
                                                 /\ UNCHANGED << mem, lastop, 
                                                                 tu_prev, 
                                                                 tu_ok, 
                                                                 tu_seen >>
                                            ELSE /\ IF mem[tu_loc[self]] = tu_prev[self]
                                                       THEN /\ tu_ok' = [tu_ok EXCEPT ![self] = TRUE]
                                                            /\ tu_seen' = [tu_seen EXCEPT ![self] = tu_prev[self]]
                                                            /\ lastop' = [seq |-> lastop.seq + 1, t |-> self, k |-> "cas", loc |-> tu_loc[self], old |-> tu_prev[self], new |-> (Val(tu_next'[self])), ok |-> TRUE]
                                                            /\ mem' = [mem EXCEPT ![tu_loc[self]] = Val(tu_next'[self])]
                                                       ELSE /\ tu_ok' = [tu_ok EXCEPT ![self] = FALSE]
                                                            /\ tu_seen' = [tu_seen EXCEPT ![self] = mem[tu_loc[self]]]
                                                            /\ lastop' = [seq |-> lastop.seq + 1, t |-> self, k |-> "cas", loc |-> tu_loc[self], old |-> mem[tu_loc[self]], new |-> (Val(tu_next'[self])), ok |-> FALSE]
                                                            /\ mem' = mem
                                                 /\ IF tu_ok'[self]
                                                       THEN /\ rv' = [rv EXCEPT ![self] = [ok |-> TRUE, old |-> tu_prev[self], new |-> Val(tu_next'[self])]]
                                                            /\ tu_done' = [tu_done EXCEPT ![self] = TRUE]
                                                            /\ UNCHANGED tu_prev
                                                       ELSE /\ tu_prev' = [tu_prev EXCEPT ![self] = tu_seen'[self]]
                                                            /\ UNCHANGED << rv, 
                                                                            tu_done >>
                                      /\ pc' = [pc EXCEPT ![self] = "tu_cas"]
                                      /\ UNCHANGED << stack, dp_why >>
                           /\ UNCHANGED << tu_loc, tu_fn, tu_arg >>
                      ELSE /\ pc' = [pc EXCEPT ![self] = Head(stack[self]).pc]
                           /\ tu_prev' = [tu_prev EXCEPT ![self] = Head(stack[self]).tu_prev]
                           /\ tu_next' = [tu_next EXCEPT ![self] = Head(stack[self]).tu_next]
                           /\ tu_done' = [tu_done EXCEPT ![self] = Head(stack[self]).tu_done]
                           /\ tu_ok' = [tu_ok EXCEPT ![self] = Head(stack[self]).tu_ok]
                           /\ tu_seen' = [tu_seen EXCEPT ![self] = Head(stack[self]).tu_seen]
                           /\ tu_loc' = [tu_loc EXCEPT ![self] = Head(stack[self]).tu_loc]
                           /\ tu_fn' = [tu_fn EXCEPT ![self] = Head(stack[self]).tu_fn]
                           /\ tu_arg' = [tu_arg EXCEPT ![self] = Head(stack[self]).tu_arg]
                           /\ stack' = [stack EXCEPT ![self] = Tail(stack[self])]
                           /\ UNCHANGED << mem, rv, lastop, dp_why >>
                /\ UNCHANGED << held, results, inflight, panicked, hid, lg_row, 
                                lg_order, lg_tree, lg_off, lg_j, lg_i, lg_h, 
                                lg_found, lg_frame, lg_n, ca_h0, ca_num, 
                                ca_cur, ca_new, ca_i, ca_ok, ca_seen, ca_j, 
                                sf_h, sf_start, sf_order, sf_i, sf_r, sf_found, 
                                sf_off, sf_nrows, sf_c, sf_k, sf_v, sf_zero, 
                                sf_ok, sf_seen, sf_u, tg_h, tg_off, tg_order, 
                                tg_exp, tg_ok, tg_i, tg_n, tg_seen, tg_u, 
                                tg_r0, la_frame, la_order, la_h, ps_frame, 
                                ps_order, lp_frame, lp_order, lp_h, lp_old, 
                                lp_ok, lp_seen, lp_spin, lp_v, tp_t, tp_n, 
                                tu2_t, tu2_free, tu2_class, gl_order, gl_class, 
                                gl_local, gl_frame, gl_sync, gl_row, gl_res, 
                                gl_min, gl_got, sg_i, sg_class, sg_order, 
                                sg_frame, sg_c, rs_i, rs_order, rs_class, 
                                rs_local, rs_reserved, rs_free, rs_tc, 
                                rs_frame, rs_old, sb_n, sb_start, sb_offset, 
                                sb_len, sb_mode, sb_order, sb_class, sb_local, 
                                sb_i, sb_idx, sb_t, sb_p, sb_best, sb_done, 
                                sb_k, sl_class, sl_local, sl_order, sl_frame, 
                                sl_i, sl_tc, sl_j, sl_found, sl_row, sl_jj, 
                                dl_class, dl_local, dl_order, dl_frame, dl_i, 
                                dl_tc, dl_j, dl_found, dl_new, dl_old, dl_jj, 
                                dl_oldclass, ag_order, ag_class, ag_local, 
                                ag_frame, ag_len, ag_start, ag_near, ag_done, 
                                ap_frame, ap_order, ap_class, ap_local, ad_c, 
                                ad_k, ad_old, cg_t, cg_mclass, cg_mfree, 
                                cg_cclass, cg_cop, cg_prev, cg_done, 
                                cg_fetched, cg_h, cg_v, cg_next, cg_ok, 
                                cg_seen, ac_id, ac_mclass, ac_mfree, ac_cclass, 
                                ac_cop, ac_i, ac_done, pcx, cur, blk >>

try_update(self) == tu_load(self) \/ tu_cas(self)

lg_start(self) == /\ pc[self] = "lg_start"
                  /\ lg_tree' = [lg_tree EXCEPT ![self] = TreeOfRow(lg_row[self])]
                  /\ lg_off' = [lg_off EXCEPT ![self] = HugeOfRow(lg_row[self]) % TH]
                  /\ lg_j' = [lg_j EXCEPT ![self] = 0]
                  /\ lg_found' = [lg_found EXCEPT ![self] = FALSE]
                  /\ IF lg_order[self] >= HO
                        THEN /\ lg_n' = [lg_n EXCEPT ![self] = P2(lg_order[self] - HO)]
                             /\ pc' = [pc EXCEPT ![self] = "lg_huge"]
                        ELSE /\ pc' = [pc EXCEPT ![self] = "lg_small"]
                             /\ lg_n' = lg_n
                  /\ UNCHANGED << mem, held, results, inflight, rv, panicked, 
                                  hid, lastop, stack, dp_why, tu_loc, tu_fn, 
                                  tu_arg, tu_prev, tu_next, tu_done, tu_ok, 
                                  tu_seen, lg_row, lg_order, lg_i, lg_h, 
                                  lg_frame, ca_h0, ca_num, ca_cur, ca_new, 
                                  ca_i, ca_ok, ca_seen, ca_j, sf_h, sf_start, 
                                  sf_order, sf_i, sf_r, sf_found, sf_off, 
                                  sf_nrows, sf_c, sf_k, sf_v, sf_zero, sf_ok, 
                                  sf_seen, sf_u, tg_h, tg_off, tg_order, 
                                  tg_exp, tg_ok, tg_i, tg_n, tg_seen, tg_u, 
                                  tg_r0, la_frame, la_order, la_h, ps_frame, 
                                  ps_order, lp_frame, lp_order, lp_h, lp_old, 
                                  lp_ok, lp_seen, lp_spin, lp_v, tp_t, tp_n, 
                                  tu2_t, tu2_free, tu2_class, gl_order, 
                                  gl_class, gl_local, gl_frame, gl_sync, 
                                  gl_row, gl_res, gl_min, gl_got, sg_i, 
                                  sg_class, sg_order, sg_frame, sg_c, rs_i, 
                                  rs_order, rs_class, rs_local, rs_reserved, 
                                  rs_free, rs_tc, rs_frame, rs_old, sb_n, 
                                  sb_start, sb_offset, sb_len, sb_mode, 
                                  sb_order, sb_class, sb_local, sb_i, sb_idx, 
                                  sb_t, sb_p, sb_best, sb_done, sb_k, sl_class, 
                                  sl_local, sl_order, sl_frame, sl_i, sl_tc, 
                                  sl_j, sl_found, sl_row, sl_jj, dl_class, 
                                  dl_local, dl_order, dl_frame, dl_i, dl_tc, 
                                  dl_j, dl_found, dl_new, dl_old, dl_jj, 
                                  dl_oldclass, ag_order, ag_class, ag_local, 
                                  ag_frame, ag_len, ag_start, ag_near, ag_done, 
                                  ap_frame, ap_order, ap_class, ap_local, ad_c, 
                                  ad_k, ad_old, cg_t, cg_mclass, cg_mfree, 
                                  cg_cclass, cg_cop, cg_prev, cg_done, 
                                  cg_fetched, cg_h, cg_v, cg_next, cg_ok, 
                                  cg_seen, ac_id, ac_mclass, ac_mfree, 
                                  ac_cclass, ac_cop, ac_i, ac_done, pcx, cur, 
                                  blk >>

lg_huge(self) == /\ pc[self] = "lg_huge"
                 /\ IF lg_j[self] < TH /\ ~lg_found[self]
                       THEN /\ lg_i' = [lg_i EXCEPT ![self] = (AlignDown(lg_off[self], lg_n[self]) + lg_j[self]) % TH]
                            /\ /\ ca_cur' = [ca_cur EXCEPT ![self] = LEN]
                               /\ ca_h0' = [ca_h0 EXCEPT ![self] = lg_tree[self] * TH + lg_i'[self]]
                               /\ ca_new' = [ca_new EXCEPT ![self] = HUGE]
                               /\ ca_num' = [ca_num EXCEPT ![self] = lg_n[self]]
                               /\ stack' = [stack EXCEPT ![self] = << [ procedure |->  "cmpxchg_all",
                                                                        pc        |->  "lg_huge_r",
                                                                        ca_i      |->  ca_i[self],
                                                                        ca_ok     |->  ca_ok[self],
                                                                        ca_seen   |->  ca_seen[self],
                                                                        ca_j      |->  ca_j[self],
                                                                        ca_h0     |->  ca_h0[self],
                                                                        ca_num    |->  ca_num[self],
                                                                        ca_cur    |->  ca_cur[self],
                                                                        ca_new    |->  ca_new[self] ] >>
                                                                    \o stack[self]]
                            /\ ca_i' = [ca_i EXCEPT ![self] = 0]
                            /\ ca_ok' = [ca_ok EXCEPT ![self] = TRUE]
                            /\ ca_seen' = [ca_seen EXCEPT ![self] = 0]
                            /\ ca_j' = [ca_j EXCEPT ![self] = 0]
                            /\ pc' = [pc EXCEPT ![self] = "ca_start"]
                       ELSE /\ pc' = [pc EXCEPT ![self] = "lg_ret"]
                            /\ UNCHANGED << stack, lg_i, ca_h0, ca_num, ca_cur, 
                                            ca_new, ca_i, ca_ok, ca_seen, ca_j >>
                 /\ UNCHANGED << mem, held, results, inflight, rv, panicked, 
                                 hid, lastop, dp_why, tu_loc, tu_fn, tu_arg, 
                                 tu_prev, tu_next, tu_done, tu_ok, tu_seen, 
                                 lg_row, lg_order, lg_tree, lg_off, lg_j, lg_h, 
                                 lg_found, lg_frame, lg_n, sf_h, sf_start, 
                                 sf_order, sf_i, sf_r, sf_found, sf_off, 
                                 sf_nrows, sf_c, sf_k, sf_v, sf_zero, sf_ok, 
                                 sf_seen, sf_u, tg_h, tg_off, tg_order, tg_exp, 
                                 tg_ok, tg_i, tg_n, tg_seen, tg_u, tg_r0, 
                                 la_frame, la_order, la_h, ps_frame, ps_order, 
                                 lp_frame, lp_order, lp_h, lp_old, lp_ok, 
                                 lp_seen, lp_spin, lp_v, tp_t, tp_n, tu2_t, 
                                 tu2_free, tu2_class, gl_order, gl_class, 
                                 gl_local, gl_frame, gl_sync, gl_row, gl_res, 
                                 gl_min, gl_got, sg_i, sg_class, sg_order, 
                                 sg_frame, sg_c, rs_i, rs_order, rs_class, 
                                 rs_local, rs_reserved, rs_free, rs_tc, 
                                 rs_frame, rs_old, sb_n, sb_start, sb_offset, 
                                 sb_len, sb_mode, sb_order, sb_class, sb_local, 
                                 sb_i, sb_idx, sb_t, sb_p, sb_best, sb_done, 
                                 sb_k, sl_class, sl_local, sl_order, sl_frame, 
                                 sl_i, sl_tc, sl_j, sl_found, sl_row, sl_jj, 
                                 dl_class, dl_local, dl_order, dl_frame, dl_i, 
                                 dl_tc, dl_j, dl_found, dl_new, dl_old, dl_jj, 
                                 dl_oldclass, ag_order, ag_class, ag_local, 
                                 ag_frame, ag_len, ag_start, ag_near, ag_done, 
                                 ap_frame, ap_order, ap_class, ap_local, ad_c, 
                                 ad_k, ad_old, cg_t, cg_mclass, cg_mfree, 
                                 cg_cclass, cg_cop, cg_prev, cg_done, 
                                 cg_fetched, cg_h, cg_v, cg_next, cg_ok, 
                                 cg_seen, ac_id, ac_mclass, ac_mfree, 
                                 ac_cclass, ac_cop, ac_i, ac_done, pcx, cur, 
                                 blk >>

lg_huge_r(self) == /\ pc[self] = "lg_huge_r"
                   /\ IF rv[self].ok
                         THEN /\ lg_found' = [lg_found EXCEPT ![self] = TRUE]
                              /\ lg_frame' = [lg_frame EXCEPT ![self] = (lg_tree[self] * TH + lg_i[self]) * HF]
                              /\ lg_j' = lg_j
                         ELSE /\ lg_j' = [lg_j EXCEPT ![self] = lg_j[self] + lg_n[self]]
                              /\ UNCHANGED << lg_found, lg_frame >>
                   /\ pc' = [pc EXCEPT ![self] = "lg_huge"]
                   /\ UNCHANGED << mem, held, results, inflight, rv, panicked, 
                                   hid, lastop, stack, dp_why, tu_loc, tu_fn, 
                                   tu_arg, tu_prev, tu_next, tu_done, tu_ok, 
                                   tu_seen, lg_row, lg_order, lg_tree, lg_off, 
                                   lg_i, lg_h, lg_n, ca_h0, ca_num, ca_cur, 
                                   ca_new, ca_i, ca_ok, ca_seen, ca_j, sf_h, 
                                   sf_start, sf_order, sf_i, sf_r, sf_found, 
                                   sf_off, sf_nrows, sf_c, sf_k, sf_v, sf_zero, 
                                   sf_ok, sf_seen, sf_u, tg_h, tg_off, 
                                   tg_order, tg_exp, tg_ok, tg_i, tg_n, 
                                   tg_seen, tg_u, tg_r0, la_frame, la_order, 
                                   la_h, ps_frame, ps_order, lp_frame, 
                                   lp_order, lp_h, lp_old, lp_ok, lp_seen, 
                                   lp_spin, lp_v, tp_t, tp_n, tu2_t, tu2_free, 
                                   tu2_class, gl_order, gl_class, gl_local, 
                                   gl_frame, gl_sync, gl_row, gl_res, gl_min, 
                                   gl_got, sg_i, sg_class, sg_order, sg_frame, 
                                   sg_c, rs_i, rs_order, rs_class, rs_local, 
                                   rs_reserved, rs_free, rs_tc, rs_frame, 
                                   rs_old, sb_n, sb_start, sb_offset, sb_len, 
                                   sb_mode, sb_order, sb_class, sb_local, sb_i, 
                                   sb_idx, sb_t, sb_p, sb_best, sb_done, sb_k, 
                                   sl_class, sl_local, sl_order, sl_frame, 
                                   sl_i, sl_tc, sl_j, sl_found, sl_row, sl_jj, 
                                   dl_class, dl_local, dl_order, dl_frame, 
                                   dl_i, dl_tc, dl_j, dl_found, dl_new, dl_old, 
                                   dl_jj, dl_oldclass, ag_order, ag_class, 
                                   ag_local, ag_frame, ag_len, ag_start, 
                                   ag_near, ag_done, ap_frame, ap_order, 
                                   ap_class, ap_local, ad_c, ad_k, ad_old, 
                                   cg_t, cg_mclass, cg_mfree, cg_cclass, 
                                   cg_cop, cg_prev, cg_done, cg_fetched, cg_h, 
                                   cg_v, cg_next, cg_ok, cg_seen, ac_id, 
                                   ac_mclass, ac_mfree, ac_cclass, ac_cop, 
                                   ac_i, ac_done, pcx, cur, blk >>

lg_small(self) == /\ pc[self] = "lg_small"
                  /\ IF lg_j[self] < TH /\ ~lg_found[self]
                        THEN /\ lg_i' = [lg_i EXCEPT ![self] = (lg_off[self] + lg_j[self]) % TH]
                             /\ lg_h' = [lg_h EXCEPT ![self] = lg_tree[self] * TH + lg_i'[self]]
                             /\ /\ stack' = [stack EXCEPT ![self] = << [ procedure |->  "try_update",
                                                                         pc        |->  "lg_small_r",
                                                                         tu_prev   |->  tu_prev[self],
                                                                         tu_next   |->  tu_next[self],
                                                                         tu_done   |->  tu_done[self],
                                                                         tu_ok     |->  tu_ok[self],
                                                                         tu_seen   |->  tu_seen[self],
                                                                         tu_loc    |->  tu_loc[self],
                                                                         tu_fn     |->  tu_fn[self],
                                                                         tu_arg    |->  tu_arg[self] ] >>
                                                                     \o stack[self]]
                                /\ tu_arg' = [tu_arg EXCEPT ![self] = P2(lg_order[self])]
                                /\ tu_fn' = [tu_fn EXCEPT ![self] = "edec"]
                                /\ tu_loc' = [tu_loc EXCEPT ![self] = Entry(lg_h'[self])]
                             /\ tu_prev' = [tu_prev EXCEPT ![self] = 0]
                             /\ tu_next' = [tu_next EXCEPT ![self] = <<>>]
                             /\ tu_done' = [tu_done EXCEPT ![self] = FALSE]
                             /\ tu_ok' = [tu_ok EXCEPT ![self] = FALSE]
                             /\ tu_seen' = [tu_seen EXCEPT ![self] = 0]
                             /\ pc' = [pc EXCEPT ![self] = "tu_load"]
                        ELSE /\ pc' = [pc EXCEPT ![self] = "lg_ret"]
                             /\ UNCHANGED << stack, tu_loc, tu_fn, tu_arg, 
                                             tu_prev, tu_next, tu_done, tu_ok, 
                                             tu_seen, lg_i, lg_h >>
                  /\ UNCHANGED << mem, held, results, inflight, rv, panicked, 
                                  hid, lastop, dp_why, lg_row, lg_order, 
                                  lg_tree, lg_off, lg_j, lg_found, lg_frame, 
                                  lg_n, ca_h0, ca_num, ca_cur, ca_new, ca_i, 
                                  ca_ok, ca_seen, ca_j, sf_h, sf_start, 
                                  sf_order, sf_i, sf_r, sf_found, sf_off, 
                                  sf_nrows, sf_c, sf_k, sf_v, sf_zero, sf_ok, 
                                  sf_seen, sf_u, tg_h, tg_off, tg_order, 
                                  tg_exp, tg_ok, tg_i, tg_n, tg_seen, tg_u, 
                                  tg_r0, la_frame, la_order, la_h, ps_frame, 
                                  ps_order, lp_frame, lp_order, lp_h, lp_old, 
                                  lp_ok, lp_seen, lp_spin, lp_v, tp_t, tp_n, 
                                  tu2_t, tu2_free, tu2_class, gl_order, 
                                  gl_class, gl_local, gl_frame, gl_sync, 
                                  gl_row, gl_res, gl_min, gl_got, sg_i, 
                                  sg_class, sg_order, sg_frame, sg_c, rs_i, 
                                  rs_order, rs_class, rs_local, rs_reserved, 
                                  rs_free, rs_tc, rs_frame, rs_old, sb_n, 
                                  sb_start, sb_offset, sb_len, sb_mode, 
                                  sb_order, sb_class, sb_local, sb_i, sb_idx, 
                                  sb_t, sb_p, sb_best, sb_done, sb_k, sl_class, 
                                  sl_local, sl_order, sl_frame, sl_i, sl_tc, 
                                  sl_j, sl_found, sl_row, sl_jj, dl_class, 
                                  dl_local, dl_order, dl_frame, dl_i, dl_tc, 
                                  dl_j, dl_found, dl_new, dl_old, dl_jj, 
                                  dl_oldclass, ag_order, ag_class, ag_local, 
                                  ag_frame, ag_len, ag_start, ag_near, ag_done, 
                                  ap_frame, ap_order, ap_class, ap_local, ad_c, 
                                  ad_k, ad_old, cg_t, cg_mclass, cg_mfree, 
                                  cg_cclass, cg_cop, cg_prev, cg_done, 
                                  cg_fetched, cg_h, cg_v, cg_next, cg_ok, 
                                  cg_seen, ac_id, ac_mclass, ac_mfree, 
                                  ac_cclass, ac_cop, ac_i, ac_done, pcx, cur, 
                                  blk >>

lg_small_r(self) == /\ pc[self] = "lg_small_r"
                    /\ IF rv[self].ok
                          THEN /\ /\ sf_h' = [sf_h EXCEPT ![self] = lg_h[self]]
                                  /\ sf_order' = [sf_order EXCEPT ![self] = lg_order[self]]
                                  /\ sf_start' = [sf_start EXCEPT ![self] = RowIdx(lg_row[self])]
                                  /\ stack' = [stack EXCEPT ![self] = << [ procedure |->  "set_first_zeros",
                                                                           pc        |->  "lg_small_s",
                                                                           sf_i      |->  sf_i[self],
                                                                           sf_r      |->  sf_r[self],
                                                                           sf_found  |->  sf_found[self],
                                                                           sf_off    |->  sf_off[self],
                                                                           sf_nrows  |->  sf_nrows[self],
                                                                           sf_c      |->  sf_c[self],
                                                                           sf_k      |->  sf_k[self],
                                                                           sf_v      |->  sf_v[self],
                                                                           sf_zero   |->  sf_zero[self],
                                                                           sf_ok     |->  sf_ok[self],
                                                                           sf_seen   |->  sf_seen[self],
                                                                           sf_u      |->  sf_u[self],
                                                                           sf_h      |->  sf_h[self],
                                                                           sf_start  |->  sf_start[self],
                                                                           sf_order  |->  sf_order[self] ] >>
                                                                       \o stack[self]]
                               /\ sf_i' = [sf_i EXCEPT ![self] = 0]
                               /\ sf_r' = [sf_r EXCEPT ![self] = 0]
                               /\ sf_found' = [sf_found EXCEPT ![self] = FALSE]
                               /\ sf_off' = [sf_off EXCEPT ![self] = 0]
                               /\ sf_nrows' = [sf_nrows EXCEPT ![self] = 0]
                               /\ sf_c' = [sf_c EXCEPT ![self] = 0]
                               /\ sf_k' = [sf_k EXCEPT ![self] = 0]
                               /\ sf_v' = [sf_v EXCEPT ![self] = {}]
                               /\ sf_zero' = [sf_zero EXCEPT ![self] = TRUE]
                               /\ sf_ok' = [sf_ok EXCEPT ![self] = FALSE]
                               /\ sf_seen' = [sf_seen EXCEPT ![self] = {}]
                               /\ sf_u' = [sf_u EXCEPT ![self] = 0]
                               /\ pc' = [pc EXCEPT ![self] = "sf_begin"]
                               /\ lg_j' = lg_j
                          ELSE /\ lg_j' = [lg_j EXCEPT ![self] = lg_j[self] + 1]
                               /\ pc' = [pc EXCEPT ![self] = "lg_small"]
                               /\ UNCHANGED << stack, sf_h, sf_start, sf_order, 
                                               sf_i, sf_r, sf_found, sf_off, 
                                               sf_nrows, sf_c, sf_k, sf_v, 
                                               sf_zero, sf_ok, sf_seen, sf_u >>
                    /\ UNCHANGED << mem, held, results, inflight, rv, panicked, 
                                    hid, lastop, dp_why, tu_loc, tu_fn, tu_arg, 
                                    tu_prev, tu_next, tu_done, tu_ok, tu_seen, 
                                    lg_row, lg_order, lg_tree, lg_off, lg_i, 
                                    lg_h, lg_found, lg_frame, lg_n, ca_h0, 
                                    ca_num, ca_cur, ca_new, ca_i, ca_ok, 
                                    ca_seen, ca_j, tg_h, tg_off, tg_order, 
                                    tg_exp, tg_ok, tg_i, tg_n, tg_seen, tg_u, 
                                    tg_r0, la_frame, la_order, la_h, ps_frame, 
                                    ps_order, lp_frame, lp_order, lp_h, lp_old, 
                                    lp_ok, lp_seen, lp_spin, lp_v, tp_t, tp_n, 
                                    tu2_t, tu2_free, tu2_class, gl_order, 
                                    gl_class, gl_local, gl_frame, gl_sync, 
                                    gl_row, gl_res, gl_min, gl_got, sg_i, 
                                    sg_class, sg_order, sg_frame, sg_c, rs_i, 
                                    rs_order, rs_class, rs_local, rs_reserved, 
                                    rs_free, rs_tc, rs_frame, rs_old, sb_n, 
                                    sb_start, sb_offset, sb_len, sb_mode, 
                                    sb_order, sb_class, sb_local, sb_i, sb_idx, 
                                    sb_t, sb_p, sb_best, sb_done, sb_k, 
                                    sl_class, sl_local, sl_order, sl_frame, 
                                    sl_i, sl_tc, sl_j, sl_found, sl_row, sl_jj, 
                                    dl_class, dl_local, dl_order, dl_frame, 
                                    dl_i, dl_tc, dl_j, dl_found, dl_new, 
                                    dl_old, dl_jj, dl_oldclass, ag_order, 
                                    ag_class, ag_local, ag_frame, ag_len, 
                                    ag_start, ag_near, ag_done, ap_frame, 
                                    ap_order, ap_class, ap_local, ad_c, ad_k, 
                                    ad_old, cg_t, cg_mclass, cg_mfree, 
                                    cg_cclass, cg_cop, cg_prev, cg_done, 
                                    cg_fetched, cg_h, cg_v, cg_next, cg_ok, 
                                    cg_seen, ac_id, ac_mclass, ac_mfree, 
                                    ac_cclass, ac_cop, ac_i, ac_done, pcx, cur, 
                                    blk >>

lg_small_s(self) == /\ pc[self] = "lg_small_s"
                    /\ IF rv[self].ok
                          THEN /\ lg_found' = [lg_found EXCEPT ![self] = TRUE]
                               /\ lg_frame' = [lg_frame EXCEPT ![self] = lg_h[self] * HF + rv[self].off]
                               /\ pc' = [pc EXCEPT ![self] = "lg_small"]
                               /\ UNCHANGED << stack, tu_loc, tu_fn, tu_arg, 
                                               tu_prev, tu_next, tu_done, 
                                               tu_ok, tu_seen >>
                          ELSE /\ /\ stack' = [stack EXCEPT ![self] = << [ procedure |->  "try_update",
                                                                           pc        |->  "lg_small_u",
                                                                           tu_prev   |->  tu_prev[self],
                                                                           tu_next   |->  tu_next[self],
                                                                           tu_done   |->  tu_done[self],
                                                                           tu_ok     |->  tu_ok[self],
                                                                           tu_seen   |->  tu_seen[self],
                                                                           tu_loc    |->  tu_loc[self],
                                                                           tu_fn     |->  tu_fn[self],
                                                                           tu_arg    |->  tu_arg[self] ] >>
                                                                       \o stack[self]]
                                  /\ tu_arg' = [tu_arg EXCEPT ![self] = P2(lg_order[self])]
                                  /\ tu_fn' = [tu_fn EXCEPT ![self] = "einc"]
                                  /\ tu_loc' = [tu_loc EXCEPT ![self] = Entry(lg_h[self])]
                               /\ tu_prev' = [tu_prev EXCEPT ![self] = 0]
                               /\ tu_next' = [tu_next EXCEPT ![self] = <<>>]
                               /\ tu_done' = [tu_done EXCEPT ![self] = FALSE]
                               /\ tu_ok' = [tu_ok EXCEPT ![self] = FALSE]
                               /\ tu_seen' = [tu_seen EXCEPT ![self] = 0]
                               /\ pc' = [pc EXCEPT ![self] = "tu_load"]
                               /\ UNCHANGED << lg_found, lg_frame >>
                    /\ UNCHANGED << mem, held, results, inflight, rv, panicked, 
                                    hid, lastop, dp_why, lg_row, lg_order, 
                                    lg_tree, lg_off, lg_j, lg_i, lg_h, lg_n, 
                                    ca_h0, ca_num, ca_cur, ca_new, ca_i, ca_ok, 
                                    ca_seen, ca_j, sf_h, sf_start, sf_order, 
                                    sf_i, sf_r, sf_found, sf_off, sf_nrows, 
                                    sf_c, sf_k, sf_v, sf_zero, sf_ok, sf_seen, 
                                    sf_u, tg_h, tg_off, tg_order, tg_exp, 
                                    tg_ok, tg_i, tg_n, tg_seen, tg_u, tg_r0, 
                                    la_frame, la_order, la_h, ps_frame, 
                                    ps_order, lp_frame, lp_order, lp_h, lp_old, 
                                    lp_ok, lp_seen, lp_spin, lp_v, tp_t, tp_n, 
                                    tu2_t, tu2_free, tu2_class, gl_order, 
                                    gl_class, gl_local, gl_frame, gl_sync, 
                                    gl_row, gl_res, gl_min, gl_got, sg_i, 
                                    sg_class, sg_order, sg_frame, sg_c, rs_i, 
                                    rs_order, rs_class, rs_local, rs_reserved, 
                                    rs_free, rs_tc, rs_frame, rs_old, sb_n, 
                                    sb_start, sb_offset, sb_len, sb_mode, 
                                    sb_order, sb_class, sb_local, sb_i, sb_idx, 
                                    sb_t, sb_p, sb_best, sb_done, sb_k, 
                                    sl_class, sl_local, sl_order, sl_frame, 
                                    sl_i, sl_tc, sl_j, sl_found, sl_row, sl_jj, 
                                    dl_class, dl_local, dl_order, dl_frame, 
                                    dl_i, dl_tc, dl_j, dl_found, dl_new, 
                                    dl_old, dl_jj, dl_oldclass, ag_order, 
                                    ag_class, ag_local, ag_frame, ag_len, 
                                    ag_start, ag_near, ag_done, ap_frame, 
                                    ap_order, ap_class, ap_local, ad_c, ad_k, 
                                    ad_old, cg_t, cg_mclass, cg_mfree, 
                                    cg_cclass, cg_cop, cg_prev, cg_done, 
                                    cg_fetched, cg_h, cg_v, cg_next, cg_ok, 
                                    cg_seen, ac_id, ac_mclass, ac_mfree, 
                                    ac_cclass, ac_cop, ac_i, ac_done, pcx, cur, 
                                    blk >>

lg_small_u(self) == /\ pc[self] = "lg_small_u"
                    /\ IF ~rv[self].ok
                          THEN /\ /\ dp_why' = [dp_why EXCEPT ![self] = "assertion"]
                                  /\ stack' = [stack EXCEPT ![self] = << [ procedure |->  "do_panic",
                                                                           pc        |->  "lg_small",
                                                                           dp_why    |->  dp_why[self] ] >>
                                                                       \o stack[self]]
                               /\ pc' = [pc EXCEPT ![self] = "dp_flag"]
                               /\ lg_j' = lg_j
                          ELSE /\ lg_j' = [lg_j EXCEPT ![self] = lg_j[self] + 1]
                               /\ pc' = [pc EXCEPT ![self] = "lg_small"]
                               /\ UNCHANGED << stack, dp_why >>
                    /\ UNCHANGED << mem, held, results, inflight, rv, panicked, 
                                    hid, lastop, tu_loc, tu_fn, tu_arg, 
                                    tu_prev, tu_next, tu_done, tu_ok, tu_seen, 
                                    lg_row, lg_order, lg_tree, lg_off, lg_i, 
                                    lg_h, lg_found, lg_frame, lg_n, ca_h0, 
                                    ca_num, ca_cur, ca_new, ca_i, ca_ok, 
                                    ca_seen, ca_j, sf_h, sf_start, sf_order, 
                                    sf_i, sf_r, sf_found, sf_off, sf_nrows, 
                                    sf_c, sf_k, sf_v, sf_zero, sf_ok, sf_seen, 
                                    sf_u, tg_h, tg_off, tg_order, tg_exp, 
                                    tg_ok, tg_i, tg_n, tg_seen, tg_u, tg_r0, 
                                    la_frame, la_order, la_h, ps_frame, 
                                    ps_order, lp_frame, lp_order, lp_h, lp_old, 
                                    lp_ok, lp_seen, lp_spin, lp_v, tp_t, tp_n, 
                                    tu2_t, tu2_free, tu2_class, gl_order, 
                                    gl_class, gl_local, gl_frame, gl_sync, 
                                    gl_row, gl_res, gl_min, gl_got, sg_i, 
                                    sg_class, sg_order, sg_frame, sg_c, rs_i, 
                                    rs_order, rs_class, rs_local, rs_reserved, 
                                    rs_free, rs_tc, rs_frame, rs_old, sb_n, 
                                    sb_start, sb_offset, sb_len, sb_mode, 
                                    sb_order, sb_class, sb_local, sb_i, sb_idx, 
                                    sb_t, sb_p, sb_best, sb_done, sb_k, 
                                    sl_class, sl_local, sl_order, sl_frame, 
                                    sl_i, sl_tc, sl_j, sl_found, sl_row, sl_jj, 
                                    dl_class, dl_local, dl_order, dl_frame, 
                                    dl_i, dl_tc, dl_j, dl_found, dl_new, 
                                    dl_old, dl_jj, dl_oldclass, ag_order, 
                                    ag_class, ag_local, ag_frame, ag_len, 
                                    ag_start, ag_near, ag_done, ap_frame, 
                                    ap_order, ap_class, ap_local, ad_c, ad_k, 
                                    ad_old, cg_t, cg_mclass, cg_mfree, 
                                    cg_cclass, cg_cop, cg_prev, cg_done, 
                                    cg_fetched, cg_h, cg_v, cg_next, cg_ok, 
                                    cg_seen, ac_id, ac_mclass, ac_mfree, 
                                    ac_cclass, ac_cop, ac_i, ac_done, pcx, cur, 
                                    blk >>

lg_ret(self) == /\ pc[self] = "lg_ret"
                /\ rv' = [rv EXCEPT ![self] = [ok |-> lg_found[self], frame |-> lg_frame[self], err |-> "mem"]]
                /\ pc' = [pc EXCEPT ![self] = Head(stack[self]).pc]
                /\ lg_tree' = [lg_tree EXCEPT ![self] = Head(stack[self]).lg_tree]
                /\ lg_off' = [lg_off EXCEPT ![self] = Head(stack[self]).lg_off]
                /\ lg_j' = [lg_j EXCEPT ![self] = Head(stack[self]).lg_j]
                /\ lg_i' = [lg_i EXCEPT ![self] = Head(stack[self]).lg_i]
                /\ lg_h' = [lg_h EXCEPT ![self] = Head(stack[self]).lg_h]
                /\ lg_found' = [lg_found EXCEPT ![self] = Head(stack[self]).lg_found]
                /\ lg_frame' = [lg_frame EXCEPT ![self] = Head(stack[self]).lg_frame]
                /\ lg_n' = [lg_n EXCEPT ![self] = Head(stack[self]).lg_n]
                /\ lg_row' = [lg_row EXCEPT ![self] = Head(stack[self]).lg_row]
                /\ lg_order' = [lg_order EXCEPT ![self] = Head(stack[self]).lg_order]
                /\ stack' = [stack EXCEPT ![self] = Tail(stack[self])]
                /\ UNCHANGED << mem, held, results, inflight, panicked, hid, 
                                lastop, dp_why, tu_loc, tu_fn, tu_arg, tu_prev, 
                                tu_next, tu_done, tu_ok, tu_seen, ca_h0, 
                                ca_num, ca_cur, ca_new, ca_i, ca_ok, ca_seen, 
                                ca_j, sf_h, sf_start, sf_order, sf_i, sf_r, 
                                sf_found, sf_off, sf_nrows, sf_c, sf_k, sf_v, 
                                sf_zero, sf_ok, sf_seen, sf_u, tg_h, tg_off, 
                                tg_order, tg_exp, tg_ok, tg_i, tg_n, tg_seen, 
                                tg_u, tg_r0, la_frame, la_order, la_h, 
                                ps_frame, ps_order, lp_frame, lp_order, lp_h, 
                                lp_old, lp_ok, lp_seen, lp_spin, lp_v, tp_t, 
                                tp_n, tu2_t, tu2_free, tu2_class, gl_order, 
                                gl_class, gl_local, gl_frame, gl_sync, gl_row, 
                                gl_res, gl_min, gl_got, sg_i, sg_class, 
                                sg_order, sg_frame, sg_c, rs_i, rs_order, 
                                rs_class, rs_local, rs_reserved, rs_free, 
                                rs_tc, rs_frame, rs_old, sb_n, sb_start, 
                                sb_offset, sb_len, sb_mode, sb_order, sb_class, 
                                sb_local, sb_i, sb_idx, sb_t, sb_p, sb_best, 
                                sb_done, sb_k, sl_class, sl_local, sl_order, 
                                sl_frame, sl_i, sl_tc, sl_j, sl_found, sl_row, 
                                sl_jj, dl_class, dl_local, dl_order, dl_frame, 
                                dl_i, dl_tc, dl_j, dl_found, dl_new, dl_old, 
                                dl_jj, dl_oldclass, ag_order, ag_class, 
                                ag_local, ag_frame, ag_len, ag_start, ag_near, 
                                ag_done, ap_frame, ap_order, ap_class, 
                                ap_local, ad_c, ad_k, ad_old, cg_t, cg_mclass, 
                                cg_mfree, cg_cclass, cg_cop, cg_prev, cg_done, 
                                cg_fetched, cg_h, cg_v, cg_next, cg_ok, 
                                cg_seen, ac_id, ac_mclass, ac_mfree, ac_cclass, 
                                ac_cop, ac_i, ac_done, pcx, cur, blk >>

lower_get(self) == lg_start(self) \/ lg_huge(self) \/ lg_huge_r(self)
                      \/ lg_small(self) \/ lg_small_r(self)
                      \/ lg_small_s(self) \/ lg_small_u(self)
                      \/ lg_ret(self)

ca_start(self) == /\ pc[self] = "ca_start"
                  /\ ca_i' = [ca_i EXCEPT ![self] = 0]
                  /\ ca_ok' = [ca_ok EXCEPT ![self] = TRUE]
                  /\ pc' = [pc EXCEPT ![self] = "ca_loop"]
                  /\ UNCHANGED << mem, held, results, inflight, rv, panicked, 
                                  hid, lastop, stack, dp_why, tu_loc, tu_fn, 
                                  tu_arg, tu_prev, tu_next, tu_done, tu_ok, 
                                  tu_seen, lg_row, lg_order, lg_tree, lg_off, 
                                  lg_j, lg_i, lg_h, lg_found, lg_frame, lg_n, 
                                  ca_h0, ca_num, ca_cur, ca_new, ca_seen, ca_j, 
                                  sf_h, sf_start, sf_order, sf_i, sf_r, 
                                  sf_found, sf_off, sf_nrows, sf_c, sf_k, sf_v, 
                                  sf_zero, sf_ok, sf_seen, sf_u, tg_h, tg_off, 
                                  tg_order, tg_exp, tg_ok, tg_i, tg_n, tg_seen, 
                                  tg_u, tg_r0, la_frame, la_order, la_h, 
                                  ps_frame, ps_order, lp_frame, lp_order, lp_h, 
                                  lp_old, lp_ok, lp_seen, lp_spin, lp_v, tp_t, 
                                  tp_n, tu2_t, tu2_free, tu2_class, gl_order, 
                                  gl_class, gl_local, gl_frame, gl_sync, 
                                  gl_row, gl_res, gl_min, gl_got, sg_i, 
                                  sg_class, sg_order, sg_frame, sg_c, rs_i, 
                                  rs_order, rs_class, rs_local, rs_reserved, 
                                  rs_free, rs_tc, rs_frame, rs_old, sb_n, 
                                  sb_start, sb_offset, sb_len, sb_mode, 
                                  sb_order, sb_class, sb_local, sb_i, sb_idx, 
                                  sb_t, sb_p, sb_best, sb_done, sb_k, sl_class, 
                                  sl_local, sl_order, sl_frame, sl_i, sl_tc, 
                                  sl_j, sl_found, sl_row, sl_jj, dl_class, 
                                  dl_local, dl_order, dl_frame, dl_i, dl_tc, 
                                  dl_j, dl_found, dl_new, dl_old, dl_jj, 
                                  dl_oldclass, ag_order, ag_class, ag_local, 
                                  ag_frame, ag_len, ag_start, ag_near, ag_done, 
                                  ap_frame, ap_order, ap_class, ap_local, ad_c, 
                                  ad_k, ad_old, cg_t, cg_mclass, cg_mfree, 
                                  cg_cclass, cg_cop, cg_prev, cg_done, 
                                  cg_fetched, cg_h, cg_v, cg_next, cg_ok, 
                                  cg_seen, ac_id, ac_mclass, ac_mfree, 
                                  ac_cclass, ac_cop, ac_i, ac_done, pcx, cur, 
                                  blk >>

ca_loop(self) == /\ pc[self] = "ca_loop"
                 /\ IF ca_i[self] < ca_num[self] /\ ca_ok[self]
                       THEN /\ IF mem[(Entry(ca_h0[self] + ca_i[self]))] = ca_cur[self]
                                  THEN /\ ca_ok' = [ca_ok EXCEPT ![self] = TRUE]
                                       /\ ca_seen' = [ca_seen EXCEPT ![self] = ca_cur[self]]
                                       /\ lastop' = [seq |-> lastop.seq + 1, t |-> self, k |-> "cas", loc |-> (Entry(ca_h0[self] + ca_i[self])), old |-> ca_cur[self], new |-> ca_new[self], ok |-> TRUE]
                                       /\ mem' = [mem EXCEPT ![(Entry(ca_h0[self] + ca_i[self]))] = ca_new[self]]
                                  ELSE /\ ca_ok' = [ca_ok EXCEPT ![self] = FALSE]
                                       /\ ca_seen' = [ca_seen EXCEPT ![self] = mem[(Entry(ca_h0[self] + ca_i[self]))]]
                                       /\ lastop' = [seq |-> lastop.seq + 1, t |-> self, k |-> "cas", loc |-> (Entry(ca_h0[self] + ca_i[self])), old |-> mem[(Entry(ca_h0[self] + ca_i[self]))], new |-> ca_new[self], ok |-> FALSE]
                                       /\ mem' = mem
                            /\ IF ca_ok'[self]
                                  THEN /\ ca_i' = [ca_i EXCEPT ![self] = ca_i[self] + 1]
                                  ELSE /\ TRUE
                                       /\ ca_i' = ca_i
                            /\ pc' = [pc EXCEPT ![self] = "ca_loop"]
                            /\ UNCHANGED << rv, stack, ca_h0, ca_num, ca_cur, 
                                            ca_new, ca_j >>
                       ELSE /\ IF ~ca_ok[self]
                                  THEN /\ ca_j' = [ca_j EXCEPT ![self] = ca_i[self] - 1]
                                       /\ pc' = [pc EXCEPT ![self] = "ca_undo"]
                                       /\ UNCHANGED << rv, stack, ca_h0, 
                                                       ca_num, ca_cur, ca_new, 
                                                       ca_i, ca_ok, ca_seen >>
                                  ELSE /\ rv' = [rv EXCEPT ![self] = [ok |-> TRUE]]
                                       /\ pc' = [pc EXCEPT ![self] = Head(stack[self]).pc]
                                       /\ ca_i' = [ca_i EXCEPT ![self] = Head(stack[self]).ca_i]
                                       /\ ca_ok' = [ca_ok EXCEPT ![self] = Head(stack[self]).ca_ok]
                                       /\ ca_seen' = [ca_seen EXCEPT ![self] = Head(stack[self]).ca_seen]
                                       /\ ca_j' = [ca_j EXCEPT ![self] = Head(stack[self]).ca_j]
                                       /\ ca_h0' = [ca_h0 EXCEPT ![self] = Head(stack[self]).ca_h0]
                                       /\ ca_num' = [ca_num EXCEPT ![self] = Head(stack[self]).ca_num]
                                       /\ ca_cur' = [ca_cur EXCEPT ![self] = Head(stack[self]).ca_cur]
                                       /\ ca_new' = [ca_new EXCEPT ![self] = Head(stack[self]).ca_new]
                                       /\ stack' = [stack EXCEPT ![self] = Tail(stack[self])]
                            /\ UNCHANGED << mem, lastop >>
                 /\ UNCHANGED << held, results, inflight, panicked, hid, 
                                 dp_why, tu_loc, tu_fn, tu_arg, tu_prev, 
                                 tu_next, tu_done, tu_ok, tu_seen, lg_row, 
                                 lg_order, lg_tree, lg_off, lg_j, lg_i, lg_h, 
                                 lg_found, lg_frame, lg_n, sf_h, sf_start, 
                                 sf_order, sf_i, sf_r, sf_found, sf_off, 
                                 sf_nrows, sf_c, sf_k, sf_v, sf_zero, sf_ok, 
                                 sf_seen, sf_u, tg_h, tg_off, tg_order, tg_exp, 
                                 tg_ok, tg_i, tg_n, tg_seen, tg_u, tg_r0, 
                                 la_frame, la_order, la_h, ps_frame, ps_order, 
                                 lp_frame, lp_order, lp_h, lp_old, lp_ok, 
                                 lp_seen, lp_spin, lp_v, tp_t, tp_n, tu2_t, 
                                 tu2_free, tu2_class, gl_order, gl_class, 
                                 gl_local, gl_frame, gl_sync, gl_row, gl_res, 
                                 gl_min, gl_got, sg_i, sg_class, sg_order, 
                                 sg_frame, sg_c, rs_i, rs_order, rs_class, 
                                 rs_local, rs_reserved, rs_free, rs_tc, 
                                 rs_frame, rs_old, sb_n, sb_start, sb_offset, 
                                 sb_len, sb_mode, sb_order, sb_class, sb_local, 
                                 sb_i, sb_idx, sb_t, sb_p, sb_best, sb_done, 
                                 sb_k, sl_class, sl_local, sl_order, sl_frame, 
                                 sl_i, sl_tc, sl_j, sl_found, sl_row, sl_jj, 
                                 dl_class, dl_local, dl_order, dl_frame, dl_i, 
                                 dl_tc, dl_j, dl_found, dl_new, dl_old, dl_jj, 
                                 dl_oldclass, ag_order, ag_class, ag_local, 
                                 ag_frame, ag_len, ag_start, ag_near, ag_done, 
                                 ap_frame, ap_order, ap_class, ap_local, ad_c, 
                                 ad_k, ad_old, cg_t, cg_mclass, cg_mfree, 
                                 cg_cclass, cg_cop, cg_prev, cg_done, 
                                 cg_fetched, cg_h, cg_v, cg_next, cg_ok, 
                                 cg_seen, ac_id, ac_mclass, ac_mfree, 
                                 ac_cclass, ac_cop, ac_i, ac_done, pcx, cur, 
                                 blk >>

ca_undo(self) == /\ pc[self] = "ca_undo"
                 /\ IF ca_j[self] >= 0
                       THEN /\ IF mem[(Entry(ca_h0[self] + ca_j[self]))] = ca_new[self]
                                  THEN /\ ca_ok' = [ca_ok EXCEPT ![self] = TRUE]
                                       /\ ca_seen' = [ca_seen EXCEPT ![self] = ca_new[self]]
                                       /\ lastop' = [seq |-> lastop.seq + 1, t |-> self, k |-> "cas", loc |-> (Entry(ca_h0[self] + ca_j[self])), old |-> ca_new[self], new |-> ca_cur[self], ok |-> TRUE]
                                       /\ mem' = [mem EXCEPT ![(Entry(ca_h0[self] + ca_j[self]))] = ca_cur[self]]
                                  ELSE /\ ca_ok' = [ca_ok EXCEPT ![self] = FALSE]
                                       /\ ca_seen' = [ca_seen EXCEPT ![self] = mem[(Entry(ca_h0[self] + ca_j[self]))]]
                                       /\ lastop' = [seq |-> lastop.seq + 1, t |-> self, k |-> "cas", loc |-> (Entry(ca_h0[self] + ca_j[self])), old |-> mem[(Entry(ca_h0[self] + ca_j[self]))], new |-> ca_cur[self], ok |-> FALSE]
                                       /\ mem' = mem
                            /\ IF ~ca_ok'[self]
                                  THEN /\ /\ dp_why' = [dp_why EXCEPT ![self] = "assertion"]
                                          /\ stack' = [stack EXCEPT ![self] = << [ procedure |->  "do_panic",
                                                                                   pc        |->  "ca_undo",
                                                                                   dp_why    |->  dp_why[self] ] >>
                                                                               \o stack[self]]
                                       /\ pc' = [pc EXCEPT ![self] = "dp_flag"]
                                       /\ ca_j' = ca_j
                                  ELSE /\ ca_j' = [ca_j EXCEPT ![self] = ca_j[self] - 1]
                                       /\ pc' = [pc EXCEPT ![self] = "ca_undo"]
                                       /\ UNCHANGED << stack, dp_why >>
                       ELSE /\ pc' = [pc EXCEPT ![self] = "ca_fail"]
                            /\ UNCHANGED << mem, lastop, stack, dp_why, ca_ok, 
                                            ca_seen, ca_j >>
                 /\ UNCHANGED << held, results, inflight, rv, panicked, hid, 
                                 tu_loc, tu_fn, tu_arg, tu_prev, tu_next, 
                                 tu_done, tu_ok, tu_seen, lg_row, lg_order, 
                                 lg_tree, lg_off, lg_j, lg_i, lg_h, lg_found, 
                                 lg_frame, lg_n, ca_h0, ca_num, ca_cur, ca_new, 
                                 ca_i, sf_h, sf_start, sf_order, sf_i, sf_r, 
                                 sf_found, sf_off, sf_nrows, sf_c, sf_k, sf_v, 
                                 sf_zero, sf_ok, sf_seen, sf_u, tg_h, tg_off, 
                                 tg_order, tg_exp, tg_ok, tg_i, tg_n, tg_seen, 
                                 tg_u, tg_r0, la_frame, la_order, la_h, 
                                 ps_frame, ps_order, lp_frame, lp_order, lp_h, 
                                 lp_old, lp_ok, lp_seen, lp_spin, lp_v, tp_t, 
                                 tp_n, tu2_t, tu2_free, tu2_class, gl_order, 
                                 gl_class, gl_local, gl_frame, gl_sync, gl_row, 
                                 gl_res, gl_min, gl_got, sg_i, sg_class, 
                                 sg_order, sg_frame, sg_c, rs_i, rs_order, 
                                 rs_class, rs_local, rs_reserved, rs_free, 
                                 rs_tc, rs_frame, rs_old, sb_n, sb_start, 
                                 sb_offset, sb_len, sb_mode, sb_order, 
                                 sb_class, sb_local, sb_i, sb_idx, sb_t, sb_p, 
                                 sb_best, sb_done, sb_k, sl_class, sl_local, 
                                 sl_order, sl_frame, sl_i, sl_tc, sl_j, 
                                 sl_found, sl_row, sl_jj, dl_class, dl_local, 
                                 dl_order, dl_frame, dl_i, dl_tc, dl_j, 
                                 dl_found, dl_new, dl_old, dl_jj, dl_oldclass, 
                                 ag_order, ag_class, ag_local, ag_frame, 
                                 ag_len, ag_start, ag_near, ag_done, ap_frame, 
                                 ap_order, ap_class, ap_local, ad_c, ad_k, 
                                 ad_old, cg_t, cg_mclass, cg_mfree, cg_cclass, 
                                 cg_cop, cg_prev, cg_done, cg_fetched, cg_h, 
                                 cg_v, cg_next, cg_ok, cg_seen, ac_id, 
                                 ac_mclass, ac_mfree, ac_cclass, ac_cop, ac_i, 
                                 ac_done, pcx, cur, blk >>

ca_fail(self) == /\ pc[self] = "ca_fail"
                 /\ rv' = [rv EXCEPT ![self] = [ok |-> FALSE]]
                 /\ pc' = [pc EXCEPT ![self] = Head(stack[self]).pc]
                 /\ ca_i' = [ca_i EXCEPT ![self] = Head(stack[self]).ca_i]
                 /\ ca_ok' = [ca_ok EXCEPT ![self] = Head(stack[self]).ca_ok]
                 /\ ca_seen' = [ca_seen EXCEPT ![self] = Head(stack[self]).ca_seen]
                 /\ ca_j' = [ca_j EXCEPT ![self] = Head(stack[self]).ca_j]
                 /\ ca_h0' = [ca_h0 EXCEPT ![self] = Head(stack[self]).ca_h0]
                 /\ ca_num' = [ca_num EXCEPT ![self] = Head(stack[self]).ca_num]
                 /\ ca_cur' = [ca_cur EXCEPT ![self] = Head(stack[self]).ca_cur]
                 /\ ca_new' = [ca_new EXCEPT ![self] = Head(stack[self]).ca_new]
                 /\ stack' = [stack EXCEPT ![self] = Tail(stack[self])]
                 /\ UNCHANGED << mem, held, results, inflight, panicked, hid, 
                                 lastop, dp_why, tu_loc, tu_fn, tu_arg, 
                                 tu_prev, tu_next, tu_done, tu_ok, tu_seen, 
                                 lg_row, lg_order, lg_tree, lg_off, lg_j, lg_i, 
                                 lg_h, lg_found, lg_frame, lg_n, sf_h, 
                                 sf_start, sf_order, sf_i, sf_r, sf_found, 
                                 sf_off, sf_nrows, sf_c, sf_k, sf_v, sf_zero, 
                                 sf_ok, sf_seen, sf_u, tg_h, tg_off, tg_order, 
                                 tg_exp, tg_ok, tg_i, tg_n, tg_seen, tg_u, 
                                 tg_r0, la_frame, la_order, la_h, ps_frame, 
                                 ps_order, lp_frame, lp_order, lp_h, lp_old, 
                                 lp_ok, lp_seen, lp_spin, lp_v, tp_t, tp_n, 
                                 tu2_t, tu2_free, tu2_class, gl_order, 
                                 gl_class, gl_local, gl_frame, gl_sync, gl_row, 
                                 gl_res, gl_min, gl_got, sg_i, sg_class, 
                                 sg_order, sg_frame, sg_c, rs_i, rs_order, 
                                 rs_class, rs_local, rs_reserved, rs_free, 
                                 rs_tc, rs_frame, rs_old, sb_n, sb_start, 
                                 sb_offset, sb_len, sb_mode, sb_order, 
                                 sb_class, sb_local, sb_i, sb_idx, sb_t, sb_p, 
                                 sb_best, sb_done, sb_k, sl_class, sl_local, 
                                 sl_order, sl_frame, sl_i, sl_tc, sl_j, 
                                 sl_found, sl_row, sl_jj, dl_class, dl_local, 
                                 dl_order, dl_frame, dl_i, dl_tc, dl_j, 
                                 dl_found, dl_new, dl_old, dl_jj, dl_oldclass, 
                                 ag_order, ag_class, ag_local, ag_frame, 
                                 ag_len, ag_start, ag_near, ag_done, ap_frame, 
                                 ap_order, ap_class, ap_local, ad_c, ad_k, 
                                 ad_old, cg_t, cg_mclass, cg_mfree, cg_cclass, 
                                 cg_cop, cg_prev, cg_done, cg_fetched, cg_h, 
                                 cg_v, cg_next, cg_ok, cg_seen, ac_id, 
                                 ac_mclass, ac_mfree, ac_cclass, ac_cop, ac_i, 
                                 ac_done, pcx, cur, blk >>

cmpxchg_all(self) == ca_start(self) \/ ca_loop(self) \/ ca_undo(self)
                        \/ ca_fail(self)

sf_begin(self) == /\ pc[self] = "sf_begin"
                  /\ sf_found' = [sf_found EXCEPT ![self] = FALSE]
                  /\ sf_i' = [sf_i EXCEPT ![self] = 0]
                  /\ IF sf_order[self] <= 6
                        THEN /\ pc' = [pc EXCEPT ![self] = "sf_rows"]
                             /\ UNCHANGED << sf_nrows, sf_c >>
                        ELSE /\ sf_nrows' = [sf_nrows EXCEPT ![self] = P2(sf_order[self] - 6)]
                             /\ sf_c' = [sf_c EXCEPT ![self] = 0]
                             /\ pc' = [pc EXCEPT ![self] = "sf_chunks"]
                  /\ UNCHANGED << mem, held, results, inflight, rv, panicked, 
                                  hid, lastop, stack, dp_why, tu_loc, tu_fn, 
                                  tu_arg, tu_prev, tu_next, tu_done, tu_ok, 
                                  tu_seen, lg_row, lg_order, lg_tree, lg_off, 
                                  lg_j, lg_i, lg_h, lg_found, lg_frame, lg_n, 
                                  ca_h0, ca_num, ca_cur, ca_new, ca_i, ca_ok, 
                                  ca_seen, ca_j, sf_h, sf_start, sf_order, 
                                  sf_r, sf_off, sf_k, sf_v, sf_zero, sf_ok, 
                                  sf_seen, sf_u, tg_h, tg_off, tg_order, 
                                  tg_exp, tg_ok, tg_i, tg_n, tg_seen, tg_u, 
                                  tg_r0, la_frame, la_order, la_h, ps_frame, 
                                  ps_order, lp_frame, lp_order, lp_h, lp_old, 
                                  lp_ok, lp_seen, lp_spin, lp_v, tp_t, tp_n, 
                                  tu2_t, tu2_free, tu2_class, gl_order, 
                                  gl_class, gl_local, gl_frame, gl_sync, 
                                  gl_row, gl_res, gl_min, gl_got, sg_i, 
                                  sg_class, sg_order, sg_frame, sg_c, rs_i, 
                                  rs_order, rs_class, rs_local, rs_reserved, 
                                  rs_free, rs_tc, rs_frame, rs_old, sb_n, 
                                  sb_start, sb_offset, sb_len, sb_mode, 
                                  sb_order, sb_class, sb_local, sb_i, sb_idx, 
                                  sb_t, sb_p, sb_best, sb_done, sb_k, sl_class, 
                                  sl_local, sl_order, sl_frame, sl_i, sl_tc, 
                                  sl_j, sl_found, sl_row, sl_jj, dl_class, 
                                  dl_local, dl_order, dl_frame, dl_i, dl_tc, 
                                  dl_j, dl_found, dl_new, dl_old, dl_jj, 
                                  dl_oldclass, ag_order, ag_class, ag_local, 
                                  ag_frame, ag_len, ag_start, ag_near, ag_done, 
                                  ap_frame, ap_order, ap_class, ap_local, ad_c, 
                                  ad_k, ad_old, cg_t, cg_mclass, cg_mfree, 
                                  cg_cclass, cg_cop, cg_prev, cg_done, 
                                  cg_fetched, cg_h, cg_v, cg_next, cg_ok, 
                                  cg_seen, ac_id, ac_mclass, ac_mfree, 
                                  ac_cclass, ac_cop, ac_i, ac_done, pcx, cur, 
                                  blk >>

sf_rows(self) == /\ pc[self] = "sf_rows"
                 /\ IF sf_i[self] < ROWS /\ ~sf_found[self]
                       THEN /\ sf_r' = [sf_r EXCEPT ![self] = (sf_i[self] + sf_start[self]) % ROWS]
                            /\ /\ stack' = [stack EXCEPT ![self] = << [ procedure |->  "try_update",
                                                                        pc        |->  "sf_rows_r",
                                                                        tu_prev   |->  tu_prev[self],
                                                                        tu_next   |->  tu_next[self],
                                                                        tu_done   |->  tu_done[self],
                                                                        tu_ok     |->  tu_ok[self],
                                                                        tu_seen   |->  tu_seen[self],
                                                                        tu_loc    |->  tu_loc[self],
                                                                        tu_fn     |->  tu_fn[self],
                                                                        tu_arg    |->  tu_arg[self] ] >>
                                                                    \o stack[self]]
                               /\ tu_arg' = [tu_arg EXCEPT ![self] = sf_order[self]]
                               /\ tu_fn' = [tu_fn EXCEPT ![self] = "fza"]
                               /\ tu_loc' = [tu_loc EXCEPT ![self] = Row(sf_h[self], sf_r'[self])]
                            /\ tu_prev' = [tu_prev EXCEPT ![self] = 0]
                            /\ tu_next' = [tu_next EXCEPT ![self] = <<>>]
                            /\ tu_done' = [tu_done EXCEPT ![self] = FALSE]
                            /\ tu_ok' = [tu_ok EXCEPT ![self] = FALSE]
                            /\ tu_seen' = [tu_seen EXCEPT ![self] = 0]
                            /\ pc' = [pc EXCEPT ![self] = "tu_load"]
                       ELSE /\ pc' = [pc EXCEPT ![self] = "sf_ret"]
                            /\ UNCHANGED << stack, tu_loc, tu_fn, tu_arg, 
                                            tu_prev, tu_next, tu_done, tu_ok, 
                                            tu_seen, sf_r >>
                 /\ UNCHANGED << mem, held, results, inflight, rv, panicked, 
                                 hid, lastop, dp_why, lg_row, lg_order, 
                                 lg_tree, lg_off, lg_j, lg_i, lg_h, lg_found, 
                                 lg_frame, lg_n, ca_h0, ca_num, ca_cur, ca_new, 
                                 ca_i, ca_ok, ca_seen, ca_j, sf_h, sf_start, 
                                 sf_order, sf_i, sf_found, sf_off, sf_nrows, 
                                 sf_c, sf_k, sf_v, sf_zero, sf_ok, sf_seen, 
                                 sf_u, tg_h, tg_off, tg_order, tg_exp, tg_ok, 
                                 tg_i, tg_n, tg_seen, tg_u, tg_r0, la_frame, 
                                 la_order, la_h, ps_frame, ps_order, lp_frame, 
                                 lp_order, lp_h, lp_old, lp_ok, lp_seen, 
                                 lp_spin, lp_v, tp_t, tp_n, tu2_t, tu2_free, 
                                 tu2_class, gl_order, gl_class, gl_local, 
                                 gl_frame, gl_sync, gl_row, gl_res, gl_min, 
                                 gl_got, sg_i, sg_class, sg_order, sg_frame, 
                                 sg_c, rs_i, rs_order, rs_class, rs_local, 
                                 rs_reserved, rs_free, rs_tc, rs_frame, rs_old, 
                                 sb_n, sb_start, sb_offset, sb_len, sb_mode, 
                                 sb_order, sb_class, sb_local, sb_i, sb_idx, 
                                 sb_t, sb_p, sb_best, sb_done, sb_k, sl_class, 
                                 sl_local, sl_order, sl_frame, sl_i, sl_tc, 
                                 sl_j, sl_found, sl_row, sl_jj, dl_class, 
                                 dl_local, dl_order, dl_frame, dl_i, dl_tc, 
                                 dl_j, dl_found, dl_new, dl_old, dl_jj, 
                                 dl_oldclass, ag_order, ag_class, ag_local, 
                                 ag_frame, ag_len, ag_start, ag_near, ag_done, 
                                 ap_frame, ap_order, ap_class, ap_local, ad_c, 
                                 ad_k, ad_old, cg_t, cg_mclass, cg_mfree, 
                                 cg_cclass, cg_cop, cg_prev, cg_done, 
                                 cg_fetched, cg_h, cg_v, cg_next, cg_ok, 
                                 cg_seen, ac_id, ac_mclass, ac_mfree, 
                                 ac_cclass, ac_cop, ac_i, ac_done, pcx, cur, 
                                 blk >>

sf_rows_r(self) == /\ pc[self] = "sf_rows_r"
                   /\ IF rv[self].ok
                         THEN /\ sf_found' = [sf_found EXCEPT ![self] = TRUE]
                              /\ sf_off' = [sf_off EXCEPT ![self] = sf_r[self] * 64 + (CHOOSE b \in (rv[self].new \ rv[self].old) : \A c \in (rv[self].new \ rv[self].old) : b <= c)]
                              /\ sf_i' = sf_i
                         ELSE /\ sf_i' = [sf_i EXCEPT ![self] = sf_i[self] + 1]
                              /\ UNCHANGED << sf_found, sf_off >>
                   /\ pc' = [pc EXCEPT ![self] = "sf_rows"]
                   /\ UNCHANGED << mem, held, results, inflight, rv, panicked, 
                                   hid, lastop, stack, dp_why, tu_loc, tu_fn, 
                                   tu_arg, tu_prev, tu_next, tu_done, tu_ok, 
                                   tu_seen, lg_row, lg_order, lg_tree, lg_off, 
                                   lg_j, lg_i, lg_h, lg_found, lg_frame, lg_n, 
                                   ca_h0, ca_num, ca_cur, ca_new, ca_i, ca_ok, 
                                   ca_seen, ca_j, sf_h, sf_start, sf_order, 
                                   sf_r, sf_nrows, sf_c, sf_k, sf_v, sf_zero, 
                                   sf_ok, sf_seen, sf_u, tg_h, tg_off, 
                                   tg_order, tg_exp, tg_ok, tg_i, tg_n, 
                                   tg_seen, tg_u, tg_r0, la_frame, la_order, 
                                   la_h, ps_frame, ps_order, lp_frame, 
                                   lp_order, lp_h, lp_old, lp_ok, lp_seen, 
                                   lp_spin, lp_v, tp_t, tp_n, tu2_t, tu2_free, 
                                   tu2_class, gl_order, gl_class, gl_local, 
                                   gl_frame, gl_sync, gl_row, gl_res, gl_min, 
                                   gl_got, sg_i, sg_class, sg_order, sg_frame, 
                                   sg_c, rs_i, rs_order, rs_class, rs_local, 
                                   rs_reserved, rs_free, rs_tc, rs_frame, 
                                   rs_old, sb_n, sb_start, sb_offset, sb_len, 
                                   sb_mode, sb_order, sb_class, sb_local, sb_i, 
                                   sb_idx, sb_t, sb_p, sb_best, sb_done, sb_k, 
                                   sl_class, sl_local, sl_order, sl_frame, 
                                   sl_i, sl_tc, sl_j, sl_found, sl_row, sl_jj, 
                                   dl_class, dl_local, dl_order, dl_frame, 
                                   dl_i, dl_tc, dl_j, dl_found, dl_new, dl_old, 
                                   dl_jj, dl_oldclass, ag_order, ag_class, 
                                   ag_local, ag_frame, ag_len, ag_start, 
                                   ag_near, ag_done, ap_frame, ap_order, 
                                   ap_class, ap_local, ad_c, ad_k, ad_old, 
                                   cg_t, cg_mclass, cg_mfree, cg_cclass, 
                                   cg_cop, cg_prev, cg_done, cg_fetched, cg_h, 
                                   cg_v, cg_next, cg_ok, cg_seen, ac_id, 
                                   ac_mclass, ac_mfree, ac_cclass, ac_cop, 
                                   ac_i, ac_done, pcx, cur, blk >>

sf_chunks(self) == /\ pc[self] = "sf_chunks"
                   /\ IF sf_c[self] * sf_nrows[self] < ROWS /\ ~sf_found[self]
                         THEN /\ sf_k' = [sf_k EXCEPT ![self] = 0]
                              /\ sf_zero' = [sf_zero EXCEPT ![self] = TRUE]
                              /\ pc' = [pc EXCEPT ![self] = "sf_check"]
                         ELSE /\ pc' = [pc EXCEPT ![self] = "sf_ret"]
                              /\ UNCHANGED << sf_k, sf_zero >>
                   /\ UNCHANGED << mem, held, results, inflight, rv, panicked, 
                                   hid, lastop, stack, dp_why, tu_loc, tu_fn, 
                                   tu_arg, tu_prev, tu_next, tu_done, tu_ok, 
                                   tu_seen, lg_row, lg_order, lg_tree, lg_off, 
                                   lg_j, lg_i, lg_h, lg_found, lg_frame, lg_n, 
                                   ca_h0, ca_num, ca_cur, ca_new, ca_i, ca_ok, 
                                   ca_seen, ca_j, sf_h, sf_start, sf_order, 
                                   sf_i, sf_r, sf_found, sf_off, sf_nrows, 
                                   sf_c, sf_v, sf_ok, sf_seen, sf_u, tg_h, 
                                   tg_off, tg_order, tg_exp, tg_ok, tg_i, tg_n, 
                                   tg_seen, tg_u, tg_r0, la_frame, la_order, 
                                   la_h, ps_frame, ps_order, lp_frame, 
                                   lp_order, lp_h, lp_old, lp_ok, lp_seen, 
                                   lp_spin, lp_v, tp_t, tp_n, tu2_t, tu2_free, 
                                   tu2_class, gl_order, gl_class, gl_local, 
                                   gl_frame, gl_sync, gl_row, gl_res, gl_min, 
                                   gl_got, sg_i, sg_class, sg_order, sg_frame, 
                                   sg_c, rs_i, rs_order, rs_class, rs_local, 
                                   rs_reserved, rs_free, rs_tc, rs_frame, 
                                   rs_old, sb_n, sb_start, sb_offset, sb_len, 
                                   sb_mode, sb_order, sb_class, sb_local, sb_i, 
                                   sb_idx, sb_t, sb_p, sb_best, sb_done, sb_k, 
                                   sl_class, sl_local, sl_order, sl_frame, 
                                   sl_i, sl_tc, sl_j, sl_found, sl_row, sl_jj, 
                                   dl_class, dl_local, dl_order, dl_frame, 
                                   dl_i, dl_tc, dl_j, dl_found, dl_new, dl_old, 
                                   dl_jj, dl_oldclass, ag_order, ag_class, 
                                   ag_local, ag_frame, ag_len, ag_start, 
                                   ag_near, ag_done, ap_frame, ap_order, 
                                   ap_class, ap_local, ad_c, ad_k, ad_old, 
                                   cg_t, cg_mclass, cg_mfree, cg_cclass, 
                                   cg_cop, cg_prev, cg_done, cg_fetched, cg_h, 
                                   cg_v, cg_next, cg_ok, cg_seen, ac_id, 
                                   ac_mclass, ac_mfree, ac_cclass, ac_cop, 
                                   ac_i, ac_done, pcx, cur, blk >>

sf_check(self) == /\ pc[self] = "sf_check"
                  /\ IF sf_k[self] < sf_nrows[self] /\ sf_zero[self]
                        THEN /\ sf_v' = [sf_v EXCEPT ![self] = mem[(Row(sf_h[self], sf_c[self] * sf_nrows[self] + sf_k[self]))]]
                             /\ lastop' = [seq |-> lastop.seq + 1, t |-> self, k |-> "load", loc |-> (Row(sf_h[self], sf_c[self] * sf_nrows[self] + sf_k[self])), old |-> mem[(Row(sf_h[self], sf_c[self] * sf_nrows[self] + sf_k[self]))], new |-> mem[(Row(sf_h[self], sf_c[self] * sf_nrows[self] + sf_k[self]))], ok |-> TRUE]
                             /\ IF sf_v'[self] # {}
                                   THEN /\ sf_zero' = [sf_zero EXCEPT ![self] = FALSE]
                                        /\ sf_k' = sf_k
                                   ELSE /\ sf_k' = [sf_k EXCEPT ![self] = sf_k[self] + 1]
                                        /\ UNCHANGED sf_zero
                             /\ pc' = [pc EXCEPT ![self] = "sf_check"]
                             /\ UNCHANGED << sf_c, sf_ok >>
                        ELSE /\ IF sf_zero[self]
                                   THEN /\ sf_k' = [sf_k EXCEPT ![self] = 0]
                                        /\ sf_ok' = [sf_ok EXCEPT ![self] = TRUE]
                                        /\ pc' = [pc EXCEPT ![self] = "sf_set"]
                                        /\ sf_c' = sf_c
                                   ELSE /\ sf_c' = [sf_c EXCEPT ![self] = sf_c[self] + 1]
                                        /\ pc' = [pc EXCEPT ![self] = "sf_chunks"]
                                        /\ UNCHANGED << sf_k, sf_ok >>
                             /\ UNCHANGED << lastop, sf_v, sf_zero >>
                  /\ UNCHANGED << mem, held, results, inflight, rv, panicked, 
                                  hid, stack, dp_why, tu_loc, tu_fn, tu_arg, 
                                  tu_prev, tu_next, tu_done, tu_ok, tu_seen, 
                                  lg_row, lg_order, lg_tree, lg_off, lg_j, 
                                  lg_i, lg_h, lg_found, lg_frame, lg_n, ca_h0, 
                                  ca_num, ca_cur, ca_new, ca_i, ca_ok, ca_seen, 
                                  ca_j, sf_h, sf_start, sf_order, sf_i, sf_r, 
                                  sf_found, sf_off, sf_nrows, sf_seen, sf_u, 
                                  tg_h, tg_off, tg_order, tg_exp, tg_ok, tg_i, 
                                  tg_n, tg_seen, tg_u, tg_r0, la_frame, 
                                  la_order, la_h, ps_frame, ps_order, lp_frame, 
                                  lp_order, lp_h, lp_old, lp_ok, lp_seen, 
                                  lp_spin, lp_v, tp_t, tp_n, tu2_t, tu2_free, 
                                  tu2_class, gl_order, gl_class, gl_local, 
                                  gl_frame, gl_sync, gl_row, gl_res, gl_min, 
                                  gl_got, sg_i, sg_class, sg_order, sg_frame, 
                                  sg_c, rs_i, rs_order, rs_class, rs_local, 
                                  rs_reserved, rs_free, rs_tc, rs_frame, 
                                  rs_old, sb_n, sb_start, sb_offset, sb_len, 
                                  sb_mode, sb_order, sb_class, sb_local, sb_i, 
                                  sb_idx, sb_t, sb_p, sb_best, sb_done, sb_k, 
                                  sl_class, sl_local, sl_order, sl_frame, sl_i, 
                                  sl_tc, sl_j, sl_found, sl_row, sl_jj, 
                                  dl_class, dl_local, dl_order, dl_frame, dl_i, 
                                  dl_tc, dl_j, dl_found, dl_new, dl_old, dl_jj, 
                                  dl_oldclass, ag_order, ag_class, ag_local, 
                                  ag_frame, ag_len, ag_start, ag_near, ag_done, 
                                  ap_frame, ap_order, ap_class, ap_local, ad_c, 
                                  ad_k, ad_old, cg_t, cg_mclass, cg_mfree, 
                                  cg_cclass, cg_cop, cg_prev, cg_done, 
                                  cg_fetched, cg_h, cg_v, cg_next, cg_ok, 
                                  cg_seen, ac_id, ac_mclass, ac_mfree, 
                                  ac_cclass, ac_cop, ac_i, ac_done, pcx, cur, 
                                  blk >>

sf_set(self) == /\ pc[self] = "sf_set"
                /\ IF sf_k[self] < sf_nrows[self] /\ sf_ok[self]
                      THEN /\ IF mem[(Row(sf_h[self], sf_c[self] * sf_nrows[self] + sf_k[self]))] = ({})
                                 THEN /\ sf_ok' = [sf_ok EXCEPT ![self] = TRUE]
                                      /\ sf_seen' = [sf_seen EXCEPT ![self] = {}]
                                      /\ lastop' = [seq |-> lastop.seq + 1, t |-> self, k |-> "cas", loc |-> (Row(sf_h[self], sf_c[self] * sf_nrows[self] + sf_k[self])), old |-> ({}), new |-> AllBits, ok |-> TRUE]
                                      /\ mem' = [mem EXCEPT ![(Row(sf_h[self], sf_c[self] * sf_nrows[self] + sf_k[self]))] = AllBits]
                                 ELSE /\ sf_ok' = [sf_ok EXCEPT ![self] = FALSE]
                                      /\ sf_seen' = [sf_seen EXCEPT ![self] = mem[(Row(sf_h[self], sf_c[self] * sf_nrows[self] + sf_k[self]))]]
                                      /\ lastop' = [seq |-> lastop.seq + 1, t |-> self, k |-> "cas", loc |-> (Row(sf_h[self], sf_c[self] * sf_nrows[self] + sf_k[self])), old |-> mem[(Row(sf_h[self], sf_c[self] * sf_nrows[self] + sf_k[self]))], new |-> AllBits, ok |-> FALSE]
                                      /\ mem' = mem
                           /\ IF sf_ok'[self]
                                 THEN /\ sf_k' = [sf_k EXCEPT ![self] = sf_k[self] + 1]
                                 ELSE /\ TRUE
                                      /\ sf_k' = sf_k
                           /\ pc' = [pc EXCEPT ![self] = "sf_set"]
                           /\ UNCHANGED << sf_found, sf_off, sf_u >>
                      ELSE /\ IF sf_ok[self]
                                 THEN /\ sf_found' = [sf_found EXCEPT ![self] = TRUE]
                                      /\ sf_off' = [sf_off EXCEPT ![self] = sf_c[self] * sf_nrows[self] * 64]
                                      /\ pc' = [pc EXCEPT ![self] = "sf_chunks"]
                                      /\ sf_u' = sf_u
                                 ELSE /\ sf_u' = [sf_u EXCEPT ![self] = sf_k[self] - 1]
                                      /\ pc' = [pc EXCEPT ![self] = "sf_undo"]
                                      /\ UNCHANGED << sf_found, sf_off >>
                           /\ UNCHANGED << mem, lastop, sf_k, sf_ok, sf_seen >>
                /\ UNCHANGED << held, results, inflight, rv, panicked, hid, 
                                stack, dp_why, tu_loc, tu_fn, tu_arg, tu_prev, 
                                tu_next, tu_done, tu_ok, tu_seen, lg_row, 
                                lg_order, lg_tree, lg_off, lg_j, lg_i, lg_h, 
                                lg_found, lg_frame, lg_n, ca_h0, ca_num, 
                                ca_cur, ca_new, ca_i, ca_ok, ca_seen, ca_j, 
                                sf_h, sf_start, sf_order, sf_i, sf_r, sf_nrows, 
                                sf_c, sf_v, sf_zero, tg_h, tg_off, tg_order, 
                                tg_exp, tg_ok, tg_i, tg_n, tg_seen, tg_u, 
                                tg_r0, la_frame, la_order, la_h, ps_frame, 
                                ps_order, lp_frame, lp_order, lp_h, lp_old, 
                                lp_ok, lp_seen, lp_spin, lp_v, tp_t, tp_n, 
                                tu2_t, tu2_free, tu2_class, gl_order, gl_class, 
                                gl_local, gl_frame, gl_sync, gl_row, gl_res, 
                                gl_min, gl_got, sg_i, sg_class, sg_order, 
                                sg_frame, sg_c, rs_i, rs_order, rs_class, 
                                rs_local, rs_reserved, rs_free, rs_tc, 
                                rs_frame, rs_old, sb_n, sb_start, sb_offset, 
                                sb_len, sb_mode, sb_order, sb_class, sb_local, 
                                sb_i, sb_idx, sb_t, sb_p, sb_best, sb_done, 
                                sb_k, sl_class, sl_local, sl_order, sl_frame, 
                                sl_i, sl_tc, sl_j, sl_found, sl_row, sl_jj, 
                                dl_class, dl_local, dl_order, dl_frame, dl_i, 
                                dl_tc, dl_j, dl_found, dl_new, dl_old, dl_jj, 
                                dl_oldclass, ag_order, ag_class, ag_local, 
                                ag_frame, ag_len, ag_start, ag_near, ag_done, 
                                ap_frame, ap_order, ap_class, ap_local, ad_c, 
                                ad_k, ad_old, cg_t, cg_mclass, cg_mfree, 
                                cg_cclass, cg_cop, cg_prev, cg_done, 
                                cg_fetched, cg_h, cg_v, cg_next, cg_ok, 
                                cg_seen, ac_id, ac_mclass, ac_mfree, ac_cclass, 
                                ac_cop, ac_i, ac_done, pcx, cur, blk >>

sf_undo(self) == /\ pc[self] = "sf_undo"
                 /\ IF sf_u[self] >= 0
                       THEN /\ IF mem[(Row(sf_h[self], sf_c[self] * sf_nrows[self] + sf_u[self]))] = AllBits
                                  THEN /\ sf_ok' = [sf_ok EXCEPT ![self] = TRUE]
                                       /\ sf_seen' = [sf_seen EXCEPT ![self] = AllBits]
                                       /\ lastop' = [seq |-> lastop.seq + 1, t |-> self, k |-> "cas", loc |-> (Row(sf_h[self], sf_c[self] * sf_nrows[self] + sf_u[self])), old |-> AllBits, new |-> ({}), ok |-> TRUE]
                                       /\ mem' = [mem EXCEPT ![(Row(sf_h[self], sf_c[self] * sf_nrows[self] + sf_u[self]))] = {}]
                                  ELSE /\ sf_ok' = [sf_ok EXCEPT ![self] = FALSE]
                                       /\ sf_seen' = [sf_seen EXCEPT ![self] = mem[(Row(sf_h[self], sf_c[self] * sf_nrows[self] + sf_u[self]))]]
                                       /\ lastop' = [seq |-> lastop.seq + 1, t |-> self, k |-> "cas", loc |-> (Row(sf_h[self], sf_c[self] * sf_nrows[self] + sf_u[self])), old |-> mem[(Row(sf_h[self], sf_c[self] * sf_nrows[self] + sf_u[self]))], new |-> ({}), ok |-> FALSE]
                                       /\ mem' = mem
                            /\ IF ~sf_ok'[self]
                                  THEN /\ /\ dp_why' = [dp_why EXCEPT ![self] = "assertion"]
                                          /\ stack' = [stack EXCEPT ![self] = << [ procedure |->  "do_panic",
                                                                                   pc        |->  "sf_undo",
                                                                                   dp_why    |->  dp_why[self] ] >>
                                                                               \o stack[self]]
                                       /\ pc' = [pc EXCEPT ![self] = "dp_flag"]
                                       /\ sf_u' = sf_u
                                  ELSE /\ sf_u' = [sf_u EXCEPT ![self] = sf_u[self] - 1]
                                       /\ pc' = [pc EXCEPT ![self] = "sf_undo"]
                                       /\ UNCHANGED << stack, dp_why >>
                            /\ sf_c' = sf_c
                       ELSE /\ sf_c' = [sf_c EXCEPT ![self] = sf_c[self] + 1]
                            /\ pc' = [pc EXCEPT ![self] = "sf_chunks"]
                            /\ UNCHANGED << mem, lastop, stack, dp_why, sf_ok, 
                                            sf_seen, sf_u >>
                 /\ UNCHANGED << held, results, inflight, rv, panicked, hid, 
                                 tu_loc, tu_fn, tu_arg, tu_prev, tu_next, 
                                 tu_done, tu_ok, tu_seen, lg_row, lg_order, 
                                 lg_tree, lg_off, lg_j, lg_i, lg_h, lg_found, 
                                 lg_frame, lg_n, ca_h0, ca_num, ca_cur, ca_new, 
                                 ca_i, ca_ok, ca_seen, ca_j, sf_h, sf_start, 
                                 sf_order, sf_i, sf_r, sf_found, sf_off, 
                                 sf_nrows, sf_k, sf_v, sf_zero, tg_h, tg_off, 
                                 tg_order, tg_exp, tg_ok, tg_i, tg_n, tg_seen, 
                                 tg_u, tg_r0, la_frame, la_order, la_h, 
                                 ps_frame, ps_order, lp_frame, lp_order, lp_h, 
                                 lp_old, lp_ok, lp_seen, lp_spin, lp_v, tp_t, 
                                 tp_n, tu2_t, tu2_free, tu2_class, gl_order, 
                                 gl_class, gl_local, gl_frame, gl_sync, gl_row, 
                                 gl_res, gl_min, gl_got, sg_i, sg_class, 
                                 sg_order, sg_frame, sg_c, rs_i, rs_order, 
                                 rs_class, rs_local, rs_reserved, rs_free, 
                                 rs_tc, rs_frame, rs_old, sb_n, sb_start, 
                                 sb_offset, sb_len, sb_mode, sb_order, 
                                 sb_class, sb_local, sb_i, sb_idx, sb_t, sb_p, 
                                 sb_best, sb_done, sb_k, sl_class, sl_local, 
                                 sl_order, sl_frame, sl_i, sl_tc, sl_j, 
                                 sl_found, sl_row, sl_jj, dl_class, dl_local, 
                                 dl_order, dl_frame, dl_i, dl_tc, dl_j, 
                                 dl_found, dl_new, dl_old, dl_jj, dl_oldclass, 
                                 ag_order, ag_class, ag_local, ag_frame, 
                                 ag_len, ag_start, ag_near, ag_done, ap_frame, 
                                 ap_order, ap_class, ap_local, ad_c, ad_k, 
                                 ad_old, cg_t, cg_mclass, cg_mfree, cg_cclass, 
                                 cg_cop, cg_prev, cg_done, cg_fetched, cg_h, 
                                 cg_v, cg_next, cg_ok, cg_seen, ac_id, 
                                 ac_mclass, ac_mfree, ac_cclass, ac_cop, ac_i, 
                                 ac_done, pcx, cur, blk >>

sf_ret(self) == /\ pc[self] = "sf_ret"
                /\ rv' = [rv EXCEPT ![self] = [ok |-> sf_found[self], off |-> sf_off[self]]]
                /\ pc' = [pc EXCEPT ![self] = Head(stack[self]).pc]
                /\ sf_i' = [sf_i EXCEPT ![self] = Head(stack[self]).sf_i]
                /\ sf_r' = [sf_r EXCEPT ![self] = Head(stack[self]).sf_r]
                /\ sf_found' = [sf_found EXCEPT ![self] = Head(stack[self]).sf_found]
                /\ sf_off' = [sf_off EXCEPT ![self] = Head(stack[self]).sf_off]
                /\ sf_nrows' = [sf_nrows EXCEPT ![self] = Head(stack[self]).sf_nrows]
                /\ sf_c' = [sf_c EXCEPT ![self] = Head(stack[self]).sf_c]
                /\ sf_k' = [sf_k EXCEPT ![self] = Head(stack[self]).sf_k]
                /\ sf_v' = [sf_v EXCEPT ![self] = Head(stack[self]).sf_v]
                /\ sf_zero' = [sf_zero EXCEPT ![self] = Head(stack[self]).sf_zero]
                /\ sf_ok' = [sf_ok EXCEPT ![self] = Head(stack[self]).sf_ok]
                /\ sf_seen' = [sf_seen EXCEPT ![self] = Head(stack[self]).sf_seen]
                /\ sf_u' = [sf_u EXCEPT ![self] = Head(stack[self]).sf_u]
                /\ sf_h' = [sf_h EXCEPT ![self] = Head(stack[self]).sf_h]
                /\ sf_start' = [sf_start EXCEPT ![self] = Head(stack[self]).sf_start]
                /\ sf_order' = [sf_order EXCEPT ![self] = Head(stack[self]).sf_order]
                /\ stack' = [stack EXCEPT ![self] = Tail(stack[self])]
                /\ UNCHANGED << mem, held, results, inflight, panicked, hid, 
                                lastop, dp_why, tu_loc, tu_fn, tu_arg, tu_prev, 
                                tu_next, tu_done, tu_ok, tu_seen, lg_row, 
                                lg_order, lg_tree, lg_off, lg_j, lg_i, lg_h, 
                                lg_found, lg_frame, lg_n, ca_h0, ca_num, 
                                ca_cur, ca_new, ca_i, ca_ok, ca_seen, ca_j, 
                                tg_h, tg_off, tg_order, tg_exp, tg_ok, tg_i, 
                                tg_n, tg_seen, tg_u, tg_r0, la_frame, la_order, 
                                la_h, ps_frame, ps_order, lp_frame, lp_order, 
                                lp_h, lp_old, lp_ok, lp_seen, lp_spin, lp_v, 
                                tp_t, tp_n, tu2_t, tu2_free, tu2_class, 
                                gl_order, gl_class, gl_local, gl_frame, 
                                gl_sync, gl_row, gl_res, gl_min, gl_got, sg_i, 
                                sg_class, sg_order, sg_frame, sg_c, rs_i, 
                                rs_order, rs_class, rs_local, rs_reserved, 
                                rs_free, rs_tc, rs_frame, rs_old, sb_n, 
                                sb_start, sb_offset, sb_len, sb_mode, sb_order, 
                                sb_class, sb_local, sb_i, sb_idx, sb_t, sb_p, 
                                sb_best, sb_done, sb_k, sl_class, sl_local, 
                                sl_order, sl_frame, sl_i, sl_tc, sl_j, 
                                sl_found, sl_row, sl_jj, dl_class, dl_local, 
                                dl_order, dl_frame, dl_i, dl_tc, dl_j, 
                                dl_found, dl_new, dl_old, dl_jj, dl_oldclass, 
                                ag_order, ag_class, ag_local, ag_frame, ag_len, 
                                ag_start, ag_near, ag_done, ap_frame, ap_order, 
                                ap_class, ap_local, ad_c, ad_k, ad_old, cg_t, 
                                cg_mclass, cg_mfree, cg_cclass, cg_cop, 
                                cg_prev, cg_done, cg_fetched, cg_h, cg_v, 
                                cg_next, cg_ok, cg_seen, ac_id, ac_mclass, 
                                ac_mfree, ac_cclass, ac_cop, ac_i, ac_done, 
                                pcx, cur, blk >>

set_first_zeros(self) == sf_begin(self) \/ sf_rows(self) \/ sf_rows_r(self)
                            \/ sf_chunks(self) \/ sf_check(self)
                            \/ sf_set(self) \/ sf_undo(self)
                            \/ sf_ret(self)

tg_begin(self) == /\ pc[self] = "tg_begin"
                  /\ IF tg_order[self] <= 2
                        THEN /\ /\ stack' = [stack EXCEPT ![self] = << [ procedure |->  "try_update",
                                                                         pc        |->  "tg_small_r",
                                                                         tu_prev   |->  tu_prev[self],
                                                                         tu_next   |->  tu_next[self],
                                                                         tu_done   |->  tu_done[self],
                                                                         tu_ok     |->  tu_ok[self],
                                                                         tu_seen   |->  tu_seen[self],
                                                                         tu_loc    |->  tu_loc[self],
                                                                         tu_fn     |->  tu_fn[self],
                                                                         tu_arg    |->  tu_arg[self] ] >>
                                                                     \o stack[self]]
                                /\ tu_arg' = [tu_arg EXCEPT ![self] = [mask |-> ((tg_off[self] % 64) .. ((tg_off[self] % 64) + P2(tg_order[self]) - 1)), expected |-> tg_exp[self]]]
                                /\ tu_fn' = [tu_fn EXCEPT ![self] = "tog"]
                                /\ tu_loc' = [tu_loc EXCEPT ![self] = Row(tg_h[self], tg_off[self] \div 64)]
                             /\ tu_prev' = [tu_prev EXCEPT ![self] = 0]
                             /\ tu_next' = [tu_next EXCEPT ![self] = <<>>]
                             /\ tu_done' = [tu_done EXCEPT ![self] = FALSE]
                             /\ tu_ok' = [tu_ok EXCEPT ![self] = FALSE]
                             /\ tu_seen' = [tu_seen EXCEPT ![self] = 0]
                             /\ pc' = [pc EXCEPT ![self] = "tu_load"]
                             /\ UNCHANGED << tg_ok, tg_i, tg_n, tg_r0 >>
                        ELSE /\ IF tg_order[self] <= 5
                                   THEN /\ pc' = [pc EXCEPT ![self] = "tg_int"]
                                        /\ UNCHANGED << tg_ok, tg_i, tg_n, 
                                                        tg_r0 >>
                                   ELSE /\ IF tg_order[self] = 6
                                              THEN /\ pc' = [pc EXCEPT ![self] = "tg_int64"]
                                                   /\ UNCHANGED << tg_ok, tg_i, 
                                                                   tg_n, tg_r0 >>
                                              ELSE /\ tg_n' = [tg_n EXCEPT ![self] = P2(tg_order[self] - 6)]
                                                   /\ tg_r0' = [tg_r0 EXCEPT ![self] = tg_off[self] \div 64]
                                                   /\ tg_i' = [tg_i EXCEPT ![self] = 0]
                                                   /\ tg_ok' = [tg_ok EXCEPT ![self] = TRUE]
                                                   /\ pc' = [pc EXCEPT ![self] = "tg_rows"]
                             /\ UNCHANGED << stack, tu_loc, tu_fn, tu_arg, 
                                             tu_prev, tu_next, tu_done, tu_ok, 
                                             tu_seen >>
                  /\ UNCHANGED << mem, held, results, inflight, rv, panicked, 
                                  hid, lastop, dp_why, lg_row, lg_order, 
                                  lg_tree, lg_off, lg_j, lg_i, lg_h, lg_found, 
                                  lg_frame, lg_n, ca_h0, ca_num, ca_cur, 
                                  ca_new, ca_i, ca_ok, ca_seen, ca_j, sf_h, 
                                  sf_start, sf_order, sf_i, sf_r, sf_found, 
                                  sf_off, sf_nrows, sf_c, sf_k, sf_v, sf_zero, 
                                  sf_ok, sf_seen, sf_u, tg_h, tg_off, tg_order, 
                                  tg_exp, tg_seen, tg_u, la_frame, la_order, 
                                  la_h, ps_frame, ps_order, lp_frame, lp_order, 
                                  lp_h, lp_old, lp_ok, lp_seen, lp_spin, lp_v, 
                                  tp_t, tp_n, tu2_t, tu2_free, tu2_class, 
                                  gl_order, gl_class, gl_local, gl_frame, 
                                  gl_sync, gl_row, gl_res, gl_min, gl_got, 
                                  sg_i, sg_class, sg_order, sg_frame, sg_c, 
                                  rs_i, rs_order, rs_class, rs_local, 
                                  rs_reserved, rs_free, rs_tc, rs_frame, 
                                  rs_old, sb_n, sb_start, sb_offset, sb_len, 
                                  sb_mode, sb_order, sb_class, sb_local, sb_i, 
                                  sb_idx, sb_t, sb_p, sb_best, sb_done, sb_k, 
                                  sl_class, sl_local, sl_order, sl_frame, sl_i, 
                                  sl_tc, sl_j, sl_found, sl_row, sl_jj, 
                                  dl_class, dl_local, dl_order, dl_frame, dl_i, 
                                  dl_tc, dl_j, dl_found, dl_new, dl_old, dl_jj, 
                                  dl_oldclass, ag_order, ag_class, ag_local, 
                                  ag_frame, ag_len, ag_start, ag_near, ag_done, 
                                  ap_frame, ap_order, ap_class, ap_local, ad_c, 
                                  ad_k, ad_old, cg_t, cg_mclass, cg_mfree, 
                                  cg_cclass, cg_cop, cg_prev, cg_done, 
                                  cg_fetched, cg_h, cg_v, cg_next, cg_ok, 
                                  cg_seen, ac_id, ac_mclass, ac_mfree, 
                                  ac_cclass, ac_cop, ac_i, ac_done, pcx, cur, 
                                  blk >>

tg_small_r(self) == /\ pc[self] = "tg_small_r"
                    /\ rv' = [rv EXCEPT ![self] = [ok |-> rv[self].ok]]
                    /\ pc' = [pc EXCEPT ![self] = Head(stack[self]).pc]
                    /\ tg_ok' = [tg_ok EXCEPT ![self] = Head(stack[self]).tg_ok]
                    /\ tg_i' = [tg_i EXCEPT ![self] = Head(stack[self]).tg_i]
                    /\ tg_n' = [tg_n EXCEPT ![self] = Head(stack[self]).tg_n]
                    /\ tg_seen' = [tg_seen EXCEPT ![self] = Head(stack[self]).tg_seen]
                    /\ tg_u' = [tg_u EXCEPT ![self] = Head(stack[self]).tg_u]
                    /\ tg_r0' = [tg_r0 EXCEPT ![self] = Head(stack[self]).tg_r0]
                    /\ tg_h' = [tg_h EXCEPT ![self] = Head(stack[self]).tg_h]
                    /\ tg_off' = [tg_off EXCEPT ![self] = Head(stack[self]).tg_off]
                    /\ tg_order' = [tg_order EXCEPT ![self] = Head(stack[self]).tg_order]
                    /\ tg_exp' = [tg_exp EXCEPT ![self] = Head(stack[self]).tg_exp]
                    /\ stack' = [stack EXCEPT ![self] = Tail(stack[self])]
                    /\ UNCHANGED << mem, held, results, inflight, panicked, 
                                    hid, lastop, dp_why, tu_loc, tu_fn, tu_arg, 
                                    tu_prev, tu_next, tu_done, tu_ok, tu_seen, 
                                    lg_row, lg_order, lg_tree, lg_off, lg_j, 
                                    lg_i, lg_h, lg_found, lg_frame, lg_n, 
                                    ca_h0, ca_num, ca_cur, ca_new, ca_i, ca_ok, 
                                    ca_seen, ca_j, sf_h, sf_start, sf_order, 
                                    sf_i, sf_r, sf_found, sf_off, sf_nrows, 
                                    sf_c, sf_k, sf_v, sf_zero, sf_ok, sf_seen, 
                                    sf_u, la_frame, la_order, la_h, ps_frame, 
                                    ps_order, lp_frame, lp_order, lp_h, lp_old, 
                                    lp_ok, lp_seen, lp_spin, lp_v, tp_t, tp_n, 
                                    tu2_t, tu2_free, tu2_class, gl_order, 
                                    gl_class, gl_local, gl_frame, gl_sync, 
                                    gl_row, gl_res, gl_min, gl_got, sg_i, 
                                    sg_class, sg_order, sg_frame, sg_c, rs_i, 
                                    rs_order, rs_class, rs_local, rs_reserved, 
                                    rs_free, rs_tc, rs_frame, rs_old, sb_n, 
                                    sb_start, sb_offset, sb_len, sb_mode, 
                                    sb_order, sb_class, sb_local, sb_i, sb_idx, 
                                    sb_t, sb_p, sb_best, sb_done, sb_k, 
                                    sl_class, sl_local, sl_order, sl_frame, 
                                    sl_i, sl_tc, sl_j, sl_found, sl_row, sl_jj, 
                                    dl_class, dl_local, dl_order, dl_frame, 
                                    dl_i, dl_tc, dl_j, dl_found, dl_new, 
                                    dl_old, dl_jj, dl_oldclass, ag_order, 
                                    ag_class, ag_local, ag_frame, ag_len, 
                                    ag_start, ag_near, ag_done, ap_frame, 
                                    ap_order, ap_class, ap_local, ad_c, ad_k, 
                                    ad_old, cg_t, cg_mclass, cg_mfree, 
                                    cg_cclass, cg_cop, cg_prev, cg_done, 
                                    cg_fetched, cg_h, cg_v, cg_next, cg_ok, 
                                    cg_seen, ac_id, ac_mclass, ac_mfree, 
                                    ac_cclass, ac_cop, ac_i, ac_done, pcx, cur, 
                                    blk >>

tg_int(self) == /\ pc[self] = "tg_int"
                /\ IF (mem[(Row(tg_h[self], tg_off[self] \div 64))] \cap ((tg_off[self] % 64) .. (tg_off[self] % 64) + (P2(tg_order[self])) - 1)) = (IF tg_exp[self] THEN (tg_off[self] % 64) .. (tg_off[self] % 64) + (P2(tg_order[self])) - 1 ELSE {})
                      THEN /\ tg_ok' = [tg_ok EXCEPT ![self] = TRUE]
                           /\ lastop' = [seq |-> lastop.seq + 1, t |-> self, k |-> "casb", loc |-> (Row(tg_h[self], tg_off[self] \div 64)), old |-> mem[(Row(tg_h[self], tg_off[self] \div 64))],
                                         new |-> IF tg_exp[self] THEN mem[(Row(tg_h[self], tg_off[self] \div 64))] \ ((tg_off[self] % 64) .. (tg_off[self] % 64) + (P2(tg_order[self])) - 1) ELSE mem[(Row(tg_h[self], tg_off[self] \div 64))] \cup ((tg_off[self] % 64) .. (tg_off[self] % 64) + (P2(tg_order[self])) - 1), ok |-> TRUE]
                           /\ mem' = [mem EXCEPT ![(Row(tg_h[self], tg_off[self] \div 64))] = IF tg_exp[self] THEN mem[(Row(tg_h[self], tg_off[self] \div 64))] \ ((tg_off[self] % 64) .. (tg_off[self] % 64) + (P2(tg_order[self])) - 1) ELSE mem[(Row(tg_h[self], tg_off[self] \div 64))] \cup ((tg_off[self] % 64) .. (tg_off[self] % 64) + (P2(tg_order[self])) - 1)]
                      ELSE /\ tg_ok' = [tg_ok EXCEPT ![self] = FALSE]
                           /\ lastop' = [seq |-> lastop.seq + 1, t |-> self, k |-> "casb", loc |-> (Row(tg_h[self], tg_off[self] \div 64)), old |-> mem[(Row(tg_h[self], tg_off[self] \div 64))], new |-> mem[(Row(tg_h[self], tg_off[self] \div 64))], ok |-> FALSE]
                           /\ mem' = mem
                /\ rv' = [rv EXCEPT ![self] = [ok |-> tg_ok'[self]]]
                /\ pc' = [pc EXCEPT ![self] = "Lbl_1"]
                /\ UNCHANGED << held, results, inflight, panicked, hid, stack, 
                                dp_why, tu_loc, tu_fn, tu_arg, tu_prev, 
                                tu_next, tu_done, tu_ok, tu_seen, lg_row, 
                                lg_order, lg_tree, lg_off, lg_j, lg_i, lg_h, 
                                lg_found, lg_frame, lg_n, ca_h0, ca_num, 
                                ca_cur, ca_new, ca_i, ca_ok, ca_seen, ca_j, 
                                sf_h, sf_start, sf_order, sf_i, sf_r, sf_found, 
                                sf_off, sf_nrows, sf_c, sf_k, sf_v, sf_zero, 
                                sf_ok, sf_seen, sf_u, tg_h, tg_off, tg_order, 
                                tg_exp, tg_i, tg_n, tg_seen, tg_u, tg_r0, 
                                la_frame, la_order, la_h, ps_frame, ps_order, 
                                lp_frame, lp_order, lp_h, lp_old, lp_ok, 
                                lp_seen, lp_spin, lp_v, tp_t, tp_n, tu2_t, 
                                tu2_free, tu2_class, gl_order, gl_class, 
                                gl_local, gl_frame, gl_sync, gl_row, gl_res, 
                                gl_min, gl_got, sg_i, sg_class, sg_order, 
                                sg_frame, sg_c, rs_i, rs_order, rs_class, 
                                rs_local, rs_reserved, rs_free, rs_tc, 
                                rs_frame, rs_old, sb_n, sb_start, sb_offset, 
                                sb_len, sb_mode, sb_order, sb_class, sb_local, 
                                sb_i, sb_idx, sb_t, sb_p, sb_best, sb_done, 
                                sb_k, sl_class, sl_local, sl_order, sl_frame, 
                                sl_i, sl_tc, sl_j, sl_found, sl_row, sl_jj, 
                                dl_class, dl_local, dl_order, dl_frame, dl_i, 
                                dl_tc, dl_j, dl_found, dl_new, dl_old, dl_jj, 
                                dl_oldclass, ag_order, ag_class, ag_local, 
                                ag_frame, ag_len, ag_start, ag_near, ag_done, 
                                ap_frame, ap_order, ap_class, ap_local, ad_c, 
                                ad_k, ad_old, cg_t, cg_mclass, cg_mfree, 
                                cg_cclass, cg_cop, cg_prev, cg_done, 
                                cg_fetched, cg_h, cg_v, cg_next, cg_ok, 
                                cg_seen, ac_id, ac_mclass, ac_mfree, ac_cclass, 
                                ac_cop, ac_i, ac_done, pcx, cur, blk >>

Lbl_1(self) == /\ pc[self] = "Lbl_1"
               /\ pc' = [pc EXCEPT ![self] = Head(stack[self]).pc]
               /\ tg_ok' = [tg_ok EXCEPT ![self] = Head(stack[self]).tg_ok]
               /\ tg_i' = [tg_i EXCEPT ![self] = Head(stack[self]).tg_i]
               /\ tg_n' = [tg_n EXCEPT ![self] = Head(stack[self]).tg_n]
               /\ tg_seen' = [tg_seen EXCEPT ![self] = Head(stack[self]).tg_seen]
               /\ tg_u' = [tg_u EXCEPT ![self] = Head(stack[self]).tg_u]
               /\ tg_r0' = [tg_r0 EXCEPT ![self] = Head(stack[self]).tg_r0]
               /\ tg_h' = [tg_h EXCEPT ![self] = Head(stack[self]).tg_h]
               /\ tg_off' = [tg_off EXCEPT ![self] = Head(stack[self]).tg_off]
               /\ tg_order' = [tg_order EXCEPT ![self] = Head(stack[self]).tg_order]
               /\ tg_exp' = [tg_exp EXCEPT ![self] = Head(stack[self]).tg_exp]
               /\ stack' = [stack EXCEPT ![self] = Tail(stack[self])]
               /\ UNCHANGED << mem, held, results, inflight, rv, panicked, hid, 
                               lastop, dp_why, tu_loc, tu_fn, tu_arg, tu_prev, 
                               tu_next, tu_done, tu_ok, tu_seen, lg_row, 
                               lg_order, lg_tree, lg_off, lg_j, lg_i, lg_h, 
                               lg_found, lg_frame, lg_n, ca_h0, ca_num, ca_cur, 
                               ca_new, ca_i, ca_ok, ca_seen, ca_j, sf_h, 
                               sf_start, sf_order, sf_i, sf_r, sf_found, 
                               sf_off, sf_nrows, sf_c, sf_k, sf_v, sf_zero, 
                               sf_ok, sf_seen, sf_u, la_frame, la_order, la_h, 
                               ps_frame, ps_order, lp_frame, lp_order, lp_h, 
                               lp_old, lp_ok, lp_seen, lp_spin, lp_v, tp_t, 
                               tp_n, tu2_t, tu2_free, tu2_class, gl_order, 
                               gl_class, gl_local, gl_frame, gl_sync, gl_row, 
                               gl_res, gl_min, gl_got, sg_i, sg_class, 
                               sg_order, sg_frame, sg_c, rs_i, rs_order, 
                               rs_class, rs_local, rs_reserved, rs_free, rs_tc, 
                               rs_frame, rs_old, sb_n, sb_start, sb_offset, 
                               sb_len, sb_mode, sb_order, sb_class, sb_local, 
                               sb_i, sb_idx, sb_t, sb_p, sb_best, sb_done, 
                               sb_k, sl_class, sl_local, sl_order, sl_frame, 
                               sl_i, sl_tc, sl_j, sl_found, sl_row, sl_jj, 
                               dl_class, dl_local, dl_order, dl_frame, dl_i, 
                               dl_tc, dl_j, dl_found, dl_new, dl_old, dl_jj, 
                               dl_oldclass, ag_order, ag_class, ag_local, 
                               ag_frame, ag_len, ag_start, ag_near, ag_done, 
                               ap_frame, ap_order, ap_class, ap_local, ad_c, 
                               ad_k, ad_old, cg_t, cg_mclass, cg_mfree, 
                               cg_cclass, cg_cop, cg_prev, cg_done, cg_fetched, 
                               cg_h, cg_v, cg_next, cg_ok, cg_seen, ac_id, 
                               ac_mclass, ac_mfree, ac_cclass, ac_cop, ac_i, 
                               ac_done, pcx, cur, blk >>

tg_int64(self) == /\ pc[self] = "tg_int64"
                  /\ IF mem[(Row(tg_h[self], tg_off[self] \div 64))] = (IF tg_exp[self] THEN AllBits ELSE {})
                        THEN /\ tg_ok' = [tg_ok EXCEPT ![self] = TRUE]
                             /\ tg_seen' = [tg_seen EXCEPT ![self] = IF tg_exp[self] THEN AllBits ELSE {}]
                             /\ lastop' = [seq |-> lastop.seq + 1, t |-> self, k |-> "cas", loc |-> (Row(tg_h[self], tg_off[self] \div 64)), old |-> (IF tg_exp[self] THEN AllBits ELSE {}), new |-> (IF tg_exp[self] THEN {} ELSE AllBits), ok |-> TRUE]
                             /\ mem' = [mem EXCEPT ![(Row(tg_h[self], tg_off[self] \div 64))] = IF tg_exp[self] THEN {} ELSE AllBits]
                        ELSE /\ tg_ok' = [tg_ok EXCEPT ![self] = FALSE]
                             /\ tg_seen' = [tg_seen EXCEPT ![self] = mem[(Row(tg_h[self], tg_off[self] \div 64))]]
                             /\ lastop' = [seq |-> lastop.seq + 1, t |-> self, k |-> "cas", loc |-> (Row(tg_h[self], tg_off[self] \div 64)), old |-> mem[(Row(tg_h[self], tg_off[self] \div 64))], new |-> (IF tg_exp[self] THEN {} ELSE AllBits), ok |-> FALSE]
                             /\ mem' = mem
                  /\ rv' = [rv EXCEPT ![self] = [ok |-> tg_ok'[self]]]
                  /\ pc' = [pc EXCEPT ![self] = "Lbl_2"]
                  /\ UNCHANGED << held, results, inflight, panicked, hid, 
                                  stack, dp_why, tu_loc, tu_fn, tu_arg, 
                                  tu_prev, tu_next, tu_done, tu_ok, tu_seen, 
                                  lg_row, lg_order, lg_tree, lg_off, lg_j, 
                                  lg_i, lg_h, lg_found, lg_frame, lg_n, ca_h0, 
                                  ca_num, ca_cur, ca_new, ca_i, ca_ok, ca_seen, 
                                  ca_j, sf_h, sf_start, sf_order, sf_i, sf_r, 
                                  sf_found, sf_off, sf_nrows, sf_c, sf_k, sf_v, 
                                  sf_zero, sf_ok, sf_seen, sf_u, tg_h, tg_off, 
                                  tg_order, tg_exp, tg_i, tg_n, tg_u, tg_r0, 
                                  la_frame, la_order, la_h, ps_frame, ps_order, 
                                  lp_frame, lp_order, lp_h, lp_old, lp_ok, 
                                  lp_seen, lp_spin, lp_v, tp_t, tp_n, tu2_t, 
                                  tu2_free, tu2_class, gl_order, gl_class, 
                                  gl_local, gl_frame, gl_sync, gl_row, gl_res, 
                                  gl_min, gl_got, sg_i, sg_class, sg_order, 
                                  sg_frame, sg_c, rs_i, rs_order, rs_class, 
                                  rs_local, rs_reserved, rs_free, rs_tc, 
                                  rs_frame, rs_old, sb_n, sb_start, sb_offset, 
                                  sb_len, sb_mode, sb_order, sb_class, 
                                  sb_local, sb_i, sb_idx, sb_t, sb_p, sb_best, 
                                  sb_done, sb_k, sl_class, sl_local, sl_order, 
                                  sl_frame, sl_i, sl_tc, sl_j, sl_found, 
                                  sl_row, sl_jj, dl_class, dl_local, dl_order, 
                                  dl_frame, dl_i, dl_tc, dl_j, dl_found, 
                                  dl_new, dl_old, dl_jj, dl_oldclass, ag_order, 
                                  ag_class, ag_local, ag_frame, ag_len, 
                                  ag_start, ag_near, ag_done, ap_frame, 
                                  ap_order, ap_class, ap_local, ad_c, ad_k, 
                                  ad_old, cg_t, cg_mclass, cg_mfree, cg_cclass, 
                                  cg_cop, cg_prev, cg_done, cg_fetched, cg_h, 
                                  cg_v, cg_next, cg_ok, cg_seen, ac_id, 
                                  ac_mclass, ac_mfree, ac_cclass, ac_cop, ac_i, 
                                  ac_done, pcx, cur, blk >>

Lbl_2(self) == /\ pc[self] = "Lbl_2"
               /\ pc' = [pc EXCEPT ![self] = Head(stack[self]).pc]
               /\ tg_ok' = [tg_ok EXCEPT ![self] = Head(stack[self]).tg_ok]
               /\ tg_i' = [tg_i EXCEPT ![self] = Head(stack[self]).tg_i]
               /\ tg_n' = [tg_n EXCEPT ![self] = Head(stack[self]).tg_n]
               /\ tg_seen' = [tg_seen EXCEPT ![self] = Head(stack[self]).tg_seen]
               /\ tg_u' = [tg_u EXCEPT ![self] = Head(stack[self]).tg_u]
               /\ tg_r0' = [tg_r0 EXCEPT ![self] = Head(stack[self]).tg_r0]
               /\ tg_h' = [tg_h EXCEPT ![self] = Head(stack[self]).tg_h]
               /\ tg_off' = [tg_off EXCEPT ![self] = Head(stack[self]).tg_off]
               /\ tg_order' = [tg_order EXCEPT ![self] = Head(stack[self]).tg_order]
               /\ tg_exp' = [tg_exp EXCEPT ![self] = Head(stack[self]).tg_exp]
               /\ stack' = [stack EXCEPT ![self] = Tail(stack[self])]
               /\ UNCHANGED << mem, held, results, inflight, rv, panicked, hid, 
                               lastop, dp_why, tu_loc, tu_fn, tu_arg, tu_prev, 
                               tu_next, tu_done, tu_ok, tu_seen, lg_row, 
                               lg_order, lg_tree, lg_off, lg_j, lg_i, lg_h, 
                               lg_found, lg_frame, lg_n, ca_h0, ca_num, ca_cur, 
                               ca_new, ca_i, ca_ok, ca_seen, ca_j, sf_h, 
                               sf_start, sf_order, sf_i, sf_r, sf_found, 
                               sf_off, sf_nrows, sf_c, sf_k, sf_v, sf_zero, 
                               sf_ok, sf_seen, sf_u, la_frame, la_order, la_h, 
                               ps_frame, ps_order, lp_frame, lp_order, lp_h, 
                               lp_old, lp_ok, lp_seen, lp_spin, lp_v, tp_t, 
                               tp_n, tu2_t, tu2_free, tu2_class, gl_order, 
                               gl_class, gl_local, gl_frame, gl_sync, gl_row, 
                               gl_res, gl_min, gl_got, sg_i, sg_class, 
                               sg_order, sg_frame, sg_c, rs_i, rs_order, 
                               rs_class, rs_local, rs_reserved, rs_free, rs_tc, 
                               rs_frame, rs_old, sb_n, sb_start, sb_offset, 
                               sb_len, sb_mode, sb_order, sb_class, sb_local, 
                               sb_i, sb_idx, sb_t, sb_p, sb_best, sb_done, 
                               sb_k, sl_class, sl_local, sl_order, sl_frame, 
                               sl_i, sl_tc, sl_j, sl_found, sl_row, sl_jj, 
                               dl_class, dl_local, dl_order, dl_frame, dl_i, 
                               dl_tc, dl_j, dl_found, dl_new, dl_old, dl_jj, 
                               dl_oldclass, ag_order, ag_class, ag_local, 
                               ag_frame, ag_len, ag_start, ag_near, ag_done, 
                               ap_frame, ap_order, ap_class, ap_local, ad_c, 
                               ad_k, ad_old, cg_t, cg_mclass, cg_mfree, 
                               cg_cclass, cg_cop, cg_prev, cg_done, cg_fetched, 
                               cg_h, cg_v, cg_next, cg_ok, cg_seen, ac_id, 
                               ac_mclass, ac_mfree, ac_cclass, ac_cop, ac_i, 
                               ac_done, pcx, cur, blk >>

tg_rows(self) == /\ pc[self] = "tg_rows"
                 /\ IF tg_i[self] < tg_n[self] /\ tg_ok[self]
                       THEN /\ IF mem[(Row(tg_h[self], tg_r0[self] + tg_i[self]))] = (IF tg_exp[self] THEN AllBits ELSE {})
                                  THEN /\ tg_ok' = [tg_ok EXCEPT ![self] = TRUE]
                                       /\ tg_seen' = [tg_seen EXCEPT ![self] = IF tg_exp[self] THEN AllBits ELSE {}]
                                       /\ lastop' = [seq |-> lastop.seq + 1, t |-> self, k |-> "cas", loc |-> (Row(tg_h[self], tg_r0[self] + tg_i[self])), old |-> (IF tg_exp[self] THEN AllBits ELSE {}), new |-> (IF tg_exp[self] THEN {} ELSE AllBits), ok |-> TRUE]
                                       /\ mem' = [mem EXCEPT ![(Row(tg_h[self], tg_r0[self] + tg_i[self]))] = IF tg_exp[self] THEN {} ELSE AllBits]
                                  ELSE /\ tg_ok' = [tg_ok EXCEPT ![self] = FALSE]
                                       /\ tg_seen' = [tg_seen EXCEPT ![self] = mem[(Row(tg_h[self], tg_r0[self] + tg_i[self]))]]
                                       /\ lastop' = [seq |-> lastop.seq + 1, t |-> self, k |-> "cas", loc |-> (Row(tg_h[self], tg_r0[self] + tg_i[self])), old |-> mem[(Row(tg_h[self], tg_r0[self] + tg_i[self]))], new |-> (IF tg_exp[self] THEN {} ELSE AllBits), ok |-> FALSE]
                                       /\ mem' = mem
                            /\ IF tg_ok'[self]
                                  THEN /\ tg_i' = [tg_i EXCEPT ![self] = tg_i[self] + 1]
                                  ELSE /\ TRUE
                                       /\ tg_i' = tg_i
                            /\ pc' = [pc EXCEPT ![self] = "tg_rows"]
                            /\ UNCHANGED << rv, stack, tg_h, tg_off, tg_order, 
                                            tg_exp, tg_n, tg_u, tg_r0 >>
                       ELSE /\ IF ~tg_ok[self]
                                  THEN /\ tg_u' = [tg_u EXCEPT ![self] = tg_i[self] - 1]
                                       /\ pc' = [pc EXCEPT ![self] = "tg_undo"]
                                       /\ UNCHANGED << rv, stack, tg_h, tg_off, 
                                                       tg_order, tg_exp, tg_ok, 
                                                       tg_i, tg_n, tg_seen, 
                                                       tg_r0 >>
                                  ELSE /\ rv' = [rv EXCEPT ![self] = [ok |-> TRUE]]
                                       /\ pc' = [pc EXCEPT ![self] = Head(stack[self]).pc]
                                       /\ tg_ok' = [tg_ok EXCEPT ![self] = Head(stack[self]).tg_ok]
                                       /\ tg_i' = [tg_i EXCEPT ![self] = Head(stack[self]).tg_i]
                                       /\ tg_n' = [tg_n EXCEPT ![self] = Head(stack[self]).tg_n]
                                       /\ tg_seen' = [tg_seen EXCEPT ![self] = Head(stack[self]).tg_seen]
                                       /\ tg_u' = [tg_u EXCEPT ![self] = Head(stack[self]).tg_u]
                                       /\ tg_r0' = [tg_r0 EXCEPT ![self] = Head(stack[self]).tg_r0]
                                       /\ tg_h' = [tg_h EXCEPT ![self] = Head(stack[self]).tg_h]
                                       /\ tg_off' = [tg_off EXCEPT ![self] = Head(stack[self]).tg_off]
                                       /\ tg_order' = [tg_order EXCEPT ![self] = Head(stack[self]).tg_order]
                                       /\ tg_exp' = [tg_exp EXCEPT ![self] = Head(stack[self]).tg_exp]
                                       /\ stack' = [stack EXCEPT ![self] = Tail(stack[self])]
                            /\ UNCHANGED << mem, lastop >>
                 /\ UNCHANGED << held, results, inflight, panicked, hid, 
                                 dp_why, tu_loc, tu_fn, tu_arg, tu_prev, 
                                 tu_next, tu_done, tu_ok, tu_seen, lg_row, 
                                 lg_order, lg_tree, lg_off, lg_j, lg_i, lg_h, 
                                 lg_found, lg_frame, lg_n, ca_h0, ca_num, 
                                 ca_cur, ca_new, ca_i, ca_ok, ca_seen, ca_j, 
                                 sf_h, sf_start, sf_order, sf_i, sf_r, 
                                 sf_found, sf_off, sf_nrows, sf_c, sf_k, sf_v, 
                                 sf_zero, sf_ok, sf_seen, sf_u, la_frame, 
                                 la_order, la_h, ps_frame, ps_order, lp_frame, 
                                 lp_order, lp_h, lp_old, lp_ok, lp_seen, 
                                 lp_spin, lp_v, tp_t, tp_n, tu2_t, tu2_free, 
                                 tu2_class, gl_order, gl_class, gl_local, 
                                 gl_frame, gl_sync, gl_row, gl_res, gl_min, 
                                 gl_got, sg_i, sg_class, sg_order, sg_frame, 
                                 sg_c, rs_i, rs_order, rs_class, rs_local, 
                                 rs_reserved, rs_free, rs_tc, rs_frame, rs_old, 
                                 sb_n, sb_start, sb_offset, sb_len, sb_mode, 
                                 sb_order, sb_class, sb_local, sb_i, sb_idx, 
                                 sb_t, sb_p, sb_best, sb_done, sb_k, sl_class, 
                                 sl_local, sl_order, sl_frame, sl_i, sl_tc, 
                                 sl_j, sl_found, sl_row, sl_jj, dl_class, 
                                 dl_local, dl_order, dl_frame, dl_i, dl_tc, 
                                 dl_j, dl_found, dl_new, dl_old, dl_jj, 
                                 dl_oldclass, ag_order, ag_class, ag_local, 
                                 ag_frame, ag_len, ag_start, ag_near, ag_done, 
                                 ap_frame, ap_order, ap_class, ap_local, ad_c, 
                                 ad_k, ad_old, cg_t, cg_mclass, cg_mfree, 
                                 cg_cclass, cg_cop, cg_prev, cg_done, 
                                 cg_fetched, cg_h, cg_v, cg_next, cg_ok, 
                                 cg_seen, ac_id, ac_mclass, ac_mfree, 
                                 ac_cclass, ac_cop, ac_i, ac_done, pcx, cur, 
                                 blk >>

tg_undo(self) == /\ pc[self] = "tg_undo"
                 /\ IF tg_u[self] >= 0
                       THEN /\ IF mem[(Row(tg_h[self], tg_r0[self] + tg_u[self]))] = (IF tg_exp[self] THEN {} ELSE AllBits)
                                  THEN /\ tg_ok' = [tg_ok EXCEPT ![self] = TRUE]
                                       /\ tg_seen' = [tg_seen EXCEPT ![self] = IF tg_exp[self] THEN {} ELSE AllBits]
                                       /\ lastop' = [seq |-> lastop.seq + 1, t |-> self, k |-> "cas", loc |-> (Row(tg_h[self], tg_r0[self] + tg_u[self])), old |-> (IF tg_exp[self] THEN {} ELSE AllBits), new |-> (IF tg_exp[self] THEN AllBits ELSE {}), ok |-> TRUE]
                                       /\ mem' = [mem EXCEPT ![(Row(tg_h[self], tg_r0[self] + tg_u[self]))] = IF tg_exp[self] THEN AllBits ELSE {}]
                                  ELSE /\ tg_ok' = [tg_ok EXCEPT ![self] = FALSE]
                                       /\ tg_seen' = [tg_seen EXCEPT ![self] = mem[(Row(tg_h[self], tg_r0[self] + tg_u[self]))]]
                                       /\ lastop' = [seq |-> lastop.seq + 1, t |-> self, k |-> "cas", loc |-> (Row(tg_h[self], tg_r0[self] + tg_u[self])), old |-> mem[(Row(tg_h[self], tg_r0[self] + tg_u[self]))], new |-> (IF tg_exp[self] THEN AllBits ELSE {}), ok |-> FALSE]
                                       /\ mem' = mem
                            /\ IF ~tg_ok'[self]
                                  THEN /\ /\ dp_why' = [dp_why EXCEPT ![self] = "assertion"]
                                          /\ stack' = [stack EXCEPT ![self] = << [ procedure |->  "do_panic",
                                                                                   pc        |->  "tg_undo",
                                                                                   dp_why    |->  dp_why[self] ] >>
                                                                               \o stack[self]]
                                       /\ pc' = [pc EXCEPT ![self] = "dp_flag"]
                                       /\ tg_u' = tg_u
                                  ELSE /\ tg_u' = [tg_u EXCEPT ![self] = tg_u[self] - 1]
                                       /\ pc' = [pc EXCEPT ![self] = "tg_undo"]
                                       /\ UNCHANGED << stack, dp_why >>
                       ELSE /\ pc' = [pc EXCEPT ![self] = "tg_fail"]
                            /\ UNCHANGED << mem, lastop, stack, dp_why, tg_ok, 
                                            tg_seen, tg_u >>
                 /\ UNCHANGED << held, results, inflight, rv, panicked, hid, 
                                 tu_loc, tu_fn, tu_arg, tu_prev, tu_next, 
                                 tu_done, tu_ok, tu_seen, lg_row, lg_order, 
                                 lg_tree, lg_off, lg_j, lg_i, lg_h, lg_found, 
                                 lg_frame, lg_n, ca_h0, ca_num, ca_cur, ca_new, 
                                 ca_i, ca_ok, ca_seen, ca_j, sf_h, sf_start, 
                                 sf_order, sf_i, sf_r, sf_found, sf_off, 
                                 sf_nrows, sf_c, sf_k, sf_v, sf_zero, sf_ok, 
                                 sf_seen, sf_u, tg_h, tg_off, tg_order, tg_exp, 
                                 tg_i, tg_n, tg_r0, la_frame, la_order, la_h, 
                                 ps_frame, ps_order, lp_frame, lp_order, lp_h, 
                                 lp_old, lp_ok, lp_seen, lp_spin, lp_v, tp_t, 
                                 tp_n, tu2_t, tu2_free, tu2_class, gl_order, 
                                 gl_class, gl_local, gl_frame, gl_sync, gl_row, 
                                 gl_res, gl_min, gl_got, sg_i, sg_class, 
                                 sg_order, sg_frame, sg_c, rs_i, rs_order, 
                                 rs_class, rs_local, rs_reserved, rs_free, 
                                 rs_tc, rs_frame, rs_old, sb_n, sb_start, 
                                 sb_offset, sb_len, sb_mode, sb_order, 
                                 sb_class, sb_local, sb_i, sb_idx, sb_t, sb_p, 
                                 sb_best, sb_done, sb_k, sl_class, sl_local, 
                                 sl_order, sl_frame, sl_i, sl_tc, sl_j, 
                                 sl_found, sl_row, sl_jj, dl_class, dl_local, 
                                 dl_order, dl_frame, dl_i, dl_tc, dl_j, 
                                 dl_found, dl_new, dl_old, dl_jj, dl_oldclass, 
                                 ag_order, ag_class, ag_local, ag_frame, 
                                 ag_len, ag_start, ag_near, ag_done, ap_frame, 
                                 ap_order, ap_class, ap_local, ad_c, ad_k, 
                                 ad_old, cg_t, cg_mclass, cg_mfree, cg_cclass, 
                                 cg_cop, cg_prev, cg_done, cg_fetched, cg_h, 
                                 cg_v, cg_next, cg_ok, cg_seen, ac_id, 
                                 ac_mclass, ac_mfree, ac_cclass, ac_cop, ac_i, 
                                 ac_done, pcx, cur, blk >>

tg_fail(self) == /\ pc[self] = "tg_fail"
                 /\ rv' = [rv EXCEPT ![self] = [ok |-> FALSE]]
                 /\ pc' = [pc EXCEPT ![self] = Head(stack[self]).pc]
                 /\ tg_ok' = [tg_ok EXCEPT ![self] = Head(stack[self]).tg_ok]
                 /\ tg_i' = [tg_i EXCEPT ![self] = Head(stack[self]).tg_i]
                 /\ tg_n' = [tg_n EXCEPT ![self] = Head(stack[self]).tg_n]
                 /\ tg_seen' = [tg_seen EXCEPT ![self] = Head(stack[self]).tg_seen]
                 /\ tg_u' = [tg_u EXCEPT ![self] = Head(stack[self]).tg_u]
                 /\ tg_r0' = [tg_r0 EXCEPT ![self] = Head(stack[self]).tg_r0]
                 /\ tg_h' = [tg_h EXCEPT ![self] = Head(stack[self]).tg_h]
                 /\ tg_off' = [tg_off EXCEPT ![self] = Head(stack[self]).tg_off]
                 /\ tg_order' = [tg_order EXCEPT ![self] = Head(stack[self]).tg_order]
                 /\ tg_exp' = [tg_exp EXCEPT ![self] = Head(stack[self]).tg_exp]
                 /\ stack' = [stack EXCEPT ![self] = Tail(stack[self])]
                 /\ UNCHANGED << mem, held, results, inflight, panicked, hid, 
                                 lastop, dp_why, tu_loc, tu_fn, tu_arg, 
                                 tu_prev, tu_next, tu_done, tu_ok, tu_seen, 
                                 lg_row, lg_order, lg_tree, lg_off, lg_j, lg_i, 
                                 lg_h, lg_found, lg_frame, lg_n, ca_h0, ca_num, 
                                 ca_cur, ca_new, ca_i, ca_ok, ca_seen, ca_j, 
                                 sf_h, sf_start, sf_order, sf_i, sf_r, 
                                 sf_found, sf_off, sf_nrows, sf_c, sf_k, sf_v, 
                                 sf_zero, sf_ok, sf_seen, sf_u, la_frame, 
                                 la_order, la_h, ps_frame, ps_order, lp_frame, 
                                 lp_order, lp_h, lp_old, lp_ok, lp_seen, 
                                 lp_spin, lp_v, tp_t, tp_n, tu2_t, tu2_free, 
                                 tu2_class, gl_order, gl_class, gl_local, 
                                 gl_frame, gl_sync, gl_row, gl_res, gl_min, 
                                 gl_got, sg_i, sg_class, sg_order, sg_frame, 
                                 sg_c, rs_i, rs_order, rs_class, rs_local, 
                                 rs_reserved, rs_free, rs_tc, rs_frame, rs_old, 
                                 sb_n, sb_start, sb_offset, sb_len, sb_mode, 
                                 sb_order, sb_class, sb_local, sb_i, sb_idx, 
                                 sb_t, sb_p, sb_best, sb_done, sb_k, sl_class, 
                                 sl_local, sl_order, sl_frame, sl_i, sl_tc, 
                                 sl_j, sl_found, sl_row, sl_jj, dl_class, 
                                 dl_local, dl_order, dl_frame, dl_i, dl_tc, 
                                 dl_j, dl_found, dl_new, dl_old, dl_jj, 
                                 dl_oldclass, ag_order, ag_class, ag_local, 
                                 ag_frame, ag_len, ag_start, ag_near, ag_done, 
                                 ap_frame, ap_order, ap_class, ap_local, ad_c, 
                                 ad_k, ad_old, cg_t, cg_mclass, cg_mfree, 
                                 cg_cclass, cg_cop, cg_prev, cg_done, 
                                 cg_fetched, cg_h, cg_v, cg_next, cg_ok, 
                                 cg_seen, ac_id, ac_mclass, ac_mfree, 
                                 ac_cclass, ac_cop, ac_i, ac_done, pcx, cur, 
                                 blk >>

toggle(self) == tg_begin(self) \/ tg_small_r(self) \/ tg_int(self)
                   \/ Lbl_1(self) \/ tg_int64(self) \/ Lbl_2(self)
                   \/ tg_rows(self) \/ tg_undo(self) \/ tg_fail(self)

la_begin(self) == /\ pc[self] = "la_begin"
                  /\ la_h' = [la_h EXCEPT ![self] = HugeOfFrame(la_frame[self])]
                  /\ IF la_order[self] >= HO
                        THEN /\ /\ ca_cur' = [ca_cur EXCEPT ![self] = LEN]
                                /\ ca_h0' = [ca_h0 EXCEPT ![self] = la_h'[self]]
                                /\ ca_new' = [ca_new EXCEPT ![self] = HUGE]
                                /\ ca_num' = [ca_num EXCEPT ![self] = P2(la_order[self] - HO)]
                                /\ stack' = [stack EXCEPT ![self] = << [ procedure |->  "cmpxchg_all",
                                                                         pc        |->  "la_huge_r",
                                                                         ca_i      |->  ca_i[self],
                                                                         ca_ok     |->  ca_ok[self],
                                                                         ca_seen   |->  ca_seen[self],
                                                                         ca_j      |->  ca_j[self],
                                                                         ca_h0     |->  ca_h0[self],
                                                                         ca_num    |->  ca_num[self],
                                                                         ca_cur    |->  ca_cur[self],
                                                                         ca_new    |->  ca_new[self] ] >>
                                                                     \o stack[self]]
                             /\ ca_i' = [ca_i EXCEPT ![self] = 0]
                             /\ ca_ok' = [ca_ok EXCEPT ![self] = TRUE]
                             /\ ca_seen' = [ca_seen EXCEPT ![self] = 0]
                             /\ ca_j' = [ca_j EXCEPT ![self] = 0]
                             /\ pc' = [pc EXCEPT ![self] = "ca_start"]
                             /\ UNCHANGED << tu_loc, tu_fn, tu_arg, tu_prev, 
                                             tu_next, tu_done, tu_ok, tu_seen >>
                        ELSE /\ /\ stack' = [stack EXCEPT ![self] = << [ procedure |->  "try_update",
                                                                         pc        |->  "la_dec_r",
                                                                         tu_prev   |->  tu_prev[self],
                                                                         tu_next   |->  tu_next[self],
                                                                         tu_done   |->  tu_done[self],
                                                                         tu_ok     |->  tu_ok[self],
                                                                         tu_seen   |->  tu_seen[self],
                                                                         tu_loc    |->  tu_loc[self],
                                                                         tu_fn     |->  tu_fn[self],
                                                                         tu_arg    |->  tu_arg[self] ] >>
                                                                     \o stack[self]]
                                /\ tu_arg' = [tu_arg EXCEPT ![self] = P2(la_order[self])]
                                /\ tu_fn' = [tu_fn EXCEPT ![self] = "edec"]
                                /\ tu_loc' = [tu_loc EXCEPT ![self] = Entry(la_h'[self])]
                             /\ tu_prev' = [tu_prev EXCEPT ![self] = 0]
                             /\ tu_next' = [tu_next EXCEPT ![self] = <<>>]
                             /\ tu_done' = [tu_done EXCEPT ![self] = FALSE]
                             /\ tu_ok' = [tu_ok EXCEPT ![self] = FALSE]
                             /\ tu_seen' = [tu_seen EXCEPT ![self] = 0]
                             /\ pc' = [pc EXCEPT ![self] = "tu_load"]
                             /\ UNCHANGED << ca_h0, ca_num, ca_cur, ca_new, 
                                             ca_i, ca_ok, ca_seen, ca_j >>
                  /\ UNCHANGED << mem, held, results, inflight, rv, panicked, 
                                  hid, lastop, dp_why, lg_row, lg_order, 
                                  lg_tree, lg_off, lg_j, lg_i, lg_h, lg_found, 
                                  lg_frame, lg_n, sf_h, sf_start, sf_order, 
                                  sf_i, sf_r, sf_found, sf_off, sf_nrows, sf_c, 
                                  sf_k, sf_v, sf_zero, sf_ok, sf_seen, sf_u, 
                                  tg_h, tg_off, tg_order, tg_exp, tg_ok, tg_i, 
                                  tg_n, tg_seen, tg_u, tg_r0, la_frame, 
                                  la_order, ps_frame, ps_order, lp_frame, 
                                  lp_order, lp_h, lp_old, lp_ok, lp_seen, 
                                  lp_spin, lp_v, tp_t, tp_n, tu2_t, tu2_free, 
                                  tu2_class, gl_order, gl_class, gl_local, 
                                  gl_frame, gl_sync, gl_row, gl_res, gl_min, 
                                  gl_got, sg_i, sg_class, sg_order, sg_frame, 
                                  sg_c, rs_i, rs_order, rs_class, rs_local, 
                                  rs_reserved, rs_free, rs_tc, rs_frame, 
                                  rs_old, sb_n, sb_start, sb_offset, sb_len, 
                                  sb_mode, sb_order, sb_class, sb_local, sb_i, 
                                  sb_idx, sb_t, sb_p, sb_best, sb_done, sb_k, 
                                  sl_class, sl_local, sl_order, sl_frame, sl_i, 
                                  sl_tc, sl_j, sl_found, sl_row, sl_jj, 
                                  dl_class, dl_local, dl_order, dl_frame, dl_i, 
                                  dl_tc, dl_j, dl_found, dl_new, dl_old, dl_jj, 
                                  dl_oldclass, ag_order, ag_class, ag_local, 
                                  ag_frame, ag_len, ag_start, ag_near, ag_done, 
                                  ap_frame, ap_order, ap_class, ap_local, ad_c, 
                                  ad_k, ad_old, cg_t, cg_mclass, cg_mfree, 
                                  cg_cclass, cg_cop, cg_prev, cg_done, 
                                  cg_fetched, cg_h, cg_v, cg_next, cg_ok, 
                                  cg_seen, ac_id, ac_mclass, ac_mfree, 
                                  ac_cclass, ac_cop, ac_i, ac_done, pcx, cur, 
                                  blk >>

la_huge_r(self) == /\ pc[self] = "la_huge_r"
                   /\ rv' = [rv EXCEPT ![self] = [ok |-> rv[self].ok, frame |-> la_frame[self], err |-> "mem"]]
                   /\ pc' = [pc EXCEPT ![self] = Head(stack[self]).pc]
                   /\ la_h' = [la_h EXCEPT ![self] = Head(stack[self]).la_h]
                   /\ la_frame' = [la_frame EXCEPT ![self] = Head(stack[self]).la_frame]
                   /\ la_order' = [la_order EXCEPT ![self] = Head(stack[self]).la_order]
                   /\ stack' = [stack EXCEPT ![self] = Tail(stack[self])]
                   /\ UNCHANGED << mem, held, results, inflight, panicked, hid, 
                                   lastop, dp_why, tu_loc, tu_fn, tu_arg, 
                                   tu_prev, tu_next, tu_done, tu_ok, tu_seen, 
                                   lg_row, lg_order, lg_tree, lg_off, lg_j, 
                                   lg_i, lg_h, lg_found, lg_frame, lg_n, ca_h0, 
                                   ca_num, ca_cur, ca_new, ca_i, ca_ok, 
                                   ca_seen, ca_j, sf_h, sf_start, sf_order, 
                                   sf_i, sf_r, sf_found, sf_off, sf_nrows, 
                                   sf_c, sf_k, sf_v, sf_zero, sf_ok, sf_seen, 
                                   sf_u, tg_h, tg_off, tg_order, tg_exp, tg_ok, 
                                   tg_i, tg_n, tg_seen, tg_u, tg_r0, ps_frame, 
                                   ps_order, lp_frame, lp_order, lp_h, lp_old, 
                                   lp_ok, lp_seen, lp_spin, lp_v, tp_t, tp_n, 
                                   tu2_t, tu2_free, tu2_class, gl_order, 
                                   gl_class, gl_local, gl_frame, gl_sync, 
                                   gl_row, gl_res, gl_min, gl_got, sg_i, 
                                   sg_class, sg_order, sg_frame, sg_c, rs_i, 
                                   rs_order, rs_class, rs_local, rs_reserved, 
                                   rs_free, rs_tc, rs_frame, rs_old, sb_n, 
                                   sb_start, sb_offset, sb_len, sb_mode, 
                                   sb_order, sb_class, sb_local, sb_i, sb_idx, 
                                   sb_t, sb_p, sb_best, sb_done, sb_k, 
                                   sl_class, sl_local, sl_order, sl_frame, 
                                   sl_i, sl_tc, sl_j, sl_found, sl_row, sl_jj, 
                                   dl_class, dl_local, dl_order, dl_frame, 
                                   dl_i, dl_tc, dl_j, dl_found, dl_new, dl_old, 
                                   dl_jj, dl_oldclass, ag_order, ag_class, 
                                   ag_local, ag_frame, ag_len, ag_start, 
                                   ag_near, ag_done, ap_frame, ap_order, 
                                   ap_class, ap_local, ad_c, ad_k, ad_old, 
                                   cg_t, cg_mclass, cg_mfree, cg_cclass, 
                                   cg_cop, cg_prev, cg_done, cg_fetched, cg_h, 
                                   cg_v, cg_next, cg_ok, cg_seen, ac_id, 
                                   ac_mclass, ac_mfree, ac_cclass, ac_cop, 
                                   ac_i, ac_done, pcx, cur, blk >>

la_dec_r(self) == /\ pc[self] = "la_dec_r"
                  /\ IF rv[self].ok
                        THEN /\ /\ stack' = [stack EXCEPT ![self] = << [ procedure |->  "toggle",
                                                                         pc        |->  "la_tog_r",
                                                                         tg_ok     |->  tg_ok[self],
                                                                         tg_i      |->  tg_i[self],
                                                                         tg_n      |->  tg_n[self],
                                                                         tg_seen   |->  tg_seen[self],
                                                                         tg_u      |->  tg_u[self],
                                                                         tg_r0     |->  tg_r0[self],
                                                                         tg_h      |->  tg_h[self],
                                                                         tg_off    |->  tg_off[self],
                                                                         tg_order  |->  tg_order[self],
                                                                         tg_exp    |->  tg_exp[self] ] >>
                                                                     \o stack[self]]
                                /\ tg_exp' = [tg_exp EXCEPT ![self] = FALSE]
                                /\ tg_h' = [tg_h EXCEPT ![self] = la_h[self]]
                                /\ tg_off' = [tg_off EXCEPT ![self] = la_frame[self] % HF]
                                /\ tg_order' = [tg_order EXCEPT ![self] = la_order[self]]
                             /\ tg_ok' = [tg_ok EXCEPT ![self] = FALSE]
                             /\ tg_i' = [tg_i EXCEPT ![self] = 0]
                             /\ tg_n' = [tg_n EXCEPT ![self] = 0]
                             /\ tg_seen' = [tg_seen EXCEPT ![self] = {}]
                             /\ tg_u' = [tg_u EXCEPT ![self] = 0]
                             /\ tg_r0' = [tg_r0 EXCEPT ![self] = 0]
                             /\ pc' = [pc EXCEPT ![self] = "tg_begin"]
                             /\ UNCHANGED << rv, la_frame, la_order, la_h >>
                        ELSE /\ rv' = [rv EXCEPT ![self] = [ok |-> FALSE, frame |-> la_frame[self], err |-> "mem"]]
                             /\ pc' = [pc EXCEPT ![self] = Head(stack[self]).pc]
                             /\ la_h' = [la_h EXCEPT ![self] = Head(stack[self]).la_h]
                             /\ la_frame' = [la_frame EXCEPT ![self] = Head(stack[self]).la_frame]
                             /\ la_order' = [la_order EXCEPT ![self] = Head(stack[self]).la_order]
                             /\ stack' = [stack EXCEPT ![self] = Tail(stack[self])]
                             /\ UNCHANGED << tg_h, tg_off, tg_order, tg_exp, 
                                             tg_ok, tg_i, tg_n, tg_seen, tg_u, 
                                             tg_r0 >>
                  /\ UNCHANGED << mem, held, results, inflight, panicked, hid, 
                                  lastop, dp_why, tu_loc, tu_fn, tu_arg, 
                                  tu_prev, tu_next, tu_done, tu_ok, tu_seen, 
                                  lg_row, lg_order, lg_tree, lg_off, lg_j, 
                                  lg_i, lg_h, lg_found, lg_frame, lg_n, ca_h0, 
                                  ca_num, ca_cur, ca_new, ca_i, ca_ok, ca_seen, 
                                  ca_j, sf_h, sf_start, sf_order, sf_i, sf_r, 
                                  sf_found, sf_off, sf_nrows, sf_c, sf_k, sf_v, 
                                  sf_zero, sf_ok, sf_seen, sf_u, ps_frame, 
                                  ps_order, lp_frame, lp_order, lp_h, lp_old, 
                                  lp_ok, lp_seen, lp_spin, lp_v, tp_t, tp_n, 
                                  tu2_t, tu2_free, tu2_class, gl_order, 
                                  gl_class, gl_local, gl_frame, gl_sync, 
                                  gl_row, gl_res, gl_min, gl_got, sg_i, 
                                  sg_class, sg_order, sg_frame, sg_c, rs_i, 
                                  rs_order, rs_class, rs_local, rs_reserved, 
                                  rs_free, rs_tc, rs_frame, rs_old, sb_n, 
                                  sb_start, sb_offset, sb_len, sb_mode, 
                                  sb_order, sb_class, sb_local, sb_i, sb_idx, 
                                  sb_t, sb_p, sb_best, sb_done, sb_k, sl_class, 
                                  sl_local, sl_order, sl_frame, sl_i, sl_tc, 
                                  sl_j, sl_found, sl_row, sl_jj, dl_class, 
                                  dl_local, dl_order, dl_frame, dl_i, dl_tc, 
                                  dl_j, dl_found, dl_new, dl_old, dl_jj, 
                                  dl_oldclass, ag_order, ag_class, ag_local, 
                                  ag_frame, ag_len, ag_start, ag_near, ag_done, 
                                  ap_frame, ap_order, ap_class, ap_local, ad_c, 
                                  ad_k, ad_old, cg_t, cg_mclass, cg_mfree, 
                                  cg_cclass, cg_cop, cg_prev, cg_done, 
                                  cg_fetched, cg_h, cg_v, cg_next, cg_ok, 
                                  cg_seen, ac_id, ac_mclass, ac_mfree, 
                                  ac_cclass, ac_cop, ac_i, ac_done, pcx, cur, 
                                  blk >>

la_tog_r(self) == /\ pc[self] = "la_tog_r"
                  /\ IF rv[self].ok
                        THEN /\ rv' = [rv EXCEPT ![self] = [ok |-> TRUE, frame |-> la_frame[self], err |-> "mem"]]
                             /\ pc' = [pc EXCEPT ![self] = Head(stack[self]).pc]
                             /\ la_h' = [la_h EXCEPT ![self] = Head(stack[self]).la_h]
                             /\ la_frame' = [la_frame EXCEPT ![self] = Head(stack[self]).la_frame]
                             /\ la_order' = [la_order EXCEPT ![self] = Head(stack[self]).la_order]
                             /\ stack' = [stack EXCEPT ![self] = Tail(stack[self])]
                             /\ UNCHANGED << tu_loc, tu_fn, tu_arg, tu_prev, 
                                             tu_next, tu_done, tu_ok, tu_seen >>
                        ELSE /\ /\ stack' = [stack EXCEPT ![self] = << [ procedure |->  "try_update",
                                                                         pc        |->  "la_undo_r",
                                                                         tu_prev   |->  tu_prev[self],
                                                                         tu_next   |->  tu_next[self],
                                                                         tu_done   |->  tu_done[self],
                                                                         tu_ok     |->  tu_ok[self],
                                                                         tu_seen   |->  tu_seen[self],
                                                                         tu_loc    |->  tu_loc[self],
                                                                         tu_fn     |->  tu_fn[self],
                                                                         tu_arg    |->  tu_arg[self] ] >>
                                                                     \o stack[self]]
                                /\ tu_arg' = [tu_arg EXCEPT ![self] = P2(la_order[self])]
                                /\ tu_fn' = [tu_fn EXCEPT ![self] = "einc"]
                                /\ tu_loc' = [tu_loc EXCEPT ![self] = Entry(la_h[self])]
                             /\ tu_prev' = [tu_prev EXCEPT ![self] = 0]
                             /\ tu_next' = [tu_next EXCEPT ![self] = <<>>]
                             /\ tu_done' = [tu_done EXCEPT ![self] = FALSE]
                             /\ tu_ok' = [tu_ok EXCEPT ![self] = FALSE]
                             /\ tu_seen' = [tu_seen EXCEPT ![self] = 0]
                             /\ pc' = [pc EXCEPT ![self] = "tu_load"]
                             /\ UNCHANGED << rv, la_frame, la_order, la_h >>
                  /\ UNCHANGED << mem, held, results, inflight, panicked, hid, 
                                  lastop, dp_why, lg_row, lg_order, lg_tree, 
                                  lg_off, lg_j, lg_i, lg_h, lg_found, lg_frame, 
                                  lg_n, ca_h0, ca_num, ca_cur, ca_new, ca_i, 
                                  ca_ok, ca_seen, ca_j, sf_h, sf_start, 
                                  sf_order, sf_i, sf_r, sf_found, sf_off, 
                                  sf_nrows, sf_c, sf_k, sf_v, sf_zero, sf_ok, 
                                  sf_seen, sf_u, tg_h, tg_off, tg_order, 
                                  tg_exp, tg_ok, tg_i, tg_n, tg_seen, tg_u, 
                                  tg_r0, ps_frame, ps_order, lp_frame, 
                                  lp_order, lp_h, lp_old, lp_ok, lp_seen, 
                                  lp_spin, lp_v, tp_t, tp_n, tu2_t, tu2_free, 
                                  tu2_class, gl_order, gl_class, gl_local, 
                                  gl_frame, gl_sync, gl_row, gl_res, gl_min, 
                                  gl_got, sg_i, sg_class, sg_order, sg_frame, 
                                  sg_c, rs_i, rs_order, rs_class, rs_local, 
                                  rs_reserved, rs_free, rs_tc, rs_frame, 
                                  rs_old, sb_n, sb_start, sb_offset, sb_len, 
                                  sb_mode, sb_order, sb_class, sb_local, sb_i, 
                                  sb_idx, sb_t, sb_p, sb_best, sb_done, sb_k, 
                                  sl_class, sl_local, sl_order, sl_frame, sl_i, 
                                  sl_tc, sl_j, sl_found, sl_row, sl_jj, 
                                  dl_class, dl_local, dl_order, dl_frame, dl_i, 
                                  dl_tc, dl_j, dl_found, dl_new, dl_old, dl_jj, 
                                  dl_oldclass, ag_order, ag_class, ag_local, 
                                  ag_frame, ag_len, ag_start, ag_near, ag_done, 
                                  ap_frame, ap_order, ap_class, ap_local, ad_c, 
                                  ad_k, ad_old, cg_t, cg_mclass, cg_mfree, 
                                  cg_cclass, cg_cop, cg_prev, cg_done, 
                                  cg_fetched, cg_h, cg_v, cg_next, cg_ok, 
                                  cg_seen, ac_id, ac_mclass, ac_mfree, 
                                  ac_cclass, ac_cop, ac_i, ac_done, pcx, cur, 
                                  blk >>

la_undo_r(self) == /\ pc[self] = "la_undo_r"
                   /\ IF ~rv[self].ok
                         THEN /\ /\ dp_why' = [dp_why EXCEPT ![self] = "assertion"]
                                 /\ stack' = [stack EXCEPT ![self] = << [ procedure |->  "do_panic",
                                                                          pc        |->  "Error",
                                                                          dp_why    |->  dp_why[self] ] >>
                                                                      \o stack[self]]
                              /\ pc' = [pc EXCEPT ![self] = "dp_flag"]
                              /\ UNCHANGED << rv, la_frame, la_order, la_h >>
                         ELSE /\ rv' = [rv EXCEPT ![self] = [ok |-> FALSE, frame |-> la_frame[self], err |-> "mem"]]
                              /\ pc' = [pc EXCEPT ![self] = Head(stack[self]).pc]
                              /\ la_h' = [la_h EXCEPT ![self] = Head(stack[self]).la_h]
                              /\ la_frame' = [la_frame EXCEPT ![self] = Head(stack[self]).la_frame]
                              /\ la_order' = [la_order EXCEPT ![self] = Head(stack[self]).la_order]
                              /\ stack' = [stack EXCEPT ![self] = Tail(stack[self])]
                              /\ UNCHANGED dp_why
                   /\ UNCHANGED << mem, held, results, inflight, panicked, hid, 
                                   lastop, tu_loc, tu_fn, tu_arg, tu_prev, 
                                   tu_next, tu_done, tu_ok, tu_seen, lg_row, 
                                   lg_order, lg_tree, lg_off, lg_j, lg_i, lg_h, 
                                   lg_found, lg_frame, lg_n, ca_h0, ca_num, 
                                   ca_cur, ca_new, ca_i, ca_ok, ca_seen, ca_j, 
                                   sf_h, sf_start, sf_order, sf_i, sf_r, 
                                   sf_found, sf_off, sf_nrows, sf_c, sf_k, 
                                   sf_v, sf_zero, sf_ok, sf_seen, sf_u, tg_h, 
                                   tg_off, tg_order, tg_exp, tg_ok, tg_i, tg_n, 
                                   tg_seen, tg_u, tg_r0, ps_frame, ps_order, 
                                   lp_frame, lp_order, lp_h, lp_old, lp_ok, 
                                   lp_seen, lp_spin, lp_v, tp_t, tp_n, tu2_t, 
                                   tu2_free, tu2_class, gl_order, gl_class, 
                                   gl_local, gl_frame, gl_sync, gl_row, gl_res, 
                                   gl_min, gl_got, sg_i, sg_class, sg_order, 
                                   sg_frame, sg_c, rs_i, rs_order, rs_class, 
                                   rs_local, rs_reserved, rs_free, rs_tc, 
                                   rs_frame, rs_old, sb_n, sb_start, sb_offset, 
                                   sb_len, sb_mode, sb_order, sb_class, 
                                   sb_local, sb_i, sb_idx, sb_t, sb_p, sb_best, 
                                   sb_done, sb_k, sl_class, sl_local, sl_order, 
                                   sl_frame, sl_i, sl_tc, sl_j, sl_found, 
                                   sl_row, sl_jj, dl_class, dl_local, dl_order, 
                                   dl_frame, dl_i, dl_tc, dl_j, dl_found, 
                                   dl_new, dl_old, dl_jj, dl_oldclass, 
                                   ag_order, ag_class, ag_local, ag_frame, 
                                   ag_len, ag_start, ag_near, ag_done, 
                                   ap_frame, ap_order, ap_class, ap_local, 
                                   ad_c, ad_k, ad_old, cg_t, cg_mclass, 
                                   cg_mfree, cg_cclass, cg_cop, cg_prev, 
                                   cg_done, cg_fetched, cg_h, cg_v, cg_next, 
                                   cg_ok, cg_seen, ac_id, ac_mclass, ac_mfree, 
                                   ac_cclass, ac_cop, ac_i, ac_done, pcx, cur, 
                                   blk >>

lower_get_at(self) == la_begin(self) \/ la_huge_r(self) \/ la_dec_r(self)
                         \/ la_tog_r(self) \/ la_undo_r(self)

ps_begin(self) == /\ pc[self] = "ps_begin"
                  /\ /\ stack' = [stack EXCEPT ![self] = << [ procedure |->  "toggle",
                                                              pc        |->  "ps_tog_r",
                                                              tg_ok     |->  tg_ok[self],
                                                              tg_i      |->  tg_i[self],
                                                              tg_n      |->  tg_n[self],
                                                              tg_seen   |->  tg_seen[self],
                                                              tg_u      |->  tg_u[self],
                                                              tg_r0     |->  tg_r0[self],
                                                              tg_h      |->  tg_h[self],
                                                              tg_off    |->  tg_off[self],
                                                              tg_order  |->  tg_order[self],
                                                              tg_exp    |->  tg_exp[self] ] >>
                                                          \o stack[self]]
                     /\ tg_exp' = [tg_exp EXCEPT ![self] = TRUE]
                     /\ tg_h' = [tg_h EXCEPT ![self] = HugeOfFrame(ps_frame[self])]
                     /\ tg_off' = [tg_off EXCEPT ![self] = ps_frame[self] % HF]
                     /\ tg_order' = [tg_order EXCEPT ![self] = ps_order[self]]
                  /\ tg_ok' = [tg_ok EXCEPT ![self] = FALSE]
                  /\ tg_i' = [tg_i EXCEPT ![self] = 0]
                  /\ tg_n' = [tg_n EXCEPT ![self] = 0]
                  /\ tg_seen' = [tg_seen EXCEPT ![self] = {}]
                  /\ tg_u' = [tg_u EXCEPT ![self] = 0]
                  /\ tg_r0' = [tg_r0 EXCEPT ![self] = 0]
                  /\ pc' = [pc EXCEPT ![self] = "tg_begin"]
                  /\ UNCHANGED << mem, held, results, inflight, rv, panicked, 
                                  hid, lastop, dp_why, tu_loc, tu_fn, tu_arg, 
                                  tu_prev, tu_next, tu_done, tu_ok, tu_seen, 
                                  lg_row, lg_order, lg_tree, lg_off, lg_j, 
                                  lg_i, lg_h, lg_found, lg_frame, lg_n, ca_h0, 
                                  ca_num, ca_cur, ca_new, ca_i, ca_ok, ca_seen, 
                                  ca_j, sf_h, sf_start, sf_order, sf_i, sf_r, 
                                  sf_found, sf_off, sf_nrows, sf_c, sf_k, sf_v, 
                                  sf_zero, sf_ok, sf_seen, sf_u, la_frame, 
                                  la_order, la_h, ps_frame, ps_order, lp_frame, 
                                  lp_order, lp_h, lp_old, lp_ok, lp_seen, 
                                  lp_spin, lp_v, tp_t, tp_n, tu2_t, tu2_free, 
                                  tu2_class, gl_order, gl_class, gl_local, 
                                  gl_frame, gl_sync, gl_row, gl_res, gl_min, 
                                  gl_got, sg_i, sg_class, sg_order, sg_frame, 
                                  sg_c, rs_i, rs_order, rs_class, rs_local, 
                                  rs_reserved, rs_free, rs_tc, rs_frame, 
                                  rs_old, sb_n, sb_start, sb_offset, sb_len, 
                                  sb_mode, sb_order, sb_class, sb_local, sb_i, 
                                  sb_idx, sb_t, sb_p, sb_best, sb_done, sb_k, 
                                  sl_class, sl_local, sl_order, sl_frame, sl_i, 
                                  sl_tc, sl_j, sl_found, sl_row, sl_jj, 
                                  dl_class, dl_local, dl_order, dl_frame, dl_i, 
                                  dl_tc, dl_j, dl_found, dl_new, dl_old, dl_jj, 
                                  dl_oldclass, ag_order, ag_class, ag_local, 
                                  ag_frame, ag_len, ag_start, ag_near, ag_done, 
                                  ap_frame, ap_order, ap_class, ap_local, ad_c, 
                                  ad_k, ad_old, cg_t, cg_mclass, cg_mfree, 
                                  cg_cclass, cg_cop, cg_prev, cg_done, 
                                  cg_fetched, cg_h, cg_v, cg_next, cg_ok, 
                                  cg_seen, ac_id, ac_mclass, ac_mfree, 
                                  ac_cclass, ac_cop, ac_i, ac_done, pcx, cur, 
                                  blk >>

ps_tog_r(self) == /\ pc[self] = "ps_tog_r"
                  /\ IF ~rv[self].ok
                        THEN /\ rv' = [rv EXCEPT ![self] = [ok |-> FALSE]]
                             /\ pc' = [pc EXCEPT ![self] = Head(stack[self]).pc]
                             /\ ps_frame' = [ps_frame EXCEPT ![self] = Head(stack[self]).ps_frame]
                             /\ ps_order' = [ps_order EXCEPT ![self] = Head(stack[self]).ps_order]
                             /\ stack' = [stack EXCEPT ![self] = Tail(stack[self])]
                             /\ UNCHANGED << tu_loc, tu_fn, tu_arg, tu_prev, 
                                             tu_next, tu_done, tu_ok, tu_seen >>
                        ELSE /\ /\ stack' = [stack EXCEPT ![self] = << [ procedure |->  "try_update",
                                                                         pc        |->  "ps_inc_r",
                                                                         tu_prev   |->  tu_prev[self],
                                                                         tu_next   |->  tu_next[self],
                                                                         tu_done   |->  tu_done[self],
                                                                         tu_ok     |->  tu_ok[self],
                                                                         tu_seen   |->  tu_seen[self],
                                                                         tu_loc    |->  tu_loc[self],
                                                                         tu_fn     |->  tu_fn[self],
                                                                         tu_arg    |->  tu_arg[self] ] >>
                                                                     \o stack[self]]
                                /\ tu_arg' = [tu_arg EXCEPT ![self] = P2(ps_order[self])]
                                /\ tu_fn' = [tu_fn EXCEPT ![self] = "einc"]
                                /\ tu_loc' = [tu_loc EXCEPT ![self] = Entry(HugeOfFrame(ps_frame[self]))]
                             /\ tu_prev' = [tu_prev EXCEPT ![self] = 0]
                             /\ tu_next' = [tu_next EXCEPT ![self] = <<>>]
                             /\ tu_done' = [tu_done EXCEPT ![self] = FALSE]
                             /\ tu_ok' = [tu_ok EXCEPT ![self] = FALSE]
                             /\ tu_seen' = [tu_seen EXCEPT ![self] = 0]
                             /\ pc' = [pc EXCEPT ![self] = "tu_load"]
                             /\ UNCHANGED << rv, ps_frame, ps_order >>
                  /\ UNCHANGED << mem, held, results, inflight, panicked, hid, 
                                  lastop, dp_why, lg_row, lg_order, lg_tree, 
                                  lg_off, lg_j, lg_i, lg_h, lg_found, lg_frame, 
                                  lg_n, ca_h0, ca_num, ca_cur, ca_new, ca_i, 
                                  ca_ok, ca_seen, ca_j, sf_h, sf_start, 
                                  sf_order, sf_i, sf_r, sf_found, sf_off, 
                                  sf_nrows, sf_c, sf_k, sf_v, sf_zero, sf_ok, 
                                  sf_seen, sf_u, tg_h, tg_off, tg_order, 
                                  tg_exp, tg_ok, tg_i, tg_n, tg_seen, tg_u, 
                                  tg_r0, la_frame, la_order, la_h, lp_frame, 
                                  lp_order, lp_h, lp_old, lp_ok, lp_seen, 
                                  lp_spin, lp_v, tp_t, tp_n, tu2_t, tu2_free, 
                                  tu2_class, gl_order, gl_class, gl_local, 
                                  gl_frame, gl_sync, gl_row, gl_res, gl_min, 
                                  gl_got, sg_i, sg_class, sg_order, sg_frame, 
                                  sg_c, rs_i, rs_order, rs_class, rs_local, 
                                  rs_reserved, rs_free, rs_tc, rs_frame, 
                                  rs_old, sb_n, sb_start, sb_offset, sb_len, 
                                  sb_mode, sb_order, sb_class, sb_local, sb_i, 
                                  sb_idx, sb_t, sb_p, sb_best, sb_done, sb_k, 
                                  sl_class, sl_local, sl_order, sl_frame, sl_i, 
                                  sl_tc, sl_j, sl_found, sl_row, sl_jj, 
                                  dl_class, dl_local, dl_order, dl_frame, dl_i, 
                                  dl_tc, dl_j, dl_found, dl_new, dl_old, dl_jj, 
                                  dl_oldclass, ag_order, ag_class, ag_local, 
                                  ag_frame, ag_len, ag_start, ag_near, ag_done, 
                                  ap_frame, ap_order, ap_class, ap_local, ad_c, 
                                  ad_k, ad_old, cg_t, cg_mclass, cg_mfree, 
                                  cg_cclass, cg_cop, cg_prev, cg_done, 
                                  cg_fetched, cg_h, cg_v, cg_next, cg_ok, 
                                  cg_seen, ac_id, ac_mclass, ac_mfree, 
                                  ac_cclass, ac_cop, ac_i, ac_done, pcx, cur, 
                                  blk >>

ps_inc_r(self) == /\ pc[self] = "ps_inc_r"
                  /\ IF ~rv[self].ok
                        THEN /\ /\ dp_why' = [dp_why EXCEPT ![self] = "assertion"]
                                /\ stack' = [stack EXCEPT ![self] = << [ procedure |->  "do_panic",
                                                                         pc        |->  "Error",
                                                                         dp_why    |->  dp_why[self] ] >>
                                                                     \o stack[self]]
                             /\ pc' = [pc EXCEPT ![self] = "dp_flag"]
                             /\ UNCHANGED << rv, ps_frame, ps_order >>
                        ELSE /\ rv' = [rv EXCEPT ![self] = [ok |-> TRUE]]
                             /\ pc' = [pc EXCEPT ![self] = Head(stack[self]).pc]
                             /\ ps_frame' = [ps_frame EXCEPT ![self] = Head(stack[self]).ps_frame]
                             /\ ps_order' = [ps_order EXCEPT ![self] = Head(stack[self]).ps_order]
                             /\ stack' = [stack EXCEPT ![self] = Tail(stack[self])]
                             /\ UNCHANGED dp_why
                  /\ UNCHANGED << mem, held, results, inflight, panicked, hid, 
                                  lastop, tu_loc, tu_fn, tu_arg, tu_prev, 
                                  tu_next, tu_done, tu_ok, tu_seen, lg_row, 
                                  lg_order, lg_tree, lg_off, lg_j, lg_i, lg_h, 
                                  lg_found, lg_frame, lg_n, ca_h0, ca_num, 
                                  ca_cur, ca_new, ca_i, ca_ok, ca_seen, ca_j, 
                                  sf_h, sf_start, sf_order, sf_i, sf_r, 
                                  sf_found, sf_off, sf_nrows, sf_c, sf_k, sf_v, 
                                  sf_zero, sf_ok, sf_seen, sf_u, tg_h, tg_off, 
                                  tg_order, tg_exp, tg_ok, tg_i, tg_n, tg_seen, 
                                  tg_u, tg_r0, la_frame, la_order, la_h, 
                                  lp_frame, lp_order, lp_h, lp_old, lp_ok, 
                                  lp_seen, lp_spin, lp_v, tp_t, tp_n, tu2_t, 
                                  tu2_free, tu2_class, gl_order, gl_class, 
                                  gl_local, gl_frame, gl_sync, gl_row, gl_res, 
                                  gl_min, gl_got, sg_i, sg_class, sg_order, 
                                  sg_frame, sg_c, rs_i, rs_order, rs_class, 
                                  rs_local, rs_reserved, rs_free, rs_tc, 
                                  rs_frame, rs_old, sb_n, sb_start, sb_offset, 
                                  sb_len, sb_mode, sb_order, sb_class, 
                                  sb_local, sb_i, sb_idx, sb_t, sb_p, sb_best, 
                                  sb_done, sb_k, sl_class, sl_local, sl_order, 
                                  sl_frame, sl_i, sl_tc, sl_j, sl_found, 
                                  sl_row, sl_jj, dl_class, dl_local, dl_order, 
                                  dl_frame, dl_i, dl_tc, dl_j, dl_found, 
                                  dl_new, dl_old, dl_jj, dl_oldclass, ag_order, 
                                  ag_class, ag_local, ag_frame, ag_len, 
                                  ag_start, ag_near, ag_done, ap_frame, 
                                  ap_order, ap_class, ap_local, ad_c, ad_k, 
                                  ad_old, cg_t, cg_mclass, cg_mfree, cg_cclass, 
                                  cg_cop, cg_prev, cg_done, cg_fetched, cg_h, 
                                  cg_v, cg_next, cg_ok, cg_seen, ac_id, 
                                  ac_mclass, ac_mfree, ac_cclass, ac_cop, ac_i, 
                                  ac_done, pcx, cur, blk >>

put_small(self) == ps_begin(self) \/ ps_tog_r(self) \/ ps_inc_r(self)

lp_begin(self) == /\ pc[self] = "lp_begin"
                  /\ lp_h' = [lp_h EXCEPT ![self] = HugeOfFrame(lp_frame[self])]
                  /\ IF lp_order[self] >= HO
                        THEN /\ /\ ca_cur' = [ca_cur EXCEPT ![self] = HUGE]
                                /\ ca_h0' = [ca_h0 EXCEPT ![self] = lp_h'[self]]
                                /\ ca_new' = [ca_new EXCEPT ![self] = LEN]
                                /\ ca_num' = [ca_num EXCEPT ![self] = P2(lp_order[self] - HO)]
                                /\ stack' = [stack EXCEPT ![self] = << [ procedure |->  "cmpxchg_all",
                                                                         pc        |->  "lp_huge_r",
                                                                         ca_i      |->  ca_i[self],
                                                                         ca_ok     |->  ca_ok[self],
                                                                         ca_seen   |->  ca_seen[self],
                                                                         ca_j      |->  ca_j[self],
                                                                         ca_h0     |->  ca_h0[self],
                                                                         ca_num    |->  ca_num[self],
                                                                         ca_cur    |->  ca_cur[self],
                                                                         ca_new    |->  ca_new[self] ] >>
                                                                     \o stack[self]]
                             /\ ca_i' = [ca_i EXCEPT ![self] = 0]
                             /\ ca_ok' = [ca_ok EXCEPT ![self] = TRUE]
                             /\ ca_seen' = [ca_seen EXCEPT ![self] = 0]
                             /\ ca_j' = [ca_j EXCEPT ![self] = 0]
                             /\ pc' = [pc EXCEPT ![self] = "ca_start"]
                        ELSE /\ pc' = [pc EXCEPT ![self] = "lp_load"]
                             /\ UNCHANGED << stack, ca_h0, ca_num, ca_cur, 
                                             ca_new, ca_i, ca_ok, ca_seen, 
                                             ca_j >>
                  /\ UNCHANGED << mem, held, results, inflight, rv, panicked, 
                                  hid, lastop, dp_why, tu_loc, tu_fn, tu_arg, 
                                  tu_prev, tu_next, tu_done, tu_ok, tu_seen, 
                                  lg_row, lg_order, lg_tree, lg_off, lg_j, 
                                  lg_i, lg_h, lg_found, lg_frame, lg_n, sf_h, 
                                  sf_start, sf_order, sf_i, sf_r, sf_found, 
                                  sf_off, sf_nrows, sf_c, sf_k, sf_v, sf_zero, 
                                  sf_ok, sf_seen, sf_u, tg_h, tg_off, tg_order, 
                                  tg_exp, tg_ok, tg_i, tg_n, tg_seen, tg_u, 
                                  tg_r0, la_frame, la_order, la_h, ps_frame, 
                                  ps_order, lp_frame, lp_order, lp_old, lp_ok, 
                                  lp_seen, lp_spin, lp_v, tp_t, tp_n, tu2_t, 
                                  tu2_free, tu2_class, gl_order, gl_class, 
                                  gl_local, gl_frame, gl_sync, gl_row, gl_res, 
                                  gl_min, gl_got, sg_i, sg_class, sg_order, 
                                  sg_frame, sg_c, rs_i, rs_order, rs_class, 
                                  rs_local, rs_reserved, rs_free, rs_tc, 
                                  rs_frame, rs_old, sb_n, sb_start, sb_offset, 
                                  sb_len, sb_mode, sb_order, sb_class, 
                                  sb_local, sb_i, sb_idx, sb_t, sb_p, sb_best, 
                                  sb_done, sb_k, sl_class, sl_local, sl_order, 
                                  sl_frame, sl_i, sl_tc, sl_j, sl_found, 
                                  sl_row, sl_jj, dl_class, dl_local, dl_order, 
                                  dl_frame, dl_i, dl_tc, dl_j, dl_found, 
                                  dl_new, dl_old, dl_jj, dl_oldclass, ag_order, 
                                  ag_class, ag_local, ag_frame, ag_len, 
                                  ag_start, ag_near, ag_done, ap_frame, 
                                  ap_order, ap_class, ap_local, ad_c, ad_k, 
                                  ad_old, cg_t, cg_mclass, cg_mfree, cg_cclass, 
                                  cg_cop, cg_prev, cg_done, cg_fetched, cg_h, 
                                  cg_v, cg_next, cg_ok, cg_seen, ac_id, 
                                  ac_mclass, ac_mfree, ac_cclass, ac_cop, ac_i, 
                                  ac_done, pcx, cur, blk >>

lp_huge_r(self) == /\ pc[self] = "lp_huge_r"
                   /\ rv' = [rv EXCEPT ![self] = [ok |-> rv[self].ok]]
                   /\ pc' = [pc EXCEPT ![self] = Head(stack[self]).pc]
                   /\ lp_h' = [lp_h EXCEPT ![self] = Head(stack[self]).lp_h]
                   /\ lp_old' = [lp_old EXCEPT ![self] = Head(stack[self]).lp_old]
                   /\ lp_ok' = [lp_ok EXCEPT ![self] = Head(stack[self]).lp_ok]
                   /\ lp_seen' = [lp_seen EXCEPT ![self] = Head(stack[self]).lp_seen]
                   /\ lp_spin' = [lp_spin EXCEPT ![self] = Head(stack[self]).lp_spin]
                   /\ lp_v' = [lp_v EXCEPT ![self] = Head(stack[self]).lp_v]
                   /\ lp_frame' = [lp_frame EXCEPT ![self] = Head(stack[self]).lp_frame]
                   /\ lp_order' = [lp_order EXCEPT ![self] = Head(stack[self]).lp_order]
                   /\ stack' = [stack EXCEPT ![self] = Tail(stack[self])]
                   /\ UNCHANGED << mem, held, results, inflight, panicked, hid, 
                                   lastop, dp_why, tu_loc, tu_fn, tu_arg, 
                                   tu_prev, tu_next, tu_done, tu_ok, tu_seen, 
                                   lg_row, lg_order, lg_tree, lg_off, lg_j, 
                                   lg_i, lg_h, lg_found, lg_frame, lg_n, ca_h0, 
                                   ca_num, ca_cur, ca_new, ca_i, ca_ok, 
                                   ca_seen, ca_j, sf_h, sf_start, sf_order, 
                                   sf_i, sf_r, sf_found, sf_off, sf_nrows, 
                                   sf_c, sf_k, sf_v, sf_zero, sf_ok, sf_seen, 
                                   sf_u, tg_h, tg_off, tg_order, tg_exp, tg_ok, 
                                   tg_i, tg_n, tg_seen, tg_u, tg_r0, la_frame, 
                                   la_order, la_h, ps_frame, ps_order, tp_t, 
                                   tp_n, tu2_t, tu2_free, tu2_class, gl_order, 
                                   gl_class, gl_local, gl_frame, gl_sync, 
                                   gl_row, gl_res, gl_min, gl_got, sg_i, 
                                   sg_class, sg_order, sg_frame, sg_c, rs_i, 
                                   rs_order, rs_class, rs_local, rs_reserved, 
                                   rs_free, rs_tc, rs_frame, rs_old, sb_n, 
                                   sb_start, sb_offset, sb_len, sb_mode, 
                                   sb_order, sb_class, sb_local, sb_i, sb_idx, 
                                   sb_t, sb_p, sb_best, sb_done, sb_k, 
                                   sl_class, sl_local, sl_order, sl_frame, 
                                   sl_i, sl_tc, sl_j, sl_found, sl_row, sl_jj, 
                                   dl_class, dl_local, dl_order, dl_frame, 
                                   dl_i, dl_tc, dl_j, dl_found, dl_new, dl_old, 
                                   dl_jj, dl_oldclass, ag_order, ag_class, 
                                   ag_local, ag_frame, ag_len, ag_start, 
                                   ag_near, ag_done, ap_frame, ap_order, 
                                   ap_class, ap_local, ad_c, ad_k, ad_old, 
                                   cg_t, cg_mclass, cg_mfree, cg_cclass, 
                                   cg_cop, cg_prev, cg_done, cg_fetched, cg_h, 
                                   cg_v, cg_next, cg_ok, cg_seen, ac_id, 
                                   ac_mclass, ac_mfree, ac_cclass, ac_cop, 
                                   ac_i, ac_done, pcx, cur, blk >>

lp_load(self) == /\ pc[self] = "lp_load"
                 /\ lp_old' = [lp_old EXCEPT ![self] = mem[(Entry(lp_h[self]))]]
                 /\ lastop' = [seq |-> lastop.seq + 1, t |-> self, k |-> "load", loc |-> (Entry(lp_h[self])), old |-> mem[(Entry(lp_h[self]))], new |-> mem[(Entry(lp_h[self]))], ok |-> TRUE]
                 /\ IF lp_old'[self] = HUGE
                       THEN /\ /\ stack' = [stack EXCEPT ![self] = << [ procedure |->  "toggle",
                                                                        pc        |->  "lp_fill_r",
                                                                        tg_ok     |->  tg_ok[self],
                                                                        tg_i      |->  tg_i[self],
                                                                        tg_n      |->  tg_n[self],
                                                                        tg_seen   |->  tg_seen[self],
                                                                        tg_u      |->  tg_u[self],
                                                                        tg_r0     |->  tg_r0[self],
                                                                        tg_h      |->  tg_h[self],
                                                                        tg_off    |->  tg_off[self],
                                                                        tg_order  |->  tg_order[self],
                                                                        tg_exp    |->  tg_exp[self] ] >>
                                                                    \o stack[self]]
                               /\ tg_exp' = [tg_exp EXCEPT ![self] = FALSE]
                               /\ tg_h' = [tg_h EXCEPT ![self] = lp_h[self]]
                               /\ tg_off' = [tg_off EXCEPT ![self] = 0]
                               /\ tg_order' = [tg_order EXCEPT ![self] = HO]
                            /\ tg_ok' = [tg_ok EXCEPT ![self] = FALSE]
                            /\ tg_i' = [tg_i EXCEPT ![self] = 0]
                            /\ tg_n' = [tg_n EXCEPT ![self] = 0]
                            /\ tg_seen' = [tg_seen EXCEPT ![self] = {}]
                            /\ tg_u' = [tg_u EXCEPT ![self] = 0]
                            /\ tg_r0' = [tg_r0 EXCEPT ![self] = 0]
                            /\ pc' = [pc EXCEPT ![self] = "tg_begin"]
                            /\ UNCHANGED << rv, ps_frame, ps_order >>
                       ELSE /\ IF lp_old'[self] <= LEN - P2(lp_order[self])
                                  THEN /\ /\ ps_frame' = [ps_frame EXCEPT ![self] = lp_frame[self]]
                                          /\ ps_order' = [ps_order EXCEPT ![self] = lp_order[self]]
                                          /\ stack' = [stack EXCEPT ![self] = << [ procedure |->  "put_small",
                                                                                   pc        |->  "lp_small2_r",
                                                                                   ps_frame  |->  ps_frame[self],
                                                                                   ps_order  |->  ps_order[self] ] >>
                                                                               \o stack[self]]
                                       /\ pc' = [pc EXCEPT ![self] = "ps_begin"]
                                       /\ rv' = rv
                                  ELSE /\ rv' = [rv EXCEPT ![self] = [ok |-> FALSE]]
                                       /\ pc' = [pc EXCEPT ![self] = "Lbl_3"]
                                       /\ UNCHANGED << stack, ps_frame, 
                                                       ps_order >>
                            /\ UNCHANGED << tg_h, tg_off, tg_order, tg_exp, 
                                            tg_ok, tg_i, tg_n, tg_seen, tg_u, 
                                            tg_r0 >>
                 /\ UNCHANGED << mem, held, results, inflight, panicked, hid, 
                                 dp_why, tu_loc, tu_fn, tu_arg, tu_prev, 
                                 tu_next, tu_done, tu_ok, tu_seen, lg_row, 
                                 lg_order, lg_tree, lg_off, lg_j, lg_i, lg_h, 
                                 lg_found, lg_frame, lg_n, ca_h0, ca_num, 
                                 ca_cur, ca_new, ca_i, ca_ok, ca_seen, ca_j, 
                                 sf_h, sf_start, sf_order, sf_i, sf_r, 
                                 sf_found, sf_off, sf_nrows, sf_c, sf_k, sf_v, 
                                 sf_zero, sf_ok, sf_seen, sf_u, la_frame, 
                                 la_order, la_h, lp_frame, lp_order, lp_h, 
                                 lp_ok, lp_seen, lp_spin, lp_v, tp_t, tp_n, 
                                 tu2_t, tu2_free, tu2_class, gl_order, 
                                 gl_class, gl_local, gl_frame, gl_sync, gl_row, 
                                 gl_res, gl_min, gl_got, sg_i, sg_class, 
                                 sg_order, sg_frame, sg_c, rs_i, rs_order, 
                                 rs_class, rs_local, rs_reserved, rs_free, 
                                 rs_tc, rs_frame, rs_old, sb_n, sb_start, 
                                 sb_offset, sb_len, sb_mode, sb_order, 
                                 sb_class, sb_local, sb_i, sb_idx, sb_t, sb_p, 
                                 sb_best, sb_done, sb_k, sl_class, sl_local, 
                                 sl_order, sl_frame, sl_i, sl_tc, sl_j, 
                                 sl_found, sl_row, sl_jj, dl_class, dl_local, 
                                 dl_order, dl_frame, dl_i, dl_tc, dl_j, 
                                 dl_found, dl_new, dl_old, dl_jj, dl_oldclass, 
                                 ag_order, ag_class, ag_local, ag_frame, 
                                 ag_len, ag_start, ag_near, ag_done, ap_frame, 
                                 ap_order, ap_class, ap_local, ad_c, ad_k, 
                                 ad_old, cg_t, cg_mclass, cg_mfree, cg_cclass, 
                                 cg_cop, cg_prev, cg_done, cg_fetched, cg_h, 
                                 cg_v, cg_next, cg_ok, cg_seen, ac_id, 
                                 ac_mclass, ac_mfree, ac_cclass, ac_cop, ac_i, 
                                 ac_done, pcx, cur, blk >>

lp_fill_r(self) == /\ pc[self] = "lp_fill_r"
                   /\ IF rv[self].ok
                         THEN /\ pc' = [pc EXCEPT ![self] = "lp_clear"]
                              /\ UNCHANGED << lp_spin, lp_v >>
                         ELSE /\ lp_spin' = [lp_spin EXCEPT ![self] = 0]
                              /\ lp_v' = [lp_v EXCEPT ![self] = HUGE]
                              /\ pc' = [pc EXCEPT ![self] = "lp_wait"]
                   /\ UNCHANGED << mem, held, results, inflight, rv, panicked, 
                                   hid, lastop, stack, dp_why, tu_loc, tu_fn, 
                                   tu_arg, tu_prev, tu_next, tu_done, tu_ok, 
                                   tu_seen, lg_row, lg_order, lg_tree, lg_off, 
                                   lg_j, lg_i, lg_h, lg_found, lg_frame, lg_n, 
                                   ca_h0, ca_num, ca_cur, ca_new, ca_i, ca_ok, 
                                   ca_seen, ca_j, sf_h, sf_start, sf_order, 
                                   sf_i, sf_r, sf_found, sf_off, sf_nrows, 
                                   sf_c, sf_k, sf_v, sf_zero, sf_ok, sf_seen, 
                                   sf_u, tg_h, tg_off, tg_order, tg_exp, tg_ok, 
                                   tg_i, tg_n, tg_seen, tg_u, tg_r0, la_frame, 
                                   la_order, la_h, ps_frame, ps_order, 
                                   lp_frame, lp_order, lp_h, lp_old, lp_ok, 
                                   lp_seen, tp_t, tp_n, tu2_t, tu2_free, 
                                   tu2_class, gl_order, gl_class, gl_local, 
                                   gl_frame, gl_sync, gl_row, gl_res, gl_min, 
                                   gl_got, sg_i, sg_class, sg_order, sg_frame, 
                                   sg_c, rs_i, rs_order, rs_class, rs_local, 
                                   rs_reserved, rs_free, rs_tc, rs_frame, 
                                   rs_old, sb_n, sb_start, sb_offset, sb_len, 
                                   sb_mode, sb_order, sb_class, sb_local, sb_i, 
                                   sb_idx, sb_t, sb_p, sb_best, sb_done, sb_k, 
                                   sl_class, sl_local, sl_order, sl_frame, 
                                   sl_i, sl_tc, sl_j, sl_found, sl_row, sl_jj, 
                                   dl_class, dl_local, dl_order, dl_frame, 
                                   dl_i, dl_tc, dl_j, dl_found, dl_new, dl_old, 
                                   dl_jj, dl_oldclass, ag_order, ag_class, 
                                   ag_local, ag_frame, ag_len, ag_start, 
                                   ag_near, ag_done, ap_frame, ap_order, 
                                   ap_class, ap_local, ad_c, ad_k, ad_old, 
                                   cg_t, cg_mclass, cg_mfree, cg_cclass, 
                                   cg_cop, cg_prev, cg_done, cg_fetched, cg_h, 
                                   cg_v, cg_next, cg_ok, cg_seen, ac_id, 
                                   ac_mclass, ac_mfree, ac_cclass, ac_cop, 
                                   ac_i, ac_done, pcx, cur, blk >>

lp_clear(self) == /\ pc[self] = "lp_clear"
                  /\ IF mem[(Entry(lp_h[self]))] = lp_old[self]
                        THEN /\ lp_ok' = [lp_ok EXCEPT ![self] = TRUE]
                             /\ lp_seen' = [lp_seen EXCEPT ![self] = lp_old[self]]
                             /\ lastop' = [seq |-> lastop.seq + 1, t |-> self, k |-> "cas", loc |-> (Entry(lp_h[self])), old |-> lp_old[self], new |-> 0, ok |-> TRUE]
                             /\ mem' = [mem EXCEPT ![(Entry(lp_h[self]))] = 0]
                        ELSE /\ lp_ok' = [lp_ok EXCEPT ![self] = FALSE]
                             /\ lp_seen' = [lp_seen EXCEPT ![self] = mem[(Entry(lp_h[self]))]]
                             /\ lastop' = [seq |-> lastop.seq + 1, t |-> self, k |-> "cas", loc |-> (Entry(lp_h[self])), old |-> mem[(Entry(lp_h[self]))], new |-> 0, ok |-> FALSE]
                             /\ mem' = mem
                  /\ IF ~lp_ok'[self]
                        THEN /\ /\ dp_why' = [dp_why EXCEPT ![self] = "assertion"]
                                /\ stack' = [stack EXCEPT ![self] = << [ procedure |->  "do_panic",
                                                                         pc        |->  "lp_small",
                                                                         dp_why    |->  dp_why[self] ] >>
                                                                     \o stack[self]]
                             /\ pc' = [pc EXCEPT ![self] = "dp_flag"]
                        ELSE /\ pc' = [pc EXCEPT ![self] = "lp_small"]
                             /\ UNCHANGED << stack, dp_why >>
                  /\ UNCHANGED << held, results, inflight, rv, panicked, hid, 
                                  tu_loc, tu_fn, tu_arg, tu_prev, tu_next, 
                                  tu_done, tu_ok, tu_seen, lg_row, lg_order, 
                                  lg_tree, lg_off, lg_j, lg_i, lg_h, lg_found, 
                                  lg_frame, lg_n, ca_h0, ca_num, ca_cur, 
                                  ca_new, ca_i, ca_ok, ca_seen, ca_j, sf_h, 
                                  sf_start, sf_order, sf_i, sf_r, sf_found, 
                                  sf_off, sf_nrows, sf_c, sf_k, sf_v, sf_zero, 
                                  sf_ok, sf_seen, sf_u, tg_h, tg_off, tg_order, 
                                  tg_exp, tg_ok, tg_i, tg_n, tg_seen, tg_u, 
                                  tg_r0, la_frame, la_order, la_h, ps_frame, 
                                  ps_order, lp_frame, lp_order, lp_h, lp_old, 
                                  lp_spin, lp_v, tp_t, tp_n, tu2_t, tu2_free, 
                                  tu2_class, gl_order, gl_class, gl_local, 
                                  gl_frame, gl_sync, gl_row, gl_res, gl_min, 
                                  gl_got, sg_i, sg_class, sg_order, sg_frame, 
                                  sg_c, rs_i, rs_order, rs_class, rs_local, 
                                  rs_reserved, rs_free, rs_tc, rs_frame, 
                                  rs_old, sb_n, sb_start, sb_offset, sb_len, 
                                  sb_mode, sb_order, sb_class, sb_local, sb_i, 
                                  sb_idx, sb_t, sb_p, sb_best, sb_done, sb_k, 
                                  sl_class, sl_local, sl_order, sl_frame, sl_i, 
                                  sl_tc, sl_j, sl_found, sl_row, sl_jj, 
                                  dl_class, dl_local, dl_order, dl_frame, dl_i, 
                                  dl_tc, dl_j, dl_found, dl_new, dl_old, dl_jj, 
                                  dl_oldclass, ag_order, ag_class, ag_local, 
                                  ag_frame, ag_len, ag_start, ag_near, ag_done, 
                                  ap_frame, ap_order, ap_class, ap_local, ad_c, 
                                  ad_k, ad_old, cg_t, cg_mclass, cg_mfree, 
                                  cg_cclass, cg_cop, cg_prev, cg_done, 
                                  cg_fetched, cg_h, cg_v, cg_next, cg_ok, 
                                  cg_seen, ac_id, ac_mclass, ac_mfree, 
                                  ac_cclass, ac_cop, ac_i, ac_done, pcx, cur, 
                                  blk >>

lp_wait(self) == /\ pc[self] = "lp_wait"
                 /\ IF lp_spin[self] < 4 /\ lp_v[self] = HUGE
                       THEN /\ lp_v' = [lp_v EXCEPT ![self] = mem[(Entry(lp_h[self]))]]
                            /\ lastop' = [seq |-> lastop.seq + 1, t |-> self, k |-> "load", loc |-> (Entry(lp_h[self])), old |-> mem[(Entry(lp_h[self]))], new |-> mem[(Entry(lp_h[self]))], ok |-> TRUE]
                            /\ lp_spin' = [lp_spin EXCEPT ![self] = lp_spin[self] + 1]
                            /\ pc' = [pc EXCEPT ![self] = "lp_wait"]
                            /\ UNCHANGED << stack, dp_why >>
                       ELSE /\ IF lp_v[self] = HUGE
                                  THEN /\ /\ dp_why' = [dp_why EXCEPT ![self] = "exceeding-retries"]
                                          /\ stack' = [stack EXCEPT ![self] = << [ procedure |->  "do_panic",
                                                                                   pc        |->  "lp_small",
                                                                                   dp_why    |->  dp_why[self] ] >>
                                                                               \o stack[self]]
                                       /\ pc' = [pc EXCEPT ![self] = "dp_flag"]
                                  ELSE /\ pc' = [pc EXCEPT ![self] = "lp_small"]
                                       /\ UNCHANGED << stack, dp_why >>
                            /\ UNCHANGED << lastop, lp_spin, lp_v >>
                 /\ UNCHANGED << mem, held, results, inflight, rv, panicked, 
                                 hid, tu_loc, tu_fn, tu_arg, tu_prev, tu_next, 
                                 tu_done, tu_ok, tu_seen, lg_row, lg_order, 
                                 lg_tree, lg_off, lg_j, lg_i, lg_h, lg_found, 
                                 lg_frame, lg_n, ca_h0, ca_num, ca_cur, ca_new, 
                                 ca_i, ca_ok, ca_seen, ca_j, sf_h, sf_start, 
                                 sf_order, sf_i, sf_r, sf_found, sf_off, 
                                 sf_nrows, sf_c, sf_k, sf_v, sf_zero, sf_ok, 
                                 sf_seen, sf_u, tg_h, tg_off, tg_order, tg_exp, 
                                 tg_ok, tg_i, tg_n, tg_seen, tg_u, tg_r0, 
                                 la_frame, la_order, la_h, ps_frame, ps_order, 
                                 lp_frame, lp_order, lp_h, lp_old, lp_ok, 
                                 lp_seen, tp_t, tp_n, tu2_t, tu2_free, 
                                 tu2_class, gl_order, gl_class, gl_local, 
                                 gl_frame, gl_sync, gl_row, gl_res, gl_min, 
                                 gl_got, sg_i, sg_class, sg_order, sg_frame, 
                                 sg_c, rs_i, rs_order, rs_class, rs_local, 
                                 rs_reserved, rs_free, rs_tc, rs_frame, rs_old, 
                                 sb_n, sb_start, sb_offset, sb_len, sb_mode, 
                                 sb_order, sb_class, sb_local, sb_i, sb_idx, 
                                 sb_t, sb_p, sb_best, sb_done, sb_k, sl_class, 
                                 sl_local, sl_order, sl_frame, sl_i, sl_tc, 
                                 sl_j, sl_found, sl_row, sl_jj, dl_class, 
                                 dl_local, dl_order, dl_frame, dl_i, dl_tc, 
                                 dl_j, dl_found, dl_new, dl_old, dl_jj, 
                                 dl_oldclass, ag_order, ag_class, ag_local, 
                                 ag_frame, ag_len, ag_start, ag_near, ag_done, 
                                 ap_frame, ap_order, ap_class, ap_local, ad_c, 
                                 ad_k, ad_old, cg_t, cg_mclass, cg_mfree, 
                                 cg_cclass, cg_cop, cg_prev, cg_done, 
                                 cg_fetched, cg_h, cg_v, cg_next, cg_ok, 
                                 cg_seen, ac_id, ac_mclass, ac_mfree, 
                                 ac_cclass, ac_cop, ac_i, ac_done, pcx, cur, 
                                 blk >>

lp_small(self) == /\ pc[self] = "lp_small"
                  /\ /\ ps_frame' = [ps_frame EXCEPT ![self] = lp_frame[self]]
                     /\ ps_order' = [ps_order EXCEPT ![self] = lp_order[self]]
                     /\ stack' = [stack EXCEPT ![self] = << [ procedure |->  "put_small",
                                                              pc        |->  "lp_small_r",
                                                              ps_frame  |->  ps_frame[self],
                                                              ps_order  |->  ps_order[self] ] >>
                                                          \o stack[self]]
                  /\ pc' = [pc EXCEPT ![self] = "ps_begin"]
                  /\ UNCHANGED << mem, held, results, inflight, rv, panicked, 
                                  hid, lastop, dp_why, tu_loc, tu_fn, tu_arg, 
                                  tu_prev, tu_next, tu_done, tu_ok, tu_seen, 
                                  lg_row, lg_order, lg_tree, lg_off, lg_j, 
                                  lg_i, lg_h, lg_found, lg_frame, lg_n, ca_h0, 
                                  ca_num, ca_cur, ca_new, ca_i, ca_ok, ca_seen, 
                                  ca_j, sf_h, sf_start, sf_order, sf_i, sf_r, 
                                  sf_found, sf_off, sf_nrows, sf_c, sf_k, sf_v, 
                                  sf_zero, sf_ok, sf_seen, sf_u, tg_h, tg_off, 
                                  tg_order, tg_exp, tg_ok, tg_i, tg_n, tg_seen, 
                                  tg_u, tg_r0, la_frame, la_order, la_h, 
                                  lp_frame, lp_order, lp_h, lp_old, lp_ok, 
                                  lp_seen, lp_spin, lp_v, tp_t, tp_n, tu2_t, 
                                  tu2_free, tu2_class, gl_order, gl_class, 
                                  gl_local, gl_frame, gl_sync, gl_row, gl_res, 
                                  gl_min, gl_got, sg_i, sg_class, sg_order, 
                                  sg_frame, sg_c, rs_i, rs_order, rs_class, 
                                  rs_local, rs_reserved, rs_free, rs_tc, 
                                  rs_frame, rs_old, sb_n, sb_start, sb_offset, 
                                  sb_len, sb_mode, sb_order, sb_class, 
                                  sb_local, sb_i, sb_idx, sb_t, sb_p, sb_best, 
                                  sb_done, sb_k, sl_class, sl_local, sl_order, 
                                  sl_frame, sl_i, sl_tc, sl_j, sl_found, 
                                  sl_row, sl_jj, dl_class, dl_local, dl_order, 
                                  dl_frame, dl_i, dl_tc, dl_j, dl_found, 
                                  dl_new, dl_old, dl_jj, dl_oldclass, ag_order, 
                                  ag_class, ag_local, ag_frame, ag_len, 
                                  ag_start, ag_near, ag_done, ap_frame, 
                                  ap_order, ap_class, ap_local, ad_c, ad_k, 
                                  ad_old, cg_t, cg_mclass, cg_mfree, cg_cclass, 
                                  cg_cop, cg_prev, cg_done, cg_fetched, cg_h, 
                                  cg_v, cg_next, cg_ok, cg_seen, ac_id, 
                                  ac_mclass, ac_mfree, ac_cclass, ac_cop, ac_i, 
                                  ac_done, pcx, cur, blk >>

lp_small_r(self) == /\ pc[self] = "lp_small_r"
                    /\ pc' = [pc EXCEPT ![self] = Head(stack[self]).pc]
                    /\ lp_h' = [lp_h EXCEPT ![self] = Head(stack[self]).lp_h]
                    /\ lp_old' = [lp_old EXCEPT ![self] = Head(stack[self]).lp_old]
                    /\ lp_ok' = [lp_ok EXCEPT ![self] = Head(stack[self]).lp_ok]
                    /\ lp_seen' = [lp_seen EXCEPT ![self] = Head(stack[self]).lp_seen]
                    /\ lp_spin' = [lp_spin EXCEPT ![self] = Head(stack[self]).lp_spin]
                    /\ lp_v' = [lp_v EXCEPT ![self] = Head(stack[self]).lp_v]
                    /\ lp_frame' = [lp_frame EXCEPT ![self] = Head(stack[self]).lp_frame]
                    /\ lp_order' = [lp_order EXCEPT ![self] = Head(stack[self]).lp_order]
                    /\ stack' = [stack EXCEPT ![self] = Tail(stack[self])]
                    /\ UNCHANGED << mem, held, results, inflight, rv, panicked, 
                                    hid, lastop, dp_why, tu_loc, tu_fn, tu_arg, 
                                    tu_prev, tu_next, tu_done, tu_ok, tu_seen, 
                                    lg_row, lg_order, lg_tree, lg_off, lg_j, 
                                    lg_i, lg_h, lg_found, lg_frame, lg_n, 
                                    ca_h0, ca_num, ca_cur, ca_new, ca_i, ca_ok, 
                                    ca_seen, ca_j, sf_h, sf_start, sf_order, 
                                    sf_i, sf_r, sf_found, sf_off, sf_nrows, 
                                    sf_c, sf_k, sf_v, sf_zero, sf_ok, sf_seen, 
                                    sf_u, tg_h, tg_off, tg_order, tg_exp, 
                                    tg_ok, tg_i, tg_n, tg_seen, tg_u, tg_r0, 
                                    la_frame, la_order, la_h, ps_frame, 
                                    ps_order, tp_t, tp_n, tu2_t, tu2_free, 
                                    tu2_class, gl_order, gl_class, gl_local, 
                                    gl_frame, gl_sync, gl_row, gl_res, gl_min, 
                                    gl_got, sg_i, sg_class, sg_order, sg_frame, 
                                    sg_c, rs_i, rs_order, rs_class, rs_local, 
                                    rs_reserved, rs_free, rs_tc, rs_frame, 
                                    rs_old, sb_n, sb_start, sb_offset, sb_len, 
                                    sb_mode, sb_order, sb_class, sb_local, 
                                    sb_i, sb_idx, sb_t, sb_p, sb_best, sb_done, 
                                    sb_k, sl_class, sl_local, sl_order, 
                                    sl_frame, sl_i, sl_tc, sl_j, sl_found, 
                                    sl_row, sl_jj, dl_class, dl_local, 
                                    dl_order, dl_frame, dl_i, dl_tc, dl_j, 
                                    dl_found, dl_new, dl_old, dl_jj, 
                                    dl_oldclass, ag_order, ag_class, ag_local, 
                                    ag_frame, ag_len, ag_start, ag_near, 
                                    ag_done, ap_frame, ap_order, ap_class, 
                                    ap_local, ad_c, ad_k, ad_old, cg_t, 
                                    cg_mclass, cg_mfree, cg_cclass, cg_cop, 
                                    cg_prev, cg_done, cg_fetched, cg_h, cg_v, 
                                    cg_next, cg_ok, cg_seen, ac_id, ac_mclass, 
                                    ac_mfree, ac_cclass, ac_cop, ac_i, ac_done, 
                                    pcx, cur, blk >>

lp_small2_r(self) == /\ pc[self] = "lp_small2_r"
                     /\ pc' = [pc EXCEPT ![self] = Head(stack[self]).pc]
                     /\ lp_h' = [lp_h EXCEPT ![self] = Head(stack[self]).lp_h]
                     /\ lp_old' = [lp_old EXCEPT ![self] = Head(stack[self]).lp_old]
                     /\ lp_ok' = [lp_ok EXCEPT ![self] = Head(stack[self]).lp_ok]
                     /\ lp_seen' = [lp_seen EXCEPT ![self] = Head(stack[self]).lp_seen]
                     /\ lp_spin' = [lp_spin EXCEPT ![self] = Head(stack[self]).lp_spin]
                     /\ lp_v' = [lp_v EXCEPT ![self] = Head(stack[self]).lp_v]
                     /\ lp_frame' = [lp_frame EXCEPT ![self] = Head(stack[self]).lp_frame]
                     /\ lp_order' = [lp_order EXCEPT ![self] = Head(stack[self]).lp_order]
                     /\ stack' = [stack EXCEPT ![self] = Tail(stack[self])]
                     /\ UNCHANGED << mem, held, results, inflight, rv, 
                                     panicked, hid, lastop, dp_why, tu_loc, 
                                     tu_fn, tu_arg, tu_prev, tu_next, tu_done, 
                                     tu_ok, tu_seen, lg_row, lg_order, lg_tree, 
                                     lg_off, lg_j, lg_i, lg_h, lg_found, 
                                     lg_frame, lg_n, ca_h0, ca_num, ca_cur, 
                                     ca_new, ca_i, ca_ok, ca_seen, ca_j, sf_h, 
                                     sf_start, sf_order, sf_i, sf_r, sf_found, 
                                     sf_off, sf_nrows, sf_c, sf_k, sf_v, 
                                     sf_zero, sf_ok, sf_seen, sf_u, tg_h, 
                                     tg_off, tg_order, tg_exp, tg_ok, tg_i, 
                                     tg_n, tg_seen, tg_u, tg_r0, la_frame, 
                                     la_order, la_h, ps_frame, ps_order, tp_t, 
                                     tp_n, tu2_t, tu2_free, tu2_class, 
                                     gl_order, gl_class, gl_local, gl_frame, 
                                     gl_sync, gl_row, gl_res, gl_min, gl_got, 
                                     sg_i, sg_class, sg_order, sg_frame, sg_c, 
                                     rs_i, rs_order, rs_class, rs_local, 
                                     rs_reserved, rs_free, rs_tc, rs_frame, 
                                     rs_old, sb_n, sb_start, sb_offset, sb_len, 
                                     sb_mode, sb_order, sb_class, sb_local, 
                                     sb_i, sb_idx, sb_t, sb_p, sb_best, 
                                     sb_done, sb_k, sl_class, sl_local, 
                                     sl_order, sl_frame, sl_i, sl_tc, sl_j, 
                                     sl_found, sl_row, sl_jj, dl_class, 
                                     dl_local, dl_order, dl_frame, dl_i, dl_tc, 
                                     dl_j, dl_found, dl_new, dl_old, dl_jj, 
                                     dl_oldclass, ag_order, ag_class, ag_local, 
                                     ag_frame, ag_len, ag_start, ag_near, 
                                     ag_done, ap_frame, ap_order, ap_class, 
                                     ap_local, ad_c, ad_k, ad_old, cg_t, 
                                     cg_mclass, cg_mfree, cg_cclass, cg_cop, 
                                     cg_prev, cg_done, cg_fetched, cg_h, cg_v, 
                                     cg_next, cg_ok, cg_seen, ac_id, ac_mclass, 
                                     ac_mfree, ac_cclass, ac_cop, ac_i, 
                                     ac_done, pcx, cur, blk >>

Lbl_3(self) == /\ pc[self] = "Lbl_3"
               /\ pc' = [pc EXCEPT ![self] = Head(stack[self]).pc]
               /\ lp_h' = [lp_h EXCEPT ![self] = Head(stack[self]).lp_h]
               /\ lp_old' = [lp_old EXCEPT ![self] = Head(stack[self]).lp_old]
               /\ lp_ok' = [lp_ok EXCEPT ![self] = Head(stack[self]).lp_ok]
               /\ lp_seen' = [lp_seen EXCEPT ![self] = Head(stack[self]).lp_seen]
               /\ lp_spin' = [lp_spin EXCEPT ![self] = Head(stack[self]).lp_spin]
               /\ lp_v' = [lp_v EXCEPT ![self] = Head(stack[self]).lp_v]
               /\ lp_frame' = [lp_frame EXCEPT ![self] = Head(stack[self]).lp_frame]
               /\ lp_order' = [lp_order EXCEPT ![self] = Head(stack[self]).lp_order]
               /\ stack' = [stack EXCEPT ![self] = Tail(stack[self])]
               /\ UNCHANGED << mem, held, results, inflight, rv, panicked, hid, 
                               lastop, dp_why, tu_loc, tu_fn, tu_arg, tu_prev, 
                               tu_next, tu_done, tu_ok, tu_seen, lg_row, 
                               lg_order, lg_tree, lg_off, lg_j, lg_i, lg_h, 
                               lg_found, lg_frame, lg_n, ca_h0, ca_num, ca_cur, 
                               ca_new, ca_i, ca_ok, ca_seen, ca_j, sf_h, 
                               sf_start, sf_order, sf_i, sf_r, sf_found, 
                               sf_off, sf_nrows, sf_c, sf_k, sf_v, sf_zero, 
                               sf_ok, sf_seen, sf_u, tg_h, tg_off, tg_order, 
                               tg_exp, tg_ok, tg_i, tg_n, tg_seen, tg_u, tg_r0, 
                               la_frame, la_order, la_h, ps_frame, ps_order, 
                               tp_t, tp_n, tu2_t, tu2_free, tu2_class, 
                               gl_order, gl_class, gl_local, gl_frame, gl_sync, 
                               gl_row, gl_res, gl_min, gl_got, sg_i, sg_class, 
                               sg_order, sg_frame, sg_c, rs_i, rs_order, 
                               rs_class, rs_local, rs_reserved, rs_free, rs_tc, 
                               rs_frame, rs_old, sb_n, sb_start, sb_offset, 
                               sb_len, sb_mode, sb_order, sb_class, sb_local, 
                               sb_i, sb_idx, sb_t, sb_p, sb_best, sb_done, 
                               sb_k, sl_class, sl_local, sl_order, sl_frame, 
                               sl_i, sl_tc, sl_j, sl_found, sl_row, sl_jj, 
                               dl_class, dl_local, dl_order, dl_frame, dl_i, 
                               dl_tc, dl_j, dl_found, dl_new, dl_old, dl_jj, 
                               dl_oldclass, ag_order, ag_class, ag_local, 
                               ag_frame, ag_len, ag_start, ag_near, ag_done, 
                               ap_frame, ap_order, ap_class, ap_local, ad_c, 
                               ad_k, ad_old, cg_t, cg_mclass, cg_mfree, 
                               cg_cclass, cg_cop, cg_prev, cg_done, cg_fetched, 
                               cg_h, cg_v, cg_next, cg_ok, cg_seen, ac_id, 
                               ac_mclass, ac_mfree, ac_cclass, ac_cop, ac_i, 
                               ac_done, pcx, cur, blk >>

lower_put(self) == lp_begin(self) \/ lp_huge_r(self) \/ lp_load(self)
                      \/ lp_fill_r(self) \/ lp_clear(self) \/ lp_wait(self)
                      \/ lp_small(self) \/ lp_small_r(self)
                      \/ lp_small2_r(self) \/ Lbl_3(self)

tp_begin(self) == /\ pc[self] = "tp_begin"
                  /\ /\ stack' = [stack EXCEPT ![self] = << [ procedure |->  "try_update",
                                                              pc        |->  "tp_r",
                                                              tu_prev   |->  tu_prev[self],
                                                              tu_next   |->  tu_next[self],
                                                              tu_done   |->  tu_done[self],
                                                              tu_ok     |->  tu_ok[self],
                                                              tu_seen   |->  tu_seen[self],
                                                              tu_loc    |->  tu_loc[self],
                                                              tu_fn     |->  tu_fn[self],
                                                              tu_arg    |->  tu_arg[self] ] >>
                                                          \o stack[self]]
                     /\ tu_arg' = [tu_arg EXCEPT ![self] = tp_n[self]]
                     /\ tu_fn' = [tu_fn EXCEPT ![self] = "tput"]
                     /\ tu_loc' = [tu_loc EXCEPT ![self] = Tree(tp_t[self])]
                  /\ tu_prev' = [tu_prev EXCEPT ![self] = 0]
                  /\ tu_next' = [tu_next EXCEPT ![self] = <<>>]
                  /\ tu_done' = [tu_done EXCEPT ![self] = FALSE]
                  /\ tu_ok' = [tu_ok EXCEPT ![self] = FALSE]
                  /\ tu_seen' = [tu_seen EXCEPT ![self] = 0]
                  /\ pc' = [pc EXCEPT ![self] = "tu_load"]
                  /\ UNCHANGED << mem, held, results, inflight, rv, panicked, 
                                  hid, lastop, dp_why, lg_row, lg_order, 
                                  lg_tree, lg_off, lg_j, lg_i, lg_h, lg_found, 
                                  lg_frame, lg_n, ca_h0, ca_num, ca_cur, 
                                  ca_new, ca_i, ca_ok, ca_seen, ca_j, sf_h, 
                                  sf_start, sf_order, sf_i, sf_r, sf_found, 
                                  sf_off, sf_nrows, sf_c, sf_k, sf_v, sf_zero, 
                                  sf_ok, sf_seen, sf_u, tg_h, tg_off, tg_order, 
                                  tg_exp, tg_ok, tg_i, tg_n, tg_seen, tg_u, 
                                  tg_r0, la_frame, la_order, la_h, ps_frame, 
                                  ps_order, lp_frame, lp_order, lp_h, lp_old, 
                                  lp_ok, lp_seen, lp_spin, lp_v, tp_t, tp_n, 
                                  tu2_t, tu2_free, tu2_class, gl_order, 
                                  gl_class, gl_local, gl_frame, gl_sync, 
                                  gl_row, gl_res, gl_min, gl_got, sg_i, 
                                  sg_class, sg_order, sg_frame, sg_c, rs_i, 
                                  rs_order, rs_class, rs_local, rs_reserved, 
                                  rs_free, rs_tc, rs_frame, rs_old, sb_n, 
                                  sb_start, sb_offset, sb_len, sb_mode, 
                                  sb_order, sb_class, sb_local, sb_i, sb_idx, 
                                  sb_t, sb_p, sb_best, sb_done, sb_k, sl_class, 
                                  sl_local, sl_order, sl_frame, sl_i, sl_tc, 
                                  sl_j, sl_found, sl_row, sl_jj, dl_class, 
                                  dl_local, dl_order, dl_frame, dl_i, dl_tc, 
                                  dl_j, dl_found, dl_new, dl_old, dl_jj, 
                                  dl_oldclass, ag_order, ag_class, ag_local, 
                                  ag_frame, ag_len, ag_start, ag_near, ag_done, 
                                  ap_frame, ap_order, ap_class, ap_local, ad_c, 
                                  ad_k, ad_old, cg_t, cg_mclass, cg_mfree, 
                                  cg_cclass, cg_cop, cg_prev, cg_done, 
                                  cg_fetched, cg_h, cg_v, cg_next, cg_ok, 
                                  cg_seen, ac_id, ac_mclass, ac_mfree, 
                                  ac_cclass, ac_cop, ac_i, ac_done, pcx, cur, 
                                  blk >>

tp_r(self) == /\ pc[self] = "tp_r"
              /\ pc' = [pc EXCEPT ![self] = Head(stack[self]).pc]
              /\ tp_t' = [tp_t EXCEPT ![self] = Head(stack[self]).tp_t]
              /\ tp_n' = [tp_n EXCEPT ![self] = Head(stack[self]).tp_n]
              /\ stack' = [stack EXCEPT ![self] = Tail(stack[self])]
              /\ UNCHANGED << mem, held, results, inflight, rv, panicked, hid, 
                              lastop, dp_why, tu_loc, tu_fn, tu_arg, tu_prev, 
                              tu_next, tu_done, tu_ok, tu_seen, lg_row, 
                              lg_order, lg_tree, lg_off, lg_j, lg_i, lg_h, 
                              lg_found, lg_frame, lg_n, ca_h0, ca_num, ca_cur, 
                              ca_new, ca_i, ca_ok, ca_seen, ca_j, sf_h, 
                              sf_start, sf_order, sf_i, sf_r, sf_found, sf_off, 
                              sf_nrows, sf_c, sf_k, sf_v, sf_zero, sf_ok, 
                              sf_seen, sf_u, tg_h, tg_off, tg_order, tg_exp, 
                              tg_ok, tg_i, tg_n, tg_seen, tg_u, tg_r0, 
                              la_frame, la_order, la_h, ps_frame, ps_order, 
                              lp_frame, lp_order, lp_h, lp_old, lp_ok, lp_seen, 
                              lp_spin, lp_v, tu2_t, tu2_free, tu2_class, 
                              gl_order, gl_class, gl_local, gl_frame, gl_sync, 
                              gl_row, gl_res, gl_min, gl_got, sg_i, sg_class, 
                              sg_order, sg_frame, sg_c, rs_i, rs_order, 
                              rs_class, rs_local, rs_reserved, rs_free, rs_tc, 
                              rs_frame, rs_old, sb_n, sb_start, sb_offset, 
                              sb_len, sb_mode, sb_order, sb_class, sb_local, 
                              sb_i, sb_idx, sb_t, sb_p, sb_best, sb_done, sb_k, 
                              sl_class, sl_local, sl_order, sl_frame, sl_i, 
                              sl_tc, sl_j, sl_found, sl_row, sl_jj, dl_class, 
                              dl_local, dl_order, dl_frame, dl_i, dl_tc, dl_j, 
                              dl_found, dl_new, dl_old, dl_jj, dl_oldclass, 
                              ag_order, ag_class, ag_local, ag_frame, ag_len, 
                              ag_start, ag_near, ag_done, ap_frame, ap_order, 
                              ap_class, ap_local, ad_c, ad_k, ad_old, cg_t, 
                              cg_mclass, cg_mfree, cg_cclass, cg_cop, cg_prev, 
                              cg_done, cg_fetched, cg_h, cg_v, cg_next, cg_ok, 
                              cg_seen, ac_id, ac_mclass, ac_mfree, ac_cclass, 
                              ac_cop, ac_i, ac_done, pcx, cur, blk >>

trees_put(self) == tp_begin(self) \/ tp_r(self)

un_begin(self) == /\ pc[self] = "un_begin"
                  /\ /\ stack' = [stack EXCEPT ![self] = << [ procedure |->  "try_update",
                                                              pc        |->  "un_r",
                                                              tu_prev   |->  tu_prev[self],
                                                              tu_next   |->  tu_next[self],
                                                              tu_done   |->  tu_done[self],
                                                              tu_ok     |->  tu_ok[self],
                                                              tu_seen   |->  tu_seen[self],
                                                              tu_loc    |->  tu_loc[self],
                                                              tu_fn     |->  tu_fn[self],
                                                              tu_arg    |->  tu_arg[self] ] >>
                                                          \o stack[self]]
                     /\ tu_arg' = [tu_arg EXCEPT ![self] = [free |-> tu2_free[self], class |-> tu2_class[self]]]
                     /\ tu_fn' = [tu_fn EXCEPT ![self] = "unres"]
                     /\ tu_loc' = [tu_loc EXCEPT ![self] = Tree(tu2_t[self])]
                  /\ tu_prev' = [tu_prev EXCEPT ![self] = 0]
                  /\ tu_next' = [tu_next EXCEPT ![self] = <<>>]
                  /\ tu_done' = [tu_done EXCEPT ![self] = FALSE]
                  /\ tu_ok' = [tu_ok EXCEPT ![self] = FALSE]
                  /\ tu_seen' = [tu_seen EXCEPT ![self] = 0]
                  /\ pc' = [pc EXCEPT ![self] = "tu_load"]
                  /\ UNCHANGED << mem, held, results, inflight, rv, panicked, 
                                  hid, lastop, dp_why, lg_row, lg_order, 
                                  lg_tree, lg_off, lg_j, lg_i, lg_h, lg_found, 
                                  lg_frame, lg_n, ca_h0, ca_num, ca_cur, 
                                  ca_new, ca_i, ca_ok, ca_seen, ca_j, sf_h, 
                                  sf_start, sf_order, sf_i, sf_r, sf_found, 
                                  sf_off, sf_nrows, sf_c, sf_k, sf_v, sf_zero, 
                                  sf_ok, sf_seen, sf_u, tg_h, tg_off, tg_order, 
                                  tg_exp, tg_ok, tg_i, tg_n, tg_seen, tg_u, 
                                  tg_r0, la_frame, la_order, la_h, ps_frame, 
                                  ps_order, lp_frame, lp_order, lp_h, lp_old, 
                                  lp_ok, lp_seen, lp_spin, lp_v, tp_t, tp_n, 
                                  tu2_t, tu2_free, tu2_class, gl_order, 
                                  gl_class, gl_local, gl_frame, gl_sync, 
                                  gl_row, gl_res, gl_min, gl_got, sg_i, 
                                  sg_class, sg_order, sg_frame, sg_c, rs_i, 
                                  rs_order, rs_class, rs_local, rs_reserved, 
                                  rs_free, rs_tc, rs_frame, rs_old, sb_n, 
                                  sb_start, sb_offset, sb_len, sb_mode, 
                                  sb_order, sb_class, sb_local, sb_i, sb_idx, 
                                  sb_t, sb_p, sb_best, sb_done, sb_k, sl_class, 
                                  sl_local, sl_order, sl_frame, sl_i, sl_tc, 
                                  sl_j, sl_found, sl_row, sl_jj, dl_class, 
                                  dl_local, dl_order, dl_frame, dl_i, dl_tc, 
                                  dl_j, dl_found, dl_new, dl_old, dl_jj, 
                                  dl_oldclass, ag_order, ag_class, ag_local, 
                                  ag_frame, ag_len, ag_start, ag_near, ag_done, 
                                  ap_frame, ap_order, ap_class, ap_local, ad_c, 
                                  ad_k, ad_old, cg_t, cg_mclass, cg_mfree, 
                                  cg_cclass, cg_cop, cg_prev, cg_done, 
                                  cg_fetched, cg_h, cg_v, cg_next, cg_ok, 
                                  cg_seen, ac_id, ac_mclass, ac_mfree, 
                                  ac_cclass, ac_cop, ac_i, ac_done, pcx, cur, 
                                  blk >>

un_r(self) == /\ pc[self] = "un_r"
              /\ IF ~rv[self].ok
                    THEN /\ /\ dp_why' = [dp_why EXCEPT ![self] = "assertion"]
                            /\ stack' = [stack EXCEPT ![self] = << [ procedure |->  "do_panic",
                                                                     pc        |->  "Error",
                                                                     dp_why    |->  dp_why[self] ] >>
                                                                 \o stack[self]]
                         /\ pc' = [pc EXCEPT ![self] = "dp_flag"]
                         /\ UNCHANGED << tu2_t, tu2_free, tu2_class >>
                    ELSE /\ pc' = [pc EXCEPT ![self] = Head(stack[self]).pc]
                         /\ tu2_t' = [tu2_t EXCEPT ![self] = Head(stack[self]).tu2_t]
                         /\ tu2_free' = [tu2_free EXCEPT ![self] = Head(stack[self]).tu2_free]
                         /\ tu2_class' = [tu2_class EXCEPT ![self] = Head(stack[self]).tu2_class]
                         /\ stack' = [stack EXCEPT ![self] = Tail(stack[self])]
                         /\ UNCHANGED dp_why
              /\ UNCHANGED << mem, held, results, inflight, rv, panicked, hid, 
                              lastop, tu_loc, tu_fn, tu_arg, tu_prev, tu_next, 
                              tu_done, tu_ok, tu_seen, lg_row, lg_order, 
                              lg_tree, lg_off, lg_j, lg_i, lg_h, lg_found, 
                              lg_frame, lg_n, ca_h0, ca_num, ca_cur, ca_new, 
                              ca_i, ca_ok, ca_seen, ca_j, sf_h, sf_start, 
                              sf_order, sf_i, sf_r, sf_found, sf_off, sf_nrows, 
                              sf_c, sf_k, sf_v, sf_zero, sf_ok, sf_seen, sf_u, 
                              tg_h, tg_off, tg_order, tg_exp, tg_ok, tg_i, 
                              tg_n, tg_seen, tg_u, tg_r0, la_frame, la_order, 
                              la_h, ps_frame, ps_order, lp_frame, lp_order, 
                              lp_h, lp_old, lp_ok, lp_seen, lp_spin, lp_v, 
                              tp_t, tp_n, gl_order, gl_class, gl_local, 
                              gl_frame, gl_sync, gl_row, gl_res, gl_min, 
                              gl_got, sg_i, sg_class, sg_order, sg_frame, sg_c, 
                              rs_i, rs_order, rs_class, rs_local, rs_reserved, 
                              rs_free, rs_tc, rs_frame, rs_old, sb_n, sb_start, 
                              sb_offset, sb_len, sb_mode, sb_order, sb_class, 
                              sb_local, sb_i, sb_idx, sb_t, sb_p, sb_best, 
                              sb_done, sb_k, sl_class, sl_local, sl_order, 
                              sl_frame, sl_i, sl_tc, sl_j, sl_found, sl_row, 
                              sl_jj, dl_class, dl_local, dl_order, dl_frame, 
                              dl_i, dl_tc, dl_j, dl_found, dl_new, dl_old, 
                              dl_jj, dl_oldclass, ag_order, ag_class, ag_local, 
                              ag_frame, ag_len, ag_start, ag_near, ag_done, 
                              ap_frame, ap_order, ap_class, ap_local, ad_c, 
                              ad_k, ad_old, cg_t, cg_mclass, cg_mfree, 
                              cg_cclass, cg_cop, cg_prev, cg_done, cg_fetched, 
                              cg_h, cg_v, cg_next, cg_ok, cg_seen, ac_id, 
                              ac_mclass, ac_mfree, ac_cclass, ac_cop, ac_i, 
                              ac_done, pcx, cur, blk >>

trees_unreserve(self) == un_begin(self) \/ un_r(self)

gl_begin(self) == /\ pc[self] = "gl_begin"
                  /\ /\ stack' = [stack EXCEPT ![self] = << [ procedure |->  "try_update",
                                                              pc        |->  "gl_get_r",
                                                              tu_prev   |->  tu_prev[self],
                                                              tu_next   |->  tu_next[self],
                                                              tu_done   |->  tu_done[self],
                                                              tu_ok     |->  tu_ok[self],
                                                              tu_seen   |->  tu_seen[self],
                                                              tu_loc    |->  tu_loc[self],
                                                              tu_fn     |->  tu_fn[self],
                                                              tu_arg    |->  tu_arg[self] ] >>
                                                          \o stack[self]]
                     /\ tu_arg' = [tu_arg EXCEPT ![self] = [tree |-> IF gl_frame[self] = -1 THEN -1 ELSE TreeOfFrame(gl_frame[self]), n |-> P2(gl_order[self])]]
                     /\ tu_fn' = [tu_fn EXCEPT ![self] = "sget"]
                     /\ tu_loc' = [tu_loc EXCEPT ![self] = Slot(gl_class[self], gl_local[self])]
                  /\ tu_prev' = [tu_prev EXCEPT ![self] = 0]
                  /\ tu_next' = [tu_next EXCEPT ![self] = <<>>]
                  /\ tu_done' = [tu_done EXCEPT ![self] = FALSE]
                  /\ tu_ok' = [tu_ok EXCEPT ![self] = FALSE]
                  /\ tu_seen' = [tu_seen EXCEPT ![self] = 0]
                  /\ pc' = [pc EXCEPT ![self] = "tu_load"]
                  /\ UNCHANGED << mem, held, results, inflight, rv, panicked, 
                                  hid, lastop, dp_why, lg_row, lg_order, 
                                  lg_tree, lg_off, lg_j, lg_i, lg_h, lg_found, 
                                  lg_frame, lg_n, ca_h0, ca_num, ca_cur, 
                                  ca_new, ca_i, ca_ok, ca_seen, ca_j, sf_h, 
                                  sf_start, sf_order, sf_i, sf_r, sf_found, 
                                  sf_off, sf_nrows, sf_c, sf_k, sf_v, sf_zero, 
                                  sf_ok, sf_seen, sf_u, tg_h, tg_off, tg_order, 
                                  tg_exp, tg_ok, tg_i, tg_n, tg_seen, tg_u, 
                                  tg_r0, la_frame, la_order, la_h, ps_frame, 
                                  ps_order, lp_frame, lp_order, lp_h, lp_old, 
                                  lp_ok, lp_seen, lp_spin, lp_v, tp_t, tp_n, 
                                  tu2_t, tu2_free, tu2_class, gl_order, 
                                  gl_class, gl_local, gl_frame, gl_sync, 
                                  gl_row, gl_res, gl_min, gl_got, sg_i, 
                                  sg_class, sg_order, sg_frame, sg_c, rs_i, 
                                  rs_order, rs_class, rs_local, rs_reserved, 
                                  rs_free, rs_tc, rs_frame, rs_old, sb_n, 
                                  sb_start, sb_offset, sb_len, sb_mode, 
                                  sb_order, sb_class, sb_local, sb_i, sb_idx, 
                                  sb_t, sb_p, sb_best, sb_done, sb_k, sl_class, 
                                  sl_local, sl_order, sl_frame, sl_i, sl_tc, 
                                  sl_j, sl_found, sl_row, sl_jj, dl_class, 
                                  dl_local, dl_order, dl_frame, dl_i, dl_tc, 
                                  dl_j, dl_found, dl_new, dl_old, dl_jj, 
                                  dl_oldclass, ag_order, ag_class, ag_local, 
                                  ag_frame, ag_len, ag_start, ag_near, ag_done, 
                                  ap_frame, ap_order, ap_class, ap_local, ad_c, 
                                  ad_k, ad_old, cg_t, cg_mclass, cg_mfree, 
                                  cg_cclass, cg_cop, cg_prev, cg_done, 
                                  cg_fetched, cg_h, cg_v, cg_next, cg_ok, 
                                  cg_seen, ac_id, ac_mclass, ac_mfree, 
                                  ac_cclass, ac_cop, ac_i, ac_done, pcx, cur, 
                                  blk >>

gl_get_r(self) == /\ pc[self] = "gl_get_r"
                  /\ IF rv[self].ok
                        THEN /\ gl_row' = [gl_row EXCEPT ![self] = rv[self].old.row]
                             /\ IF gl_frame[self] = -1
                                   THEN /\ /\ lg_order' = [lg_order EXCEPT ![self] = gl_order[self]]
                                           /\ lg_row' = [lg_row EXCEPT ![self] = gl_row'[self]]
                                           /\ stack' = [stack EXCEPT ![self] = << [ procedure |->  "lower_get",
                                                                                    pc        |->  "gl_lower_r",
                                                                                    lg_tree   |->  lg_tree[self],
                                                                                    lg_off    |->  lg_off[self],
                                                                                    lg_j      |->  lg_j[self],
                                                                                    lg_i      |->  lg_i[self],
                                                                                    lg_h      |->  lg_h[self],
                                                                                    lg_found  |->  lg_found[self],
                                                                                    lg_frame  |->  lg_frame[self],
                                                                                    lg_n      |->  lg_n[self],
                                                                                    lg_row    |->  lg_row[self],
                                                                                    lg_order  |->  lg_order[self] ] >>
                                                                                \o stack[self]]
                                        /\ lg_tree' = [lg_tree EXCEPT ![self] = 0]
                                        /\ lg_off' = [lg_off EXCEPT ![self] = 0]
                                        /\ lg_j' = [lg_j EXCEPT ![self] = 0]
                                        /\ lg_i' = [lg_i EXCEPT ![self] = 0]
                                        /\ lg_h' = [lg_h EXCEPT ![self] = 0]
                                        /\ lg_found' = [lg_found EXCEPT ![self] = FALSE]
                                        /\ lg_frame' = [lg_frame EXCEPT ![self] = 0]
                                        /\ lg_n' = [lg_n EXCEPT ![self] = 0]
                                        /\ pc' = [pc EXCEPT ![self] = "lg_start"]
                                        /\ UNCHANGED << la_frame, la_order, 
                                                        la_h >>
                                   ELSE /\ /\ la_frame' = [la_frame EXCEPT ![self] = gl_frame[self]]
                                           /\ la_order' = [la_order EXCEPT ![self] = gl_order[self]]
                                           /\ stack' = [stack EXCEPT ![self] = << [ procedure |->  "lower_get_at",
                                                                                    pc        |->  "gl_lower_r",
                                                                                    la_h      |->  la_h[self],
                                                                                    la_frame  |->  la_frame[self],
                                                                                    la_order  |->  la_order[self] ] >>
                                                                                \o stack[self]]
                                        /\ la_h' = [la_h EXCEPT ![self] = 0]
                                        /\ pc' = [pc EXCEPT ![self] = "la_begin"]
                                        /\ UNCHANGED << lg_row, lg_order, 
                                                        lg_tree, lg_off, lg_j, 
                                                        lg_i, lg_h, lg_found, 
                                                        lg_frame, lg_n >>
                             /\ UNCHANGED << rv, tu_loc, tu_fn, tu_arg, 
                                             tu_prev, tu_next, tu_done, tu_ok, 
                                             tu_seen, gl_res, gl_min >>
                        ELSE /\ gl_res' = [gl_res EXCEPT ![self] = rv[self].old]
                             /\ IF ~gl_res'[self].present
                                   THEN /\ rv' = [rv EXCEPT ![self] = [ok |-> FALSE, frame |-> -1, class |-> -1, err |-> "mem", tree |-> -1]]
                                        /\ pc' = [pc EXCEPT ![self] = "Lbl_4"]
                                        /\ UNCHANGED << stack, tu_loc, tu_fn, 
                                                        tu_arg, tu_prev, 
                                                        tu_next, tu_done, 
                                                        tu_ok, tu_seen, gl_min >>
                                   ELSE /\ IF gl_sync[self] /\ gl_res'[self].free < P2(gl_order[self])
                                              THEN /\ gl_min' = [gl_min EXCEPT ![self] = P2(gl_order[self]) - gl_res'[self].free]
                                                   /\ /\ stack' = [stack EXCEPT ![self] = << [ procedure |->  "try_update",
                                                                                               pc        |->  "gl_sync_r",
                                                                                               tu_prev   |->  tu_prev[self],
                                                                                               tu_next   |->  tu_next[self],
                                                                                               tu_done   |->  tu_done[self],
                                                                                               tu_ok     |->  tu_ok[self],
                                                                                               tu_seen   |->  tu_seen[self],
                                                                                               tu_loc    |->  tu_loc[self],
                                                                                               tu_fn     |->  tu_fn[self],
                                                                                               tu_arg    |->  tu_arg[self] ] >>
                                                                                           \o stack[self]]
                                                      /\ tu_arg' = [tu_arg EXCEPT ![self] = gl_min'[self]]
                                                      /\ tu_fn' = [tu_fn EXCEPT ![self] = "sync"]
                                                      /\ tu_loc' = [tu_loc EXCEPT ![self] = Tree(TreeOfRow(gl_res'[self].row))]
                                                   /\ tu_prev' = [tu_prev EXCEPT ![self] = 0]
                                                   /\ tu_next' = [tu_next EXCEPT ![self] = <<>>]
                                                   /\ tu_done' = [tu_done EXCEPT ![self] = FALSE]
                                                   /\ tu_ok' = [tu_ok EXCEPT ![self] = FALSE]
                                                   /\ tu_seen' = [tu_seen EXCEPT ![self] = 0]
                                                   /\ pc' = [pc EXCEPT ![self] = "tu_load"]
                                              ELSE /\ pc' = [pc EXCEPT ![self] = "gl_fail"]
                                                   /\ UNCHANGED << stack, 
                                                                   tu_loc, 
                                                                   tu_fn, 
                                                                   tu_arg, 
                                                                   tu_prev, 
                                                                   tu_next, 
                                                                   tu_done, 
                                                                   tu_ok, 
                                                                   tu_seen, 
                                                                   gl_min >>
                                        /\ rv' = rv
                             /\ UNCHANGED << lg_row, lg_order, lg_tree, lg_off, 
                                             lg_j, lg_i, lg_h, lg_found, 
                                             lg_frame, lg_n, la_frame, 
                                             la_order, la_h, gl_row >>
                  /\ UNCHANGED << mem, held, results, inflight, panicked, hid, 
                                  lastop, dp_why, ca_h0, ca_num, ca_cur, 
                                  ca_new, ca_i, ca_ok, ca_seen, ca_j, sf_h, 
                                  sf_start, sf_order, sf_i, sf_r, sf_found, 
                                  sf_off, sf_nrows, sf_c, sf_k, sf_v, sf_zero, 
                                  sf_ok, sf_seen, sf_u, tg_h, tg_off, tg_order, 
                                  tg_exp, tg_ok, tg_i, tg_n, tg_seen, tg_u, 
                                  tg_r0, ps_frame, ps_order, lp_frame, 
                                  lp_order, lp_h, lp_old, lp_ok, lp_seen, 
                                  lp_spin, lp_v, tp_t, tp_n, tu2_t, tu2_free, 
                                  tu2_class, gl_order, gl_class, gl_local, 
                                  gl_frame, gl_sync, gl_got, sg_i, sg_class, 
                                  sg_order, sg_frame, sg_c, rs_i, rs_order, 
                                  rs_class, rs_local, rs_reserved, rs_free, 
                                  rs_tc, rs_frame, rs_old, sb_n, sb_start, 
                                  sb_offset, sb_len, sb_mode, sb_order, 
                                  sb_class, sb_local, sb_i, sb_idx, sb_t, sb_p, 
                                  sb_best, sb_done, sb_k, sl_class, sl_local, 
                                  sl_order, sl_frame, sl_i, sl_tc, sl_j, 
                                  sl_found, sl_row, sl_jj, dl_class, dl_local, 
                                  dl_order, dl_frame, dl_i, dl_tc, dl_j, 
                                  dl_found, dl_new, dl_old, dl_jj, dl_oldclass, 
                                  ag_order, ag_class, ag_local, ag_frame, 
                                  ag_len, ag_start, ag_near, ag_done, ap_frame, 
                                  ap_order, ap_class, ap_local, ad_c, ad_k, 
                                  ad_old, cg_t, cg_mclass, cg_mfree, cg_cclass, 
                                  cg_cop, cg_prev, cg_done, cg_fetched, cg_h, 
                                  cg_v, cg_next, cg_ok, cg_seen, ac_id, 
                                  ac_mclass, ac_mfree, ac_cclass, ac_cop, ac_i, 
                                  ac_done, pcx, cur, blk >>

gl_lower_r(self) == /\ pc[self] = "gl_lower_r"
                    /\ IF rv[self].ok
                          THEN /\ gl_got' = [gl_got EXCEPT ![self] = rv[self].frame]
                               /\ IF gl_row[self] # RowOfFrame(gl_got'[self])
                                     THEN /\ /\ stack' = [stack EXCEPT ![self] = << [ procedure |->  "try_update",
                                                                                      pc        |->  "gl_ok",
                                                                                      tu_prev   |->  tu_prev[self],
                                                                                      tu_next   |->  tu_next[self],
                                                                                      tu_done   |->  tu_done[self],
                                                                                      tu_ok     |->  tu_ok[self],
                                                                                      tu_seen   |->  tu_seen[self],
                                                                                      tu_loc    |->  tu_loc[self],
                                                                                      tu_fn     |->  tu_fn[self],
                                                                                      tu_arg    |->  tu_arg[self] ] >>
                                                                                  \o stack[self]]
                                             /\ tu_arg' = [tu_arg EXCEPT ![self] = RowOfFrame(gl_got'[self])]
                                             /\ tu_fn' = [tu_fn EXCEPT ![self] = "sstart"]
                                             /\ tu_loc' = [tu_loc EXCEPT ![self] = Slot(gl_class[self], gl_local[self])]
                                          /\ tu_prev' = [tu_prev EXCEPT ![self] = 0]
                                          /\ tu_next' = [tu_next EXCEPT ![self] = <<>>]
                                          /\ tu_done' = [tu_done EXCEPT ![self] = FALSE]
                                          /\ tu_ok' = [tu_ok EXCEPT ![self] = FALSE]
                                          /\ tu_seen' = [tu_seen EXCEPT ![self] = 0]
                                          /\ pc' = [pc EXCEPT ![self] = "tu_load"]
                                     ELSE /\ pc' = [pc EXCEPT ![self] = "gl_ok"]
                                          /\ UNCHANGED << stack, tu_loc, tu_fn, 
                                                          tu_arg, tu_prev, 
                                                          tu_next, tu_done, 
                                                          tu_ok, tu_seen >>
                               /\ UNCHANGED << tp_t, tp_n >>
                          ELSE /\ /\ stack' = [stack EXCEPT ![self] = << [ procedure |->  "trees_put",
                                                                           pc        |->  "gl_undo_r",
                                                                           tp_t      |->  tp_t[self],
                                                                           tp_n      |->  tp_n[self] ] >>
                                                                       \o stack[self]]
                                  /\ tp_n' = [tp_n EXCEPT ![self] = P2(gl_order[self])]
                                  /\ tp_t' = [tp_t EXCEPT ![self] = TreeOfRow(gl_row[self])]
                               /\ pc' = [pc EXCEPT ![self] = "tp_begin"]
                               /\ UNCHANGED << tu_loc, tu_fn, tu_arg, tu_prev, 
                                               tu_next, tu_done, tu_ok, 
                                               tu_seen, gl_got >>
                    /\ UNCHANGED << mem, held, results, inflight, rv, panicked, 
                                    hid, lastop, dp_why, lg_row, lg_order, 
                                    lg_tree, lg_off, lg_j, lg_i, lg_h, 
                                    lg_found, lg_frame, lg_n, ca_h0, ca_num, 
                                    ca_cur, ca_new, ca_i, ca_ok, ca_seen, ca_j, 
                                    sf_h, sf_start, sf_order, sf_i, sf_r, 
                                    sf_found, sf_off, sf_nrows, sf_c, sf_k, 
                                    sf_v, sf_zero, sf_ok, sf_seen, sf_u, tg_h, 
                                    tg_off, tg_order, tg_exp, tg_ok, tg_i, 
                                    tg_n, tg_seen, tg_u, tg_r0, la_frame, 
                                    la_order, la_h, ps_frame, ps_order, 
                                    lp_frame, lp_order, lp_h, lp_old, lp_ok, 
                                    lp_seen, lp_spin, lp_v, tu2_t, tu2_free, 
                                    tu2_class, gl_order, gl_class, gl_local, 
                                    gl_frame, gl_sync, gl_row, gl_res, gl_min, 
                                    sg_i, sg_class, sg_order, sg_frame, sg_c, 
                                    rs_i, rs_order, rs_class, rs_local, 
                                    rs_reserved, rs_free, rs_tc, rs_frame, 
                                    rs_old, sb_n, sb_start, sb_offset, sb_len, 
                                    sb_mode, sb_order, sb_class, sb_local, 
                                    sb_i, sb_idx, sb_t, sb_p, sb_best, sb_done, 
                                    sb_k, sl_class, sl_local, sl_order, 
                                    sl_frame, sl_i, sl_tc, sl_j, sl_found, 
                                    sl_row, sl_jj, dl_class, dl_local, 
                                    dl_order, dl_frame, dl_i, dl_tc, dl_j, 
                                    dl_found, dl_new, dl_old, dl_jj, 
                                    dl_oldclass, ag_order, ag_class, ag_local, 
                                    ag_frame, ag_len, ag_start, ag_near, 
                                    ag_done, ap_frame, ap_order, ap_class, 
                                    ap_local, ad_c, ad_k, ad_old, cg_t, 
                                    cg_mclass, cg_mfree, cg_cclass, cg_cop, 
                                    cg_prev, cg_done, cg_fetched, cg_h, cg_v, 
                                    cg_next, cg_ok, cg_seen, ac_id, ac_mclass, 
                                    ac_mfree, ac_cclass, ac_cop, ac_i, ac_done, 
                                    pcx, cur, blk >>

gl_ok(self) == /\ pc[self] = "gl_ok"
               /\ rv' = [rv EXCEPT ![self] = [ok |-> TRUE, frame |-> gl_got[self], class |-> gl_class[self], err |-> "", tree |-> -1]]
               /\ pc' = [pc EXCEPT ![self] = Head(stack[self]).pc]
               /\ gl_row' = [gl_row EXCEPT ![self] = Head(stack[self]).gl_row]
               /\ gl_res' = [gl_res EXCEPT ![self] = Head(stack[self]).gl_res]
               /\ gl_min' = [gl_min EXCEPT ![self] = Head(stack[self]).gl_min]
               /\ gl_got' = [gl_got EXCEPT ![self] = Head(stack[self]).gl_got]
               /\ gl_order' = [gl_order EXCEPT ![self] = Head(stack[self]).gl_order]
               /\ gl_class' = [gl_class EXCEPT ![self] = Head(stack[self]).gl_class]
               /\ gl_local' = [gl_local EXCEPT ![self] = Head(stack[self]).gl_local]
               /\ gl_frame' = [gl_frame EXCEPT ![self] = Head(stack[self]).gl_frame]
               /\ gl_sync' = [gl_sync EXCEPT ![self] = Head(stack[self]).gl_sync]
               /\ stack' = [stack EXCEPT ![self] = Tail(stack[self])]
               /\ UNCHANGED << mem, held, results, inflight, panicked, hid, 
                               lastop, dp_why, tu_loc, tu_fn, tu_arg, tu_prev, 
                               tu_next, tu_done, tu_ok, tu_seen, lg_row, 
                               lg_order, lg_tree, lg_off, lg_j, lg_i, lg_h, 
                               lg_found, lg_frame, lg_n, ca_h0, ca_num, ca_cur, 
                               ca_new, ca_i, ca_ok, ca_seen, ca_j, sf_h, 
                               sf_start, sf_order, sf_i, sf_r, sf_found, 
                               sf_off, sf_nrows, sf_c, sf_k, sf_v, sf_zero, 
                               sf_ok, sf_seen, sf_u, tg_h, tg_off, tg_order, 
                               tg_exp, tg_ok, tg_i, tg_n, tg_seen, tg_u, tg_r0, 
                               la_frame, la_order, la_h, ps_frame, ps_order, 
                               lp_frame, lp_order, lp_h, lp_old, lp_ok, 
                               lp_seen, lp_spin, lp_v, tp_t, tp_n, tu2_t, 
                               tu2_free, tu2_class, sg_i, sg_class, sg_order, 
                               sg_frame, sg_c, rs_i, rs_order, rs_class, 
                               rs_local, rs_reserved, rs_free, rs_tc, rs_frame, 
                               rs_old, sb_n, sb_start, sb_offset, sb_len, 
                               sb_mode, sb_order, sb_class, sb_local, sb_i, 
                               sb_idx, sb_t, sb_p, sb_best, sb_done, sb_k, 
                               sl_class, sl_local, sl_order, sl_frame, sl_i, 
                               sl_tc, sl_j, sl_found, sl_row, sl_jj, dl_class, 
                               dl_local, dl_order, dl_frame, dl_i, dl_tc, dl_j, 
                               dl_found, dl_new, dl_old, dl_jj, dl_oldclass, 
                               ag_order, ag_class, ag_local, ag_frame, ag_len, 
                               ag_start, ag_near, ag_done, ap_frame, ap_order, 
                               ap_class, ap_local, ad_c, ad_k, ad_old, cg_t, 
                               cg_mclass, cg_mfree, cg_cclass, cg_cop, cg_prev, 
                               cg_done, cg_fetched, cg_h, cg_v, cg_next, cg_ok, 
                               cg_seen, ac_id, ac_mclass, ac_mfree, ac_cclass, 
                               ac_cop, ac_i, ac_done, pcx, cur, blk >>

gl_undo_r(self) == /\ pc[self] = "gl_undo_r"
                   /\ rv' = [rv EXCEPT ![self] = [ok |-> FALSE, frame |-> -1, class |-> -1, err |-> "mem", tree |-> TreeOfRow(gl_row[self])]]
                   /\ pc' = [pc EXCEPT ![self] = Head(stack[self]).pc]
                   /\ gl_row' = [gl_row EXCEPT ![self] = Head(stack[self]).gl_row]
                   /\ gl_res' = [gl_res EXCEPT ![self] = Head(stack[self]).gl_res]
                   /\ gl_min' = [gl_min EXCEPT ![self] = Head(stack[self]).gl_min]
                   /\ gl_got' = [gl_got EXCEPT ![self] = Head(stack[self]).gl_got]
                   /\ gl_order' = [gl_order EXCEPT ![self] = Head(stack[self]).gl_order]
                   /\ gl_class' = [gl_class EXCEPT ![self] = Head(stack[self]).gl_class]
                   /\ gl_local' = [gl_local EXCEPT ![self] = Head(stack[self]).gl_local]
                   /\ gl_frame' = [gl_frame EXCEPT ![self] = Head(stack[self]).gl_frame]
                   /\ gl_sync' = [gl_sync EXCEPT ![self] = Head(stack[self]).gl_sync]
                   /\ stack' = [stack EXCEPT ![self] = Tail(stack[self])]
                   /\ UNCHANGED << mem, held, results, inflight, panicked, hid, 
                                   lastop, dp_why, tu_loc, tu_fn, tu_arg, 
                                   tu_prev, tu_next, tu_done, tu_ok, tu_seen, 
                                   lg_row, lg_order, lg_tree, lg_off, lg_j, 
                                   lg_i, lg_h, lg_found, lg_frame, lg_n, ca_h0, 
                                   ca_num, ca_cur, ca_new, ca_i, ca_ok, 
                                   ca_seen, ca_j, sf_h, sf_start, sf_order, 
                                   sf_i, sf_r, sf_found, sf_off, sf_nrows, 
                                   sf_c, sf_k, sf_v, sf_zero, sf_ok, sf_seen, 
                                   sf_u, tg_h, tg_off, tg_order, tg_exp, tg_ok, 
                                   tg_i, tg_n, tg_seen, tg_u, tg_r0, la_frame, 
                                   la_order, la_h, ps_frame, ps_order, 
                                   lp_frame, lp_order, lp_h, lp_old, lp_ok, 
                                   lp_seen, lp_spin, lp_v, tp_t, tp_n, tu2_t, 
                                   tu2_free, tu2_class, sg_i, sg_class, 
                                   sg_order, sg_frame, sg_c, rs_i, rs_order, 
                                   rs_class, rs_local, rs_reserved, rs_free, 
                                   rs_tc, rs_frame, rs_old, sb_n, sb_start, 
                                   sb_offset, sb_len, sb_mode, sb_order, 
                                   sb_class, sb_local, sb_i, sb_idx, sb_t, 
                                   sb_p, sb_best, sb_done, sb_k, sl_class, 
                                   sl_local, sl_order, sl_frame, sl_i, sl_tc, 
                                   sl_j, sl_found, sl_row, sl_jj, dl_class, 
                                   dl_local, dl_order, dl_frame, dl_i, dl_tc, 
                                   dl_j, dl_found, dl_new, dl_old, dl_jj, 
                                   dl_oldclass, ag_order, ag_class, ag_local, 
                                   ag_frame, ag_len, ag_start, ag_near, 
                                   ag_done, ap_frame, ap_order, ap_class, 
                                   ap_local, ad_c, ad_k, ad_old, cg_t, 
                                   cg_mclass, cg_mfree, cg_cclass, cg_cop, 
                                   cg_prev, cg_done, cg_fetched, cg_h, cg_v, 
                                   cg_next, cg_ok, cg_seen, ac_id, ac_mclass, 
                                   ac_mfree, ac_cclass, ac_cop, ac_i, ac_done, 
                                   pcx, cur, blk >>

Lbl_4(self) == /\ pc[self] = "Lbl_4"
               /\ pc' = [pc EXCEPT ![self] = Head(stack[self]).pc]
               /\ gl_row' = [gl_row EXCEPT ![self] = Head(stack[self]).gl_row]
               /\ gl_res' = [gl_res EXCEPT ![self] = Head(stack[self]).gl_res]
               /\ gl_min' = [gl_min EXCEPT ![self] = Head(stack[self]).gl_min]
               /\ gl_got' = [gl_got EXCEPT ![self] = Head(stack[self]).gl_got]
               /\ gl_order' = [gl_order EXCEPT ![self] = Head(stack[self]).gl_order]
               /\ gl_class' = [gl_class EXCEPT ![self] = Head(stack[self]).gl_class]
               /\ gl_local' = [gl_local EXCEPT ![self] = Head(stack[self]).gl_local]
               /\ gl_frame' = [gl_frame EXCEPT ![self] = Head(stack[self]).gl_frame]
               /\ gl_sync' = [gl_sync EXCEPT ![self] = Head(stack[self]).gl_sync]
               /\ stack' = [stack EXCEPT ![self] = Tail(stack[self])]
               /\ UNCHANGED << mem, held, results, inflight, rv, panicked, hid, 
                               lastop, dp_why, tu_loc, tu_fn, tu_arg, tu_prev, 
                               tu_next, tu_done, tu_ok, tu_seen, lg_row, 
                               lg_order, lg_tree, lg_off, lg_j, lg_i, lg_h, 
                               lg_found, lg_frame, lg_n, ca_h0, ca_num, ca_cur, 
                               ca_new, ca_i, ca_ok, ca_seen, ca_j, sf_h, 
                               sf_start, sf_order, sf_i, sf_r, sf_found, 
                               sf_off, sf_nrows, sf_c, sf_k, sf_v, sf_zero, 
                               sf_ok, sf_seen, sf_u, tg_h, tg_off, tg_order, 
                               tg_exp, tg_ok, tg_i, tg_n, tg_seen, tg_u, tg_r0, 
                               la_frame, la_order, la_h, ps_frame, ps_order, 
                               lp_frame, lp_order, lp_h, lp_old, lp_ok, 
                               lp_seen, lp_spin, lp_v, tp_t, tp_n, tu2_t, 
                               tu2_free, tu2_class, sg_i, sg_class, sg_order, 
                               sg_frame, sg_c, rs_i, rs_order, rs_class, 
                               rs_local, rs_reserved, rs_free, rs_tc, rs_frame, 
                               rs_old, sb_n, sb_start, sb_offset, sb_len, 
                               sb_mode, sb_order, sb_class, sb_local, sb_i, 
                               sb_idx, sb_t, sb_p, sb_best, sb_done, sb_k, 
                               sl_class, sl_local, sl_order, sl_frame, sl_i, 
                               sl_tc, sl_j, sl_found, sl_row, sl_jj, dl_class, 
                               dl_local, dl_order, dl_frame, dl_i, dl_tc, dl_j, 
                               dl_found, dl_new, dl_old, dl_jj, dl_oldclass, 
                               ag_order, ag_class, ag_local, ag_frame, ag_len, 
                               ag_start, ag_near, ag_done, ap_frame, ap_order, 
                               ap_class, ap_local, ad_c, ad_k, ad_old, cg_t, 
                               cg_mclass, cg_mfree, cg_cclass, cg_cop, cg_prev, 
                               cg_done, cg_fetched, cg_h, cg_v, cg_next, cg_ok, 
                               cg_seen, ac_id, ac_mclass, ac_mfree, ac_cclass, 
                               ac_cop, ac_i, ac_done, pcx, cur, blk >>

gl_fail(self) == /\ pc[self] = "gl_fail"
                 /\ rv' = [rv EXCEPT ![self] = [ok |-> FALSE, frame |-> -1, class |-> -1, err |-> "mem", tree |-> TreeOfRow(gl_res[self].row)]]
                 /\ pc' = [pc EXCEPT ![self] = Head(stack[self]).pc]
                 /\ gl_row' = [gl_row EXCEPT ![self] = Head(stack[self]).gl_row]
                 /\ gl_res' = [gl_res EXCEPT ![self] = Head(stack[self]).gl_res]
                 /\ gl_min' = [gl_min EXCEPT ![self] = Head(stack[self]).gl_min]
                 /\ gl_got' = [gl_got EXCEPT ![self] = Head(stack[self]).gl_got]
                 /\ gl_order' = [gl_order EXCEPT ![self] = Head(stack[self]).gl_order]
                 /\ gl_class' = [gl_class EXCEPT ![self] = Head(stack[self]).gl_class]
                 /\ gl_local' = [gl_local EXCEPT ![self] = Head(stack[self]).gl_local]
                 /\ gl_frame' = [gl_frame EXCEPT ![self] = Head(stack[self]).gl_frame]
                 /\ gl_sync' = [gl_sync EXCEPT ![self] = Head(stack[self]).gl_sync]
                 /\ stack' = [stack EXCEPT ![self] = Tail(stack[self])]
                 /\ UNCHANGED << mem, held, results, inflight, panicked, hid, 
                                 lastop, dp_why, tu_loc, tu_fn, tu_arg, 
                                 tu_prev, tu_next, tu_done, tu_ok, tu_seen, 
                                 lg_row, lg_order, lg_tree, lg_off, lg_j, lg_i, 
                                 lg_h, lg_found, lg_frame, lg_n, ca_h0, ca_num, 
                                 ca_cur, ca_new, ca_i, ca_ok, ca_seen, ca_j, 
                                 sf_h, sf_start, sf_order, sf_i, sf_r, 
                                 sf_found, sf_off, sf_nrows, sf_c, sf_k, sf_v, 
                                 sf_zero, sf_ok, sf_seen, sf_u, tg_h, tg_off, 
                                 tg_order, tg_exp, tg_ok, tg_i, tg_n, tg_seen, 
                                 tg_u, tg_r0, la_frame, la_order, la_h, 
                                 ps_frame, ps_order, lp_frame, lp_order, lp_h, 
                                 lp_old, lp_ok, lp_seen, lp_spin, lp_v, tp_t, 
                                 tp_n, tu2_t, tu2_free, tu2_class, sg_i, 
                                 sg_class, sg_order, sg_frame, sg_c, rs_i, 
                                 rs_order, rs_class, rs_local, rs_reserved, 
                                 rs_free, rs_tc, rs_frame, rs_old, sb_n, 
                                 sb_start, sb_offset, sb_len, sb_mode, 
                                 sb_order, sb_class, sb_local, sb_i, sb_idx, 
                                 sb_t, sb_p, sb_best, sb_done, sb_k, sl_class, 
                                 sl_local, sl_order, sl_frame, sl_i, sl_tc, 
                                 sl_j, sl_found, sl_row, sl_jj, dl_class, 
                                 dl_local, dl_order, dl_frame, dl_i, dl_tc, 
                                 dl_j, dl_found, dl_new, dl_old, dl_jj, 
                                 dl_oldclass, ag_order, ag_class, ag_local, 
                                 ag_frame, ag_len, ag_start, ag_near, ag_done, 
                                 ap_frame, ap_order, ap_class, ap_local, ad_c, 
                                 ad_k, ad_old, cg_t, cg_mclass, cg_mfree, 
                                 cg_cclass, cg_cop, cg_prev, cg_done, 
                                 cg_fetched, cg_h, cg_v, cg_next, cg_ok, 
                                 cg_seen, ac_id, ac_mclass, ac_mfree, 
                                 ac_cclass, ac_cop, ac_i, ac_done, pcx, cur, 
                                 blk >>

gl_sync_r(self) == /\ pc[self] = "gl_sync_r"
                   /\ IF rv[self].ok
                         THEN /\ gl_got' = [gl_got EXCEPT ![self] = rv[self].old.free]
                              /\ /\ stack' = [stack EXCEPT ![self] = << [ procedure |->  "try_update",
                                                                          pc        |->  "gl_sput_r",
                                                                          tu_prev   |->  tu_prev[self],
                                                                          tu_next   |->  tu_next[self],
                                                                          tu_done   |->  tu_done[self],
                                                                          tu_ok     |->  tu_ok[self],
                                                                          tu_seen   |->  tu_seen[self],
                                                                          tu_loc    |->  tu_loc[self],
                                                                          tu_fn     |->  tu_fn[self],
                                                                          tu_arg    |->  tu_arg[self] ] >>
                                                                      \o stack[self]]
                                 /\ tu_arg' = [tu_arg EXCEPT ![self] = [tree |-> TreeOfRow(gl_res[self].row), n |-> gl_got'[self]]]
                                 /\ tu_fn' = [tu_fn EXCEPT ![self] = "sput"]
                                 /\ tu_loc' = [tu_loc EXCEPT ![self] = Slot(gl_class[self], gl_local[self])]
                              /\ tu_prev' = [tu_prev EXCEPT ![self] = 0]
                              /\ tu_next' = [tu_next EXCEPT ![self] = <<>>]
                              /\ tu_done' = [tu_done EXCEPT ![self] = FALSE]
                              /\ tu_ok' = [tu_ok EXCEPT ![self] = FALSE]
                              /\ tu_seen' = [tu_seen EXCEPT ![self] = 0]
                              /\ pc' = [pc EXCEPT ![self] = "tu_load"]
                         ELSE /\ pc' = [pc EXCEPT ![self] = "gl_fail"]
                              /\ UNCHANGED << stack, tu_loc, tu_fn, tu_arg, 
                                              tu_prev, tu_next, tu_done, tu_ok, 
                                              tu_seen, gl_got >>
                   /\ UNCHANGED << mem, held, results, inflight, rv, panicked, 
                                   hid, lastop, dp_why, lg_row, lg_order, 
                                   lg_tree, lg_off, lg_j, lg_i, lg_h, lg_found, 
                                   lg_frame, lg_n, ca_h0, ca_num, ca_cur, 
                                   ca_new, ca_i, ca_ok, ca_seen, ca_j, sf_h, 
                                   sf_start, sf_order, sf_i, sf_r, sf_found, 
                                   sf_off, sf_nrows, sf_c, sf_k, sf_v, sf_zero, 
                                   sf_ok, sf_seen, sf_u, tg_h, tg_off, 
                                   tg_order, tg_exp, tg_ok, tg_i, tg_n, 
                                   tg_seen, tg_u, tg_r0, la_frame, la_order, 
                                   la_h, ps_frame, ps_order, lp_frame, 
                                   lp_order, lp_h, lp_old, lp_ok, lp_seen, 
                                   lp_spin, lp_v, tp_t, tp_n, tu2_t, tu2_free, 
                                   tu2_class, gl_order, gl_class, gl_local, 
                                   gl_frame, gl_sync, gl_row, gl_res, gl_min, 
                                   sg_i, sg_class, sg_order, sg_frame, sg_c, 
                                   rs_i, rs_order, rs_class, rs_local, 
                                   rs_reserved, rs_free, rs_tc, rs_frame, 
                                   rs_old, sb_n, sb_start, sb_offset, sb_len, 
                                   sb_mode, sb_order, sb_class, sb_local, sb_i, 
                                   sb_idx, sb_t, sb_p, sb_best, sb_done, sb_k, 
                                   sl_class, sl_local, sl_order, sl_frame, 
                                   sl_i, sl_tc, sl_j, sl_found, sl_row, sl_jj, 
                                   dl_class, dl_local, dl_order, dl_frame, 
                                   dl_i, dl_tc, dl_j, dl_found, dl_new, dl_old, 
                                   dl_jj, dl_oldclass, ag_order, ag_class, 
                                   ag_local, ag_frame, ag_len, ag_start, 
                                   ag_near, ag_done, ap_frame, ap_order, 
                                   ap_class, ap_local, ad_c, ad_k, ad_old, 
                                   cg_t, cg_mclass, cg_mfree, cg_cclass, 
                                   cg_cop, cg_prev, cg_done, cg_fetched, cg_h, 
                                   cg_v, cg_next, cg_ok, cg_seen, ac_id, 
                                   ac_mclass, ac_mfree, ac_cclass, ac_cop, 
                                   ac_i, ac_done, pcx, cur, blk >>

gl_sput_r(self) == /\ pc[self] = "gl_sput_r"
                   /\ IF rv[self].ok
                         THEN /\ /\ gl_class' = [gl_class EXCEPT ![self] = gl_class[self]]
                                 /\ gl_frame' = [gl_frame EXCEPT ![self] = gl_frame[self]]
                                 /\ gl_local' = [gl_local EXCEPT ![self] = gl_local[self]]
                                 /\ gl_order' = [gl_order EXCEPT ![self] = gl_order[self]]
                                 /\ gl_sync' = [gl_sync EXCEPT ![self] = FALSE]
                                 /\ stack' = [stack EXCEPT ![self] = << [ procedure |->  "get_local",
                                                                          pc        |->  "gl_retry_r",
                                                                          gl_row    |->  gl_row[self],
                                                                          gl_res    |->  gl_res[self],
                                                                          gl_min    |->  gl_min[self],
                                                                          gl_got    |->  gl_got[self],
                                                                          gl_order  |->  gl_order[self],
                                                                          gl_class  |->  gl_class[self],
                                                                          gl_local  |->  gl_local[self],
                                                                          gl_frame  |->  gl_frame[self],
                                                                          gl_sync   |->  gl_sync[self] ] >>
                                                                      \o stack[self]]
                              /\ gl_row' = [gl_row EXCEPT ![self] = 0]
                              /\ gl_res' = [gl_res EXCEPT ![self] = SlotNone]
                              /\ gl_min' = [gl_min EXCEPT ![self] = 0]
                              /\ gl_got' = [gl_got EXCEPT ![self] = 0]
                              /\ pc' = [pc EXCEPT ![self] = "gl_begin"]
                              /\ UNCHANGED << tp_t, tp_n >>
                         ELSE /\ /\ stack' = [stack EXCEPT ![self] = << [ procedure |->  "trees_put",
                                                                          pc        |->  "gl_fail",
                                                                          tp_t      |->  tp_t[self],
                                                                          tp_n      |->  tp_n[self] ] >>
                                                                      \o stack[self]]
                                 /\ tp_n' = [tp_n EXCEPT ![self] = gl_got[self]]
                                 /\ tp_t' = [tp_t EXCEPT ![self] = TreeOfRow(gl_res[self].row)]
                              /\ pc' = [pc EXCEPT ![self] = "tp_begin"]
                              /\ UNCHANGED << gl_order, gl_class, gl_local, 
                                              gl_frame, gl_sync, gl_row, 
                                              gl_res, gl_min, gl_got >>
                   /\ UNCHANGED << mem, held, results, inflight, rv, panicked, 
                                   hid, lastop, dp_why, tu_loc, tu_fn, tu_arg, 
                                   tu_prev, tu_next, tu_done, tu_ok, tu_seen, 
                                   lg_row, lg_order, lg_tree, lg_off, lg_j, 
                                   lg_i, lg_h, lg_found, lg_frame, lg_n, ca_h0, 
                                   ca_num, ca_cur, ca_new, ca_i, ca_ok, 
                                   ca_seen, ca_j, sf_h, sf_start, sf_order, 
                                   sf_i, sf_r, sf_found, sf_off, sf_nrows, 
                                   sf_c, sf_k, sf_v, sf_zero, sf_ok, sf_seen, 
                                   sf_u, tg_h, tg_off, tg_order, tg_exp, tg_ok, 
                                   tg_i, tg_n, tg_seen, tg_u, tg_r0, la_frame, 
                                   la_order, la_h, ps_frame, ps_order, 
                                   lp_frame, lp_order, lp_h, lp_old, lp_ok, 
                                   lp_seen, lp_spin, lp_v, tu2_t, tu2_free, 
                                   tu2_class, sg_i, sg_class, sg_order, 
                                   sg_frame, sg_c, rs_i, rs_order, rs_class, 
                                   rs_local, rs_reserved, rs_free, rs_tc, 
                                   rs_frame, rs_old, sb_n, sb_start, sb_offset, 
                                   sb_len, sb_mode, sb_order, sb_class, 
                                   sb_local, sb_i, sb_idx, sb_t, sb_p, sb_best, 
                                   sb_done, sb_k, sl_class, sl_local, sl_order, 
                                   sl_frame, sl_i, sl_tc, sl_j, sl_found, 
                                   sl_row, sl_jj, dl_class, dl_local, dl_order, 
                                   dl_frame, dl_i, dl_tc, dl_j, dl_found, 
                                   dl_new, dl_old, dl_jj, dl_oldclass, 
                                   ag_order, ag_class, ag_local, ag_frame, 
                                   ag_len, ag_start, ag_near, ag_done, 
                                   ap_frame, ap_order, ap_class, ap_local, 
                                   ad_c, ad_k, ad_old, cg_t, cg_mclass, 
                                   cg_mfree, cg_cclass, cg_cop, cg_prev, 
                                   cg_done, cg_fetched, cg_h, cg_v, cg_next, 
                                   cg_ok, cg_seen, ac_id, ac_mclass, ac_mfree, 
                                   ac_cclass, ac_cop, ac_i, ac_done, pcx, cur, 
                                   blk >>

gl_retry_r(self) == /\ pc[self] = "gl_retry_r"
                    /\ pc' = [pc EXCEPT ![self] = Head(stack[self]).pc]
                    /\ gl_row' = [gl_row EXCEPT ![self] = Head(stack[self]).gl_row]
                    /\ gl_res' = [gl_res EXCEPT ![self] = Head(stack[self]).gl_res]
                    /\ gl_min' = [gl_min EXCEPT ![self] = Head(stack[self]).gl_min]
                    /\ gl_got' = [gl_got EXCEPT ![self] = Head(stack[self]).gl_got]
                    /\ gl_order' = [gl_order EXCEPT ![self] = Head(stack[self]).gl_order]
                    /\ gl_class' = [gl_class EXCEPT ![self] = Head(stack[self]).gl_class]
                    /\ gl_local' = [gl_local EXCEPT ![self] = Head(stack[self]).gl_local]
                    /\ gl_frame' = [gl_frame EXCEPT ![self] = Head(stack[self]).gl_frame]
                    /\ gl_sync' = [gl_sync EXCEPT ![self] = Head(stack[self]).gl_sync]
                    /\ stack' = [stack EXCEPT ![self] = Tail(stack[self])]
                    /\ UNCHANGED << mem, held, results, inflight, rv, panicked, 
                                    hid, lastop, dp_why, tu_loc, tu_fn, tu_arg, 
                                    tu_prev, tu_next, tu_done, tu_ok, tu_seen, 
                                    lg_row, lg_order, lg_tree, lg_off, lg_j, 
                                    lg_i, lg_h, lg_found, lg_frame, lg_n, 
                                    ca_h0, ca_num, ca_cur, ca_new, ca_i, ca_ok, 
                                    ca_seen, ca_j, sf_h, sf_start, sf_order, 
                                    sf_i, sf_r, sf_found, sf_off, sf_nrows, 
                                    sf_c, sf_k, sf_v, sf_zero, sf_ok, sf_seen, 
                                    sf_u, tg_h, tg_off, tg_order, tg_exp, 
                                    tg_ok, tg_i, tg_n, tg_seen, tg_u, tg_r0, 
                                    la_frame, la_order, la_h, ps_frame, 
                                    ps_order, lp_frame, lp_order, lp_h, lp_old, 
                                    lp_ok, lp_seen, lp_spin, lp_v, tp_t, tp_n, 
                                    tu2_t, tu2_free, tu2_class, sg_i, sg_class, 
                                    sg_order, sg_frame, sg_c, rs_i, rs_order, 
                                    rs_class, rs_local, rs_reserved, rs_free, 
                                    rs_tc, rs_frame, rs_old, sb_n, sb_start, 
                                    sb_offset, sb_len, sb_mode, sb_order, 
                                    sb_class, sb_local, sb_i, sb_idx, sb_t, 
                                    sb_p, sb_best, sb_done, sb_k, sl_class, 
                                    sl_local, sl_order, sl_frame, sl_i, sl_tc, 
                                    sl_j, sl_found, sl_row, sl_jj, dl_class, 
                                    dl_local, dl_order, dl_frame, dl_i, dl_tc, 
                                    dl_j, dl_found, dl_new, dl_old, dl_jj, 
                                    dl_oldclass, ag_order, ag_class, ag_local, 
                                    ag_frame, ag_len, ag_start, ag_near, 
                                    ag_done, ap_frame, ap_order, ap_class, 
                                    ap_local, ad_c, ad_k, ad_old, cg_t, 
                                    cg_mclass, cg_mfree, cg_cclass, cg_cop, 
                                    cg_prev, cg_done, cg_fetched, cg_h, cg_v, 
                                    cg_next, cg_ok, cg_seen, ac_id, ac_mclass, 
                                    ac_mfree, ac_cclass, ac_cop, ac_i, ac_done, 
                                    pcx, cur, blk >>

get_local(self) == gl_begin(self) \/ gl_get_r(self) \/ gl_lower_r(self)
                      \/ gl_ok(self) \/ gl_undo_r(self) \/ Lbl_4(self)
                      \/ gl_fail(self) \/ gl_sync_r(self)
                      \/ gl_sput_r(self) \/ gl_retry_r(self)

sg_begin(self) == /\ pc[self] = "sg_begin"
                  /\ /\ stack' = [stack EXCEPT ![self] = << [ procedure |->  "try_update",
                                                              pc        |->  "sg_steal_r",
                                                              tu_prev   |->  tu_prev[self],
                                                              tu_next   |->  tu_next[self],
                                                              tu_done   |->  tu_done[self],
                                                              tu_ok     |->  tu_ok[self],
                                                              tu_seen   |->  tu_seen[self],
                                                              tu_loc    |->  tu_loc[self],
                                                              tu_fn     |->  tu_fn[self],
                                                              tu_arg    |->  tu_arg[self] ] >>
                                                          \o stack[self]]
                     /\ tu_arg' = [tu_arg EXCEPT ![self] = [class |-> sg_class[self], n |-> P2(sg_order[self])]]
                     /\ tu_fn' = [tu_fn EXCEPT ![self] = "steal"]
                     /\ tu_loc' = [tu_loc EXCEPT ![self] = Tree(sg_i[self])]
                  /\ tu_prev' = [tu_prev EXCEPT ![self] = 0]
                  /\ tu_next' = [tu_next EXCEPT ![self] = <<>>]
                  /\ tu_done' = [tu_done EXCEPT ![self] = FALSE]
                  /\ tu_ok' = [tu_ok EXCEPT ![self] = FALSE]
                  /\ tu_seen' = [tu_seen EXCEPT ![self] = 0]
                  /\ pc' = [pc EXCEPT ![self] = "tu_load"]
                  /\ UNCHANGED << mem, held, results, inflight, rv, panicked, 
                                  hid, lastop, dp_why, lg_row, lg_order, 
                                  lg_tree, lg_off, lg_j, lg_i, lg_h, lg_found, 
                                  lg_frame, lg_n, ca_h0, ca_num, ca_cur, 
                                  ca_new, ca_i, ca_ok, ca_seen, ca_j, sf_h, 
                                  sf_start, sf_order, sf_i, sf_r, sf_found, 
                                  sf_off, sf_nrows, sf_c, sf_k, sf_v, sf_zero, 
                                  sf_ok, sf_seen, sf_u, tg_h, tg_off, tg_order, 
                                  tg_exp, tg_ok, tg_i, tg_n, tg_seen, tg_u, 
                                  tg_r0, la_frame, la_order, la_h, ps_frame, 
                                  ps_order, lp_frame, lp_order, lp_h, lp_old, 
                                  lp_ok, lp_seen, lp_spin, lp_v, tp_t, tp_n, 
                                  tu2_t, tu2_free, tu2_class, gl_order, 
                                  gl_class, gl_local, gl_frame, gl_sync, 
                                  gl_row, gl_res, gl_min, gl_got, sg_i, 
                                  sg_class, sg_order, sg_frame, sg_c, rs_i, 
                                  rs_order, rs_class, rs_local, rs_reserved, 
                                  rs_free, rs_tc, rs_frame, rs_old, sb_n, 
                                  sb_start, sb_offset, sb_len, sb_mode, 
                                  sb_order, sb_class, sb_local, sb_i, sb_idx, 
                                  sb_t, sb_p, sb_best, sb_done, sb_k, sl_class, 
                                  sl_local, sl_order, sl_frame, sl_i, sl_tc, 
                                  sl_j, sl_found, sl_row, sl_jj, dl_class, 
                                  dl_local, dl_order, dl_frame, dl_i, dl_tc, 
                                  dl_j, dl_found, dl_new, dl_old, dl_jj, 
                                  dl_oldclass, ag_order, ag_class, ag_local, 
                                  ag_frame, ag_len, ag_start, ag_near, ag_done, 
                                  ap_frame, ap_order, ap_class, ap_local, ad_c, 
                                  ad_k, ad_old, cg_t, cg_mclass, cg_mfree, 
                                  cg_cclass, cg_cop, cg_prev, cg_done, 
                                  cg_fetched, cg_h, cg_v, cg_next, cg_ok, 
                                  cg_seen, ac_id, ac_mclass, ac_mfree, 
                                  ac_cclass, ac_cop, ac_i, ac_done, pcx, cur, 
                                  blk >>

sg_steal_r(self) == /\ pc[self] = "sg_steal_r"
                    /\ IF rv[self].ok
                          THEN /\ sg_c' = [sg_c EXCEPT ![self] = rv[self].new.class]
                               /\ IF sg_frame[self] = -1
                                     THEN /\ /\ lg_order' = [lg_order EXCEPT ![self] = sg_order[self]]
                                             /\ lg_row' = [lg_row EXCEPT ![self] = sg_i[self] * (TF \div 64)]
                                             /\ stack' = [stack EXCEPT ![self] = << [ procedure |->  "lower_get",
                                                                                      pc        |->  "sg_lower_r",
                                                                                      lg_tree   |->  lg_tree[self],
                                                                                      lg_off    |->  lg_off[self],
                                                                                      lg_j      |->  lg_j[self],
                                                                                      lg_i      |->  lg_i[self],
                                                                                      lg_h      |->  lg_h[self],
                                                                                      lg_found  |->  lg_found[self],
                                                                                      lg_frame  |->  lg_frame[self],
                                                                                      lg_n      |->  lg_n[self],
                                                                                      lg_row    |->  lg_row[self],
                                                                                      lg_order  |->  lg_order[self] ] >>
                                                                                  \o stack[self]]
                                          /\ lg_tree' = [lg_tree EXCEPT ![self] = 0]
                                          /\ lg_off' = [lg_off EXCEPT ![self] = 0]
                                          /\ lg_j' = [lg_j EXCEPT ![self] = 0]
                                          /\ lg_i' = [lg_i EXCEPT ![self] = 0]
                                          /\ lg_h' = [lg_h EXCEPT ![self] = 0]
                                          /\ lg_found' = [lg_found EXCEPT ![self] = FALSE]
                                          /\ lg_frame' = [lg_frame EXCEPT ![self] = 0]
                                          /\ lg_n' = [lg_n EXCEPT ![self] = 0]
                                          /\ pc' = [pc EXCEPT ![self] = "lg_start"]
                                          /\ UNCHANGED << la_frame, la_order, 
                                                          la_h >>
                                     ELSE /\ /\ la_frame' = [la_frame EXCEPT ![self] = sg_frame[self]]
                                             /\ la_order' = [la_order EXCEPT ![self] = sg_order[self]]
                                             /\ stack' = [stack EXCEPT ![self] = << [ procedure |->  "lower_get_at",
                                                                                      pc        |->  "sg_lower_r",
                                                                                      la_h      |->  la_h[self],
                                                                                      la_frame  |->  la_frame[self],
                                                                                      la_order  |->  la_order[self] ] >>
                                                                                  \o stack[self]]
                                          /\ la_h' = [la_h EXCEPT ![self] = 0]
                                          /\ pc' = [pc EXCEPT ![self] = "la_begin"]
                                          /\ UNCHANGED << lg_row, lg_order, 
                                                          lg_tree, lg_off, 
                                                          lg_j, lg_i, lg_h, 
                                                          lg_found, lg_frame, 
                                                          lg_n >>
                               /\ UNCHANGED << rv, sg_i, sg_class, sg_order, 
                                               sg_frame >>
                          ELSE /\ rv' = [rv EXCEPT ![self] = [ok |-> FALSE, frame |-> -1, class |-> -1, err |-> "mem"]]
                               /\ pc' = [pc EXCEPT ![self] = Head(stack[self]).pc]
                               /\ sg_c' = [sg_c EXCEPT ![self] = Head(stack[self]).sg_c]
                               /\ sg_i' = [sg_i EXCEPT ![self] = Head(stack[self]).sg_i]
                               /\ sg_class' = [sg_class EXCEPT ![self] = Head(stack[self]).sg_class]
                               /\ sg_order' = [sg_order EXCEPT ![self] = Head(stack[self]).sg_order]
                               /\ sg_frame' = [sg_frame EXCEPT ![self] = Head(stack[self]).sg_frame]
                               /\ stack' = [stack EXCEPT ![self] = Tail(stack[self])]
                               /\ UNCHANGED << lg_row, lg_order, lg_tree, 
                                               lg_off, lg_j, lg_i, lg_h, 
                                               lg_found, lg_frame, lg_n, 
                                               la_frame, la_order, la_h >>
                    /\ UNCHANGED << mem, held, results, inflight, panicked, 
                                    hid, lastop, dp_why, tu_loc, tu_fn, tu_arg, 
                                    tu_prev, tu_next, tu_done, tu_ok, tu_seen, 
                                    ca_h0, ca_num, ca_cur, ca_new, ca_i, ca_ok, 
                                    ca_seen, ca_j, sf_h, sf_start, sf_order, 
                                    sf_i, sf_r, sf_found, sf_off, sf_nrows, 
                                    sf_c, sf_k, sf_v, sf_zero, sf_ok, sf_seen, 
                                    sf_u, tg_h, tg_off, tg_order, tg_exp, 
                                    tg_ok, tg_i, tg_n, tg_seen, tg_u, tg_r0, 
                                    ps_frame, ps_order, lp_frame, lp_order, 
                                    lp_h, lp_old, lp_ok, lp_seen, lp_spin, 
                                    lp_v, tp_t, tp_n, tu2_t, tu2_free, 
                                    tu2_class, gl_order, gl_class, gl_local, 
                                    gl_frame, gl_sync, gl_row, gl_res, gl_min, 
                                    gl_got, rs_i, rs_order, rs_class, rs_local, 
                                    rs_reserved, rs_free, rs_tc, rs_frame, 
                                    rs_old, sb_n, sb_start, sb_offset, sb_len, 
                                    sb_mode, sb_order, sb_class, sb_local, 
                                    sb_i, sb_idx, sb_t, sb_p, sb_best, sb_done, 
                                    sb_k, sl_class, sl_local, sl_order, 
                                    sl_frame, sl_i, sl_tc, sl_j, sl_found, 
                                    sl_row, sl_jj, dl_class, dl_local, 
                                    dl_order, dl_frame, dl_i, dl_tc, dl_j, 
                                    dl_found, dl_new, dl_old, dl_jj, 
                                    dl_oldclass, ag_order, ag_class, ag_local, 
                                    ag_frame, ag_len, ag_start, ag_near, 
                                    ag_done, ap_frame, ap_order, ap_class, 
                                    ap_local, ad_c, ad_k, ad_old, cg_t, 
                                    cg_mclass, cg_mfree, cg_cclass, cg_cop, 
                                    cg_prev, cg_done, cg_fetched, cg_h, cg_v, 
                                    cg_next, cg_ok, cg_seen, ac_id, ac_mclass, 
                                    ac_mfree, ac_cclass, ac_cop, ac_i, ac_done, 
                                    pcx, cur, blk >>

sg_lower_r(self) == /\ pc[self] = "sg_lower_r"
                    /\ IF rv[self].ok
                          THEN /\ rv' = [rv EXCEPT ![self] = [ok |-> TRUE, frame |-> rv[self].frame, class |-> sg_c[self], err |-> ""]]
                               /\ pc' = [pc EXCEPT ![self] = Head(stack[self]).pc]
                               /\ sg_c' = [sg_c EXCEPT ![self] = Head(stack[self]).sg_c]
                               /\ sg_i' = [sg_i EXCEPT ![self] = Head(stack[self]).sg_i]
                               /\ sg_class' = [sg_class EXCEPT ![self] = Head(stack[self]).sg_class]
                               /\ sg_order' = [sg_order EXCEPT ![self] = Head(stack[self]).sg_order]
                               /\ sg_frame' = [sg_frame EXCEPT ![self] = Head(stack[self]).sg_frame]
                               /\ stack' = [stack EXCEPT ![self] = Tail(stack[self])]
                               /\ UNCHANGED << tp_t, tp_n >>
                          ELSE /\ /\ stack' = [stack EXCEPT ![self] = << [ procedure |->  "trees_put",
                                                                           pc        |->  "sg_undo_r",
                                                                           tp_t      |->  tp_t[self],
                                                                           tp_n      |->  tp_n[self] ] >>
                                                                       \o stack[self]]
                                  /\ tp_n' = [tp_n EXCEPT ![self] = P2(sg_order[self])]
                                  /\ tp_t' = [tp_t EXCEPT ![self] = sg_i[self]]
                               /\ pc' = [pc EXCEPT ![self] = "tp_begin"]
                               /\ UNCHANGED << rv, sg_i, sg_class, sg_order, 
                                               sg_frame, sg_c >>
                    /\ UNCHANGED << mem, held, results, inflight, panicked, 
                                    hid, lastop, dp_why, tu_loc, tu_fn, tu_arg, 
                                    tu_prev, tu_next, tu_done, tu_ok, tu_seen, 
                                    lg_row, lg_order, lg_tree, lg_off, lg_j, 
                                    lg_i, lg_h, lg_found, lg_frame, lg_n, 
                                    ca_h0, ca_num, ca_cur, ca_new, ca_i, ca_ok, 
                                    ca_seen, ca_j, sf_h, sf_start, sf_order, 
                                    sf_i, sf_r, sf_found, sf_off, sf_nrows, 
                                    sf_c, sf_k, sf_v, sf_zero, sf_ok, sf_seen, 
                                    sf_u, tg_h, tg_off, tg_order, tg_exp, 
                                    tg_ok, tg_i, tg_n, tg_seen, tg_u, tg_r0, 
                                    la_frame, la_order, la_h, ps_frame, 
                                    ps_order, lp_frame, lp_order, lp_h, lp_old, 
                                    lp_ok, lp_seen, lp_spin, lp_v, tu2_t, 
                                    tu2_free, tu2_class, gl_order, gl_class, 
                                    gl_local, gl_frame, gl_sync, gl_row, 
                                    gl_res, gl_min, gl_got, rs_i, rs_order, 
                                    rs_class, rs_local, rs_reserved, rs_free, 
                                    rs_tc, rs_frame, rs_old, sb_n, sb_start, 
                                    sb_offset, sb_len, sb_mode, sb_order, 
                                    sb_class, sb_local, sb_i, sb_idx, sb_t, 
                                    sb_p, sb_best, sb_done, sb_k, sl_class, 
                                    sl_local, sl_order, sl_frame, sl_i, sl_tc, 
                                    sl_j, sl_found, sl_row, sl_jj, dl_class, 
                                    dl_local, dl_order, dl_frame, dl_i, dl_tc, 
                                    dl_j, dl_found, dl_new, dl_old, dl_jj, 
                                    dl_oldclass, ag_order, ag_class, ag_local, 
                                    ag_frame, ag_len, ag_start, ag_near, 
                                    ag_done, ap_frame, ap_order, ap_class, 
                                    ap_local, ad_c, ad_k, ad_old, cg_t, 
                                    cg_mclass, cg_mfree, cg_cclass, cg_cop, 
                                    cg_prev, cg_done, cg_fetched, cg_h, cg_v, 
                                    cg_next, cg_ok, cg_seen, ac_id, ac_mclass, 
                                    ac_mfree, ac_cclass, ac_cop, ac_i, ac_done, 
                                    pcx, cur, blk >>

sg_undo_r(self) == /\ pc[self] = "sg_undo_r"
                   /\ rv' = [rv EXCEPT ![self] = [ok |-> FALSE, frame |-> -1, class |-> -1, err |-> "mem"]]
                   /\ pc' = [pc EXCEPT ![self] = Head(stack[self]).pc]
                   /\ sg_c' = [sg_c EXCEPT ![self] = Head(stack[self]).sg_c]
                   /\ sg_i' = [sg_i EXCEPT ![self] = Head(stack[self]).sg_i]
                   /\ sg_class' = [sg_class EXCEPT ![self] = Head(stack[self]).sg_class]
                   /\ sg_order' = [sg_order EXCEPT ![self] = Head(stack[self]).sg_order]
                   /\ sg_frame' = [sg_frame EXCEPT ![self] = Head(stack[self]).sg_frame]
                   /\ stack' = [stack EXCEPT ![self] = Tail(stack[self])]
                   /\ UNCHANGED << mem, held, results, inflight, panicked, hid, 
                                   lastop, dp_why, tu_loc, tu_fn, tu_arg, 
                                   tu_prev, tu_next, tu_done, tu_ok, tu_seen, 
                                   lg_row, lg_order, lg_tree, lg_off, lg_j, 
                                   lg_i, lg_h, lg_found, lg_frame, lg_n, ca_h0, 
                                   ca_num, ca_cur, ca_new, ca_i, ca_ok, 
                                   ca_seen, ca_j, sf_h, sf_start, sf_order, 
                                   sf_i, sf_r, sf_found, sf_off, sf_nrows, 
                                   sf_c, sf_k, sf_v, sf_zero, sf_ok, sf_seen, 
                                   sf_u, tg_h, tg_off, tg_order, tg_exp, tg_ok, 
                                   tg_i, tg_n, tg_seen, tg_u, tg_r0, la_frame, 
                                   la_order, la_h, ps_frame, ps_order, 
                                   lp_frame, lp_order, lp_h, lp_old, lp_ok, 
                                   lp_seen, lp_spin, lp_v, tp_t, tp_n, tu2_t, 
                                   tu2_free, tu2_class, gl_order, gl_class, 
                                   gl_local, gl_frame, gl_sync, gl_row, gl_res, 
                                   gl_min, gl_got, rs_i, rs_order, rs_class, 
                                   rs_local, rs_reserved, rs_free, rs_tc, 
                                   rs_frame, rs_old, sb_n, sb_start, sb_offset, 
                                   sb_len, sb_mode, sb_order, sb_class, 
                                   sb_local, sb_i, sb_idx, sb_t, sb_p, sb_best, 
                                   sb_done, sb_k, sl_class, sl_local, sl_order, 
                                   sl_frame, sl_i, sl_tc, sl_j, sl_found, 
                                   sl_row, sl_jj, dl_class, dl_local, dl_order, 
                                   dl_frame, dl_i, dl_tc, dl_j, dl_found, 
                                   dl_new, dl_old, dl_jj, dl_oldclass, 
                                   ag_order, ag_class, ag_local, ag_frame, 
                                   ag_len, ag_start, ag_near, ag_done, 
                                   ap_frame, ap_order, ap_class, ap_local, 
                                   ad_c, ad_k, ad_old, cg_t, cg_mclass, 
                                   cg_mfree, cg_cclass, cg_cop, cg_prev, 
                                   cg_done, cg_fetched, cg_h, cg_v, cg_next, 
                                   cg_ok, cg_seen, ac_id, ac_mclass, ac_mfree, 
                                   ac_cclass, ac_cop, ac_i, ac_done, pcx, cur, 
                                   blk >>

steal_global(self) == sg_begin(self) \/ sg_steal_r(self)
                         \/ sg_lower_r(self) \/ sg_undo_r(self)

rs_begin(self) == /\ pc[self] = "rs_begin"
                  /\ /\ stack' = [stack EXCEPT ![self] = << [ procedure |->  "try_update",
                                                              pc        |->  "rs_ros_r",
                                                              tu_prev   |->  tu_prev[self],
                                                              tu_next   |->  tu_next[self],
                                                              tu_done   |->  tu_done[self],
                                                              tu_ok     |->  tu_ok[self],
                                                              tu_seen   |->  tu_seen[self],
                                                              tu_loc    |->  tu_loc[self],
                                                              tu_fn     |->  tu_fn[self],
                                                              tu_arg    |->  tu_arg[self] ] >>
                                                          \o stack[self]]
                     /\ tu_arg' = [tu_arg EXCEPT ![self] = [class |-> rs_class[self], n |-> P2(rs_order[self])]]
                     /\ tu_fn' = [tu_fn EXCEPT ![self] = "ros"]
                     /\ tu_loc' = [tu_loc EXCEPT ![self] = Tree(rs_i[self])]
                  /\ tu_prev' = [tu_prev EXCEPT ![self] = 0]
                  /\ tu_next' = [tu_next EXCEPT ![self] = <<>>]
                  /\ tu_done' = [tu_done EXCEPT ![self] = FALSE]
                  /\ tu_ok' = [tu_ok EXCEPT ![self] = FALSE]
                  /\ tu_seen' = [tu_seen EXCEPT ![self] = 0]
                  /\ pc' = [pc EXCEPT ![self] = "tu_load"]
                  /\ UNCHANGED << mem, held, results, inflight, rv, panicked, 
                                  hid, lastop, dp_why, lg_row, lg_order, 
                                  lg_tree, lg_off, lg_j, lg_i, lg_h, lg_found, 
                                  lg_frame, lg_n, ca_h0, ca_num, ca_cur, 
                                  ca_new, ca_i, ca_ok, ca_seen, ca_j, sf_h, 
                                  sf_start, sf_order, sf_i, sf_r, sf_found, 
                                  sf_off, sf_nrows, sf_c, sf_k, sf_v, sf_zero, 
                                  sf_ok, sf_seen, sf_u, tg_h, tg_off, tg_order, 
                                  tg_exp, tg_ok, tg_i, tg_n, tg_seen, tg_u, 
                                  tg_r0, la_frame, la_order, la_h, ps_frame, 
                                  ps_order, lp_frame, lp_order, lp_h, lp_old, 
                                  lp_ok, lp_seen, lp_spin, lp_v, tp_t, tp_n, 
                                  tu2_t, tu2_free, tu2_class, gl_order, 
                                  gl_class, gl_local, gl_frame, gl_sync, 
                                  gl_row, gl_res, gl_min, gl_got, sg_i, 
                                  sg_class, sg_order, sg_frame, sg_c, rs_i, 
                                  rs_order, rs_class, rs_local, rs_reserved, 
                                  rs_free, rs_tc, rs_frame, rs_old, sb_n, 
                                  sb_start, sb_offset, sb_len, sb_mode, 
                                  sb_order, sb_class, sb_local, sb_i, sb_idx, 
                                  sb_t, sb_p, sb_best, sb_done, sb_k, sl_class, 
                                  sl_local, sl_order, sl_frame, sl_i, sl_tc, 
                                  sl_j, sl_found, sl_row, sl_jj, dl_class, 
                                  dl_local, dl_order, dl_frame, dl_i, dl_tc, 
                                  dl_j, dl_found, dl_new, dl_old, dl_jj, 
                                  dl_oldclass, ag_order, ag_class, ag_local, 
                                  ag_frame, ag_len, ag_start, ag_near, ag_done, 
                                  ap_frame, ap_order, ap_class, ap_local, ad_c, 
                                  ad_k, ad_old, cg_t, cg_mclass, cg_mfree, 
                                  cg_cclass, cg_cop, cg_prev, cg_done, 
                                  cg_fetched, cg_h, cg_v, cg_next, cg_ok, 
                                  cg_seen, ac_id, ac_mclass, ac_mfree, 
                                  ac_cclass, ac_cop, ac_i, ac_done, pcx, cur, 
                                  blk >>

rs_ros_r(self) == /\ pc[self] = "rs_ros_r"
                  /\ IF rv[self].ok
                        THEN /\ rs_reserved' = [rs_reserved EXCEPT ![self] = rv[self].new.res]
                             /\ rs_free' = [rs_free EXCEPT ![self] = rv[self].old.free]
                             /\ rs_tc' = [rs_tc EXCEPT ![self] = rv[self].new.class]
                             /\ /\ lg_order' = [lg_order EXCEPT ![self] = rs_order[self]]
                                /\ lg_row' = [lg_row EXCEPT ![self] = rs_i[self] * (TF \div 64)]
                                /\ stack' = [stack EXCEPT ![self] = << [ procedure |->  "lower_get",
                                                                         pc        |->  "rs_lower_r",
                                                                         lg_tree   |->  lg_tree[self],
                                                                         lg_off    |->  lg_off[self],
                                                                         lg_j      |->  lg_j[self],
                                                                         lg_i      |->  lg_i[self],
                                                                         lg_h      |->  lg_h[self],
                                                                         lg_found  |->  lg_found[self],
                                                                         lg_frame  |->  lg_frame[self],
                                                                         lg_n      |->  lg_n[self],
                                                                         lg_row    |->  lg_row[self],
                                                                         lg_order  |->  lg_order[self] ] >>
                                                                     \o stack[self]]
                             /\ lg_tree' = [lg_tree EXCEPT ![self] = 0]
                             /\ lg_off' = [lg_off EXCEPT ![self] = 0]
                             /\ lg_j' = [lg_j EXCEPT ![self] = 0]
                             /\ lg_i' = [lg_i EXCEPT ![self] = 0]
                             /\ lg_h' = [lg_h EXCEPT ![self] = 0]
                             /\ lg_found' = [lg_found EXCEPT ![self] = FALSE]
                             /\ lg_frame' = [lg_frame EXCEPT ![self] = 0]
                             /\ lg_n' = [lg_n EXCEPT ![self] = 0]
                             /\ pc' = [pc EXCEPT ![self] = "lg_start"]
                             /\ UNCHANGED << rv, rs_i, rs_order, rs_class, 
                                             rs_local, rs_frame, rs_old >>
                        ELSE /\ rv' = [rv EXCEPT ![self] = [ok |-> FALSE, frame |-> -1, class |-> -1, err |-> "mem"]]
                             /\ pc' = [pc EXCEPT ![self] = Head(stack[self]).pc]
                             /\ rs_reserved' = [rs_reserved EXCEPT ![self] = Head(stack[self]).rs_reserved]
                             /\ rs_free' = [rs_free EXCEPT ![self] = Head(stack[self]).rs_free]
                             /\ rs_tc' = [rs_tc EXCEPT ![self] = Head(stack[self]).rs_tc]
                             /\ rs_frame' = [rs_frame EXCEPT ![self] = Head(stack[self]).rs_frame]
                             /\ rs_old' = [rs_old EXCEPT ![self] = Head(stack[self]).rs_old]
                             /\ rs_i' = [rs_i EXCEPT ![self] = Head(stack[self]).rs_i]
                             /\ rs_order' = [rs_order EXCEPT ![self] = Head(stack[self]).rs_order]
                             /\ rs_class' = [rs_class EXCEPT ![self] = Head(stack[self]).rs_class]
                             /\ rs_local' = [rs_local EXCEPT ![self] = Head(stack[self]).rs_local]
                             /\ stack' = [stack EXCEPT ![self] = Tail(stack[self])]
                             /\ UNCHANGED << lg_row, lg_order, lg_tree, lg_off, 
                                             lg_j, lg_i, lg_h, lg_found, 
                                             lg_frame, lg_n >>
                  /\ UNCHANGED << mem, held, results, inflight, panicked, hid, 
                                  lastop, dp_why, tu_loc, tu_fn, tu_arg, 
                                  tu_prev, tu_next, tu_done, tu_ok, tu_seen, 
                                  ca_h0, ca_num, ca_cur, ca_new, ca_i, ca_ok, 
                                  ca_seen, ca_j, sf_h, sf_start, sf_order, 
                                  sf_i, sf_r, sf_found, sf_off, sf_nrows, sf_c, 
                                  sf_k, sf_v, sf_zero, sf_ok, sf_seen, sf_u, 
                                  tg_h, tg_off, tg_order, tg_exp, tg_ok, tg_i, 
                                  tg_n, tg_seen, tg_u, tg_r0, la_frame, 
                                  la_order, la_h, ps_frame, ps_order, lp_frame, 
                                  lp_order, lp_h, lp_old, lp_ok, lp_seen, 
                                  lp_spin, lp_v, tp_t, tp_n, tu2_t, tu2_free, 
                                  tu2_class, gl_order, gl_class, gl_local, 
                                  gl_frame, gl_sync, gl_row, gl_res, gl_min, 
                                  gl_got, sg_i, sg_class, sg_order, sg_frame, 
                                  sg_c, sb_n, sb_start, sb_offset, sb_len, 
                                  sb_mode, sb_order, sb_class, sb_local, sb_i, 
                                  sb_idx, sb_t, sb_p, sb_best, sb_done, sb_k, 
                                  sl_class, sl_local, sl_order, sl_frame, sl_i, 
                                  sl_tc, sl_j, sl_found, sl_row, sl_jj, 
                                  dl_class, dl_local, dl_order, dl_frame, dl_i, 
                                  dl_tc, dl_j, dl_found, dl_new, dl_old, dl_jj, 
                                  dl_oldclass, ag_order, ag_class, ag_local, 
                                  ag_frame, ag_len, ag_start, ag_near, ag_done, 
                                  ap_frame, ap_order, ap_class, ap_local, ad_c, 
                                  ad_k, ad_old, cg_t, cg_mclass, cg_mfree, 
                                  cg_cclass, cg_cop, cg_prev, cg_done, 
                                  cg_fetched, cg_h, cg_v, cg_next, cg_ok, 
                                  cg_seen, ac_id, ac_mclass, ac_mfree, 
                                  ac_cclass, ac_cop, ac_i, ac_done, pcx, cur, 
                                  blk >>

rs_lower_r(self) == /\ pc[self] = "rs_lower_r"
                    /\ IF rv[self].ok
                          THEN /\ rs_frame' = [rs_frame EXCEPT ![self] = rv[self].frame]
                               /\ IF rs_reserved[self]
                                     THEN /\ IF NSlots(rs_tc[self]) = 0
                                                THEN /\ /\ dp_why' = [dp_why EXCEPT ![self] = "assertion"]
                                                        /\ stack' = [stack EXCEPT ![self] = << [ procedure |->  "do_panic",
                                                                                                 pc        |->  "rs_ok",
                                                                                                 dp_why    |->  dp_why[self] ] >>
                                                                                             \o stack[self]]
                                                     /\ pc' = [pc EXCEPT ![self] = "dp_flag"]
                                                ELSE /\ pc' = [pc EXCEPT ![self] = "rs_swap"]
                                                     /\ UNCHANGED << stack, 
                                                                     dp_why >>
                                     ELSE /\ pc' = [pc EXCEPT ![self] = "rs_ok"]
                                          /\ UNCHANGED << stack, dp_why >>
                               /\ UNCHANGED << tp_t, tp_n, tu2_t, tu2_free, 
                                               tu2_class >>
                          ELSE /\ IF rs_reserved[self]
                                     THEN /\ /\ stack' = [stack EXCEPT ![self] = << [ procedure |->  "trees_unreserve",
                                                                                      pc        |->  "rs_fail",
                                                                                      tu2_t     |->  tu2_t[self],
                                                                                      tu2_free  |->  tu2_free[self],
                                                                                      tu2_class |->  tu2_class[self] ] >>
                                                                                  \o stack[self]]
                                             /\ tu2_class' = [tu2_class EXCEPT ![self] = rs_tc[self]]
                                             /\ tu2_free' = [tu2_free EXCEPT ![self] = rs_free[self]]
                                             /\ tu2_t' = [tu2_t EXCEPT ![self] = rs_i[self]]
                                          /\ pc' = [pc EXCEPT ![self] = "un_begin"]
                                          /\ UNCHANGED << tp_t, tp_n >>
                                     ELSE /\ /\ stack' = [stack EXCEPT ![self] = << [ procedure |->  "trees_put",
                                                                                      pc        |->  "rs_fail",
                                                                                      tp_t      |->  tp_t[self],
                                                                                      tp_n      |->  tp_n[self] ] >>
                                                                                  \o stack[self]]
                                             /\ tp_n' = [tp_n EXCEPT ![self] = P2(rs_order[self])]
                                             /\ tp_t' = [tp_t EXCEPT ![self] = rs_i[self]]
                                          /\ pc' = [pc EXCEPT ![self] = "tp_begin"]
                                          /\ UNCHANGED << tu2_t, tu2_free, 
                                                          tu2_class >>
                               /\ UNCHANGED << dp_why, rs_frame >>
                    /\ UNCHANGED << mem, held, results, inflight, rv, panicked, 
                                    hid, lastop, tu_loc, tu_fn, tu_arg, 
                                    tu_prev, tu_next, tu_done, tu_ok, tu_seen, 
                                    lg_row, lg_order, lg_tree, lg_off, lg_j, 
                                    lg_i, lg_h, lg_found, lg_frame, lg_n, 
                                    ca_h0, ca_num, ca_cur, ca_new, ca_i, ca_ok, 
                                    ca_seen, ca_j, sf_h, sf_start, sf_order, 
                                    sf_i, sf_r, sf_found, sf_off, sf_nrows, 
                                    sf_c, sf_k, sf_v, sf_zero, sf_ok, sf_seen, 
                                    sf_u, tg_h, tg_off, tg_order, tg_exp, 
                                    tg_ok, tg_i, tg_n, tg_seen, tg_u, tg_r0, 
                                    la_frame, la_order, la_h, ps_frame, 
                                    ps_order, lp_frame, lp_order, lp_h, lp_old, 
                                    lp_ok, lp_seen, lp_spin, lp_v, gl_order, 
                                    gl_class, gl_local, gl_frame, gl_sync, 
                                    gl_row, gl_res, gl_min, gl_got, sg_i, 
                                    sg_class, sg_order, sg_frame, sg_c, rs_i, 
                                    rs_order, rs_class, rs_local, rs_reserved, 
                                    rs_free, rs_tc, rs_old, sb_n, sb_start, 
                                    sb_offset, sb_len, sb_mode, sb_order, 
                                    sb_class, sb_local, sb_i, sb_idx, sb_t, 
                                    sb_p, sb_best, sb_done, sb_k, sl_class, 
                                    sl_local, sl_order, sl_frame, sl_i, sl_tc, 
                                    sl_j, sl_found, sl_row, sl_jj, dl_class, 
                                    dl_local, dl_order, dl_frame, dl_i, dl_tc, 
                                    dl_j, dl_found, dl_new, dl_old, dl_jj, 
                                    dl_oldclass, ag_order, ag_class, ag_local, 
                                    ag_frame, ag_len, ag_start, ag_near, 
                                    ag_done, ap_frame, ap_order, ap_class, 
                                    ap_local, ad_c, ad_k, ad_old, cg_t, 
                                    cg_mclass, cg_mfree, cg_cclass, cg_cop, 
                                    cg_prev, cg_done, cg_fetched, cg_h, cg_v, 
                                    cg_next, cg_ok, cg_seen, ac_id, ac_mclass, 
                                    ac_mfree, ac_cclass, ac_cop, ac_i, ac_done, 
                                    pcx, cur, blk >>

rs_ok(self) == /\ pc[self] = "rs_ok"
               /\ rv' = [rv EXCEPT ![self] = [ok |-> TRUE, frame |-> rs_frame[self], class |-> rs_tc[self], err |-> ""]]
               /\ pc' = [pc EXCEPT ![self] = Head(stack[self]).pc]
               /\ rs_reserved' = [rs_reserved EXCEPT ![self] = Head(stack[self]).rs_reserved]
               /\ rs_free' = [rs_free EXCEPT ![self] = Head(stack[self]).rs_free]
               /\ rs_tc' = [rs_tc EXCEPT ![self] = Head(stack[self]).rs_tc]
               /\ rs_frame' = [rs_frame EXCEPT ![self] = Head(stack[self]).rs_frame]
               /\ rs_old' = [rs_old EXCEPT ![self] = Head(stack[self]).rs_old]
               /\ rs_i' = [rs_i EXCEPT ![self] = Head(stack[self]).rs_i]
               /\ rs_order' = [rs_order EXCEPT ![self] = Head(stack[self]).rs_order]
               /\ rs_class' = [rs_class EXCEPT ![self] = Head(stack[self]).rs_class]
               /\ rs_local' = [rs_local EXCEPT ![self] = Head(stack[self]).rs_local]
               /\ stack' = [stack EXCEPT ![self] = Tail(stack[self])]
               /\ UNCHANGED << mem, held, results, inflight, panicked, hid, 
                               lastop, dp_why, tu_loc, tu_fn, tu_arg, tu_prev, 
                               tu_next, tu_done, tu_ok, tu_seen, lg_row, 
                               lg_order, lg_tree, lg_off, lg_j, lg_i, lg_h, 
                               lg_found, lg_frame, lg_n, ca_h0, ca_num, ca_cur, 
                               ca_new, ca_i, ca_ok, ca_seen, ca_j, sf_h, 
                               sf_start, sf_order, sf_i, sf_r, sf_found, 
                               sf_off, sf_nrows, sf_c, sf_k, sf_v, sf_zero, 
                               sf_ok, sf_seen, sf_u, tg_h, tg_off, tg_order, 
                               tg_exp, tg_ok, tg_i, tg_n, tg_seen, tg_u, tg_r0, 
                               la_frame, la_order, la_h, ps_frame, ps_order, 
                               lp_frame, lp_order, lp_h, lp_old, lp_ok, 
                               lp_seen, lp_spin, lp_v, tp_t, tp_n, tu2_t, 
                               tu2_free, tu2_class, gl_order, gl_class, 
                               gl_local, gl_frame, gl_sync, gl_row, gl_res, 
                               gl_min, gl_got, sg_i, sg_class, sg_order, 
                               sg_frame, sg_c, sb_n, sb_start, sb_offset, 
                               sb_len, sb_mode, sb_order, sb_class, sb_local, 
                               sb_i, sb_idx, sb_t, sb_p, sb_best, sb_done, 
                               sb_k, sl_class, sl_local, sl_order, sl_frame, 
                               sl_i, sl_tc, sl_j, sl_found, sl_row, sl_jj, 
                               dl_class, dl_local, dl_order, dl_frame, dl_i, 
                               dl_tc, dl_j, dl_found, dl_new, dl_old, dl_jj, 
                               dl_oldclass, ag_order, ag_class, ag_local, 
                               ag_frame, ag_len, ag_start, ag_near, ag_done, 
                               ap_frame, ap_order, ap_class, ap_local, ad_c, 
                               ad_k, ad_old, cg_t, cg_mclass, cg_mfree, 
                               cg_cclass, cg_cop, cg_prev, cg_done, cg_fetched, 
                               cg_h, cg_v, cg_next, cg_ok, cg_seen, ac_id, 
                               ac_mclass, ac_mfree, ac_cclass, ac_cop, ac_i, 
                               ac_done, pcx, cur, blk >>

rs_fail(self) == /\ pc[self] = "rs_fail"
                 /\ rv' = [rv EXCEPT ![self] = [ok |-> FALSE, frame |-> -1, class |-> -1, err |-> "mem"]]
                 /\ pc' = [pc EXCEPT ![self] = Head(stack[self]).pc]
                 /\ rs_reserved' = [rs_reserved EXCEPT ![self] = Head(stack[self]).rs_reserved]
                 /\ rs_free' = [rs_free EXCEPT ![self] = Head(stack[self]).rs_free]
                 /\ rs_tc' = [rs_tc EXCEPT ![self] = Head(stack[self]).rs_tc]
                 /\ rs_frame' = [rs_frame EXCEPT ![self] = Head(stack[self]).rs_frame]
                 /\ rs_old' = [rs_old EXCEPT ![self] = Head(stack[self]).rs_old]
                 /\ rs_i' = [rs_i EXCEPT ![self] = Head(stack[self]).rs_i]
                 /\ rs_order' = [rs_order EXCEPT ![self] = Head(stack[self]).rs_order]
                 /\ rs_class' = [rs_class EXCEPT ![self] = Head(stack[self]).rs_class]
                 /\ rs_local' = [rs_local EXCEPT ![self] = Head(stack[self]).rs_local]
                 /\ stack' = [stack EXCEPT ![self] = Tail(stack[self])]
                 /\ UNCHANGED << mem, held, results, inflight, panicked, hid, 
                                 lastop, dp_why, tu_loc, tu_fn, tu_arg, 
                                 tu_prev, tu_next, tu_done, tu_ok, tu_seen, 
                                 lg_row, lg_order, lg_tree, lg_off, lg_j, lg_i, 
                                 lg_h, lg_found, lg_frame, lg_n, ca_h0, ca_num, 
                                 ca_cur, ca_new, ca_i, ca_ok, ca_seen, ca_j, 
                                 sf_h, sf_start, sf_order, sf_i, sf_r, 
                                 sf_found, sf_off, sf_nrows, sf_c, sf_k, sf_v, 
                                 sf_zero, sf_ok, sf_seen, sf_u, tg_h, tg_off, 
                                 tg_order, tg_exp, tg_ok, tg_i, tg_n, tg_seen, 
                                 tg_u, tg_r0, la_frame, la_order, la_h, 
                                 ps_frame, ps_order, lp_frame, lp_order, lp_h, 
                                 lp_old, lp_ok, lp_seen, lp_spin, lp_v, tp_t, 
                                 tp_n, tu2_t, tu2_free, tu2_class, gl_order, 
                                 gl_class, gl_local, gl_frame, gl_sync, gl_row, 
                                 gl_res, gl_min, gl_got, sg_i, sg_class, 
                                 sg_order, sg_frame, sg_c, sb_n, sb_start, 
                                 sb_offset, sb_len, sb_mode, sb_order, 
                                 sb_class, sb_local, sb_i, sb_idx, sb_t, sb_p, 
                                 sb_best, sb_done, sb_k, sl_class, sl_local, 
                                 sl_order, sl_frame, sl_i, sl_tc, sl_j, 
                                 sl_found, sl_row, sl_jj, dl_class, dl_local, 
                                 dl_order, dl_frame, dl_i, dl_tc, dl_j, 
                                 dl_found, dl_new, dl_old, dl_jj, dl_oldclass, 
                                 ag_order, ag_class, ag_local, ag_frame, 
                                 ag_len, ag_start, ag_near, ag_done, ap_frame, 
                                 ap_order, ap_class, ap_local, ad_c, ad_k, 
                                 ad_old, cg_t, cg_mclass, cg_mfree, cg_cclass, 
                                 cg_cop, cg_prev, cg_done, cg_fetched, cg_h, 
                                 cg_v, cg_next, cg_ok, cg_seen, ac_id, 
                                 ac_mclass, ac_mfree, ac_cclass, ac_cop, ac_i, 
                                 ac_done, pcx, cur, blk >>

rs_swap(self) == /\ pc[self] = "rs_swap"
                 /\ rs_old' = [rs_old EXCEPT ![self] = mem[Slot(rs_tc[self], rs_local[self] % NSlots(rs_tc[self]))]]
                 /\ lastop' = [seq |-> lastop.seq + 1, t |-> self, k |-> "swap", loc |-> Slot(rs_tc[self], rs_local[self] % NSlots(rs_tc[self])),
                               old |-> mem[Slot(rs_tc[self], rs_local[self] % NSlots(rs_tc[self]))],
                               new |-> SlotW(TreeOfFrame(rs_frame[self]) * (TF \div 64), rs_free[self] - P2(rs_order[self])), ok |-> TRUE]
                 /\ mem' = [mem EXCEPT ![Slot(rs_tc[self], rs_local[self] % NSlots(rs_tc[self]))] = SlotW(TreeOfFrame(rs_frame[self]) * (TF \div 64), rs_free[self] - P2(rs_order[self]))]
                 /\ IF rs_old'[self].present
                       THEN /\ /\ stack' = [stack EXCEPT ![self] = << [ procedure |->  "trees_unreserve",
                                                                        pc        |->  "rs_ok",
                                                                        tu2_t     |->  tu2_t[self],
                                                                        tu2_free  |->  tu2_free[self],
                                                                        tu2_class |->  tu2_class[self] ] >>
                                                                    \o stack[self]]
                               /\ tu2_class' = [tu2_class EXCEPT ![self] = rs_tc[self]]
                               /\ tu2_free' = [tu2_free EXCEPT ![self] = rs_old'[self].free]
                               /\ tu2_t' = [tu2_t EXCEPT ![self] = TreeOfRow(rs_old'[self].row)]
                            /\ pc' = [pc EXCEPT ![self] = "un_begin"]
                       ELSE /\ pc' = [pc EXCEPT ![self] = "rs_ok"]
                            /\ UNCHANGED << stack, tu2_t, tu2_free, tu2_class >>
                 /\ UNCHANGED << held, results, inflight, rv, panicked, hid, 
                                 dp_why, tu_loc, tu_fn, tu_arg, tu_prev, 
                                 tu_next, tu_done, tu_ok, tu_seen, lg_row, 
                                 lg_order, lg_tree, lg_off, lg_j, lg_i, lg_h, 
                                 lg_found, lg_frame, lg_n, ca_h0, ca_num, 
                                 ca_cur, ca_new, ca_i, ca_ok, ca_seen, ca_j, 
                                 sf_h, sf_start, sf_order, sf_i, sf_r, 
                                 sf_found, sf_off, sf_nrows, sf_c, sf_k, sf_v, 
                                 sf_zero, sf_ok, sf_seen, sf_u, tg_h, tg_off, 
                                 tg_order, tg_exp, tg_ok, tg_i, tg_n, tg_seen, 
                                 tg_u, tg_r0, la_frame, la_order, la_h, 
                                 ps_frame, ps_order, lp_frame, lp_order, lp_h, 
                                 lp_old, lp_ok, lp_seen, lp_spin, lp_v, tp_t, 
                                 tp_n, gl_order, gl_class, gl_local, gl_frame, 
                                 gl_sync, gl_row, gl_res, gl_min, gl_got, sg_i, 
                                 sg_class, sg_order, sg_frame, sg_c, rs_i, 
                                 rs_order, rs_class, rs_local, rs_reserved, 
                                 rs_free, rs_tc, rs_frame, sb_n, sb_start, 
                                 sb_offset, sb_len, sb_mode, sb_order, 
                                 sb_class, sb_local, sb_i, sb_idx, sb_t, sb_p, 
                                 sb_best, sb_done, sb_k, sl_class, sl_local, 
                                 sl_order, sl_frame, sl_i, sl_tc, sl_j, 
                                 sl_found, sl_row, sl_jj, dl_class, dl_local, 
                                 dl_order, dl_frame, dl_i, dl_tc, dl_j, 
                                 dl_found, dl_new, dl_old, dl_jj, dl_oldclass, 
                                 ag_order, ag_class, ag_local, ag_frame, 
                                 ag_len, ag_start, ag_near, ag_done, ap_frame, 
                                 ap_order, ap_class, ap_local, ad_c, ad_k, 
                                 ad_old, cg_t, cg_mclass, cg_mfree, cg_cclass, 
                                 cg_cop, cg_prev, cg_done, cg_fetched, cg_h, 
                                 cg_v, cg_next, cg_ok, cg_seen, ac_id, 
                                 ac_mclass, ac_mfree, ac_cclass, ac_cop, ac_i, 
                                 ac_done, pcx, cur, blk >>

reserve_or_steal(self) == rs_begin(self) \/ rs_ros_r(self)
                             \/ rs_lower_r(self) \/ rs_ok(self)
                             \/ rs_fail(self) \/ rs_swap(self)

sb_begin(self) == /\ pc[self] = "sb_begin"
                  /\ sb_i' = [sb_i EXCEPT ![self] = sb_offset[self]]
                  /\ sb_best' = [sb_best EXCEPT ![self] = <<>>]
                  /\ sb_done' = [sb_done EXCEPT ![self] = FALSE]
                  /\ pc' = [pc EXCEPT ![self] = "sb_scan"]
                  /\ UNCHANGED << mem, held, results, inflight, rv, panicked, 
                                  hid, lastop, stack, dp_why, tu_loc, tu_fn, 
                                  tu_arg, tu_prev, tu_next, tu_done, tu_ok, 
                                  tu_seen, lg_row, lg_order, lg_tree, lg_off, 
                                  lg_j, lg_i, lg_h, lg_found, lg_frame, lg_n, 
                                  ca_h0, ca_num, ca_cur, ca_new, ca_i, ca_ok, 
                                  ca_seen, ca_j, sf_h, sf_start, sf_order, 
                                  sf_i, sf_r, sf_found, sf_off, sf_nrows, sf_c, 
                                  sf_k, sf_v, sf_zero, sf_ok, sf_seen, sf_u, 
                                  tg_h, tg_off, tg_order, tg_exp, tg_ok, tg_i, 
                                  tg_n, tg_seen, tg_u, tg_r0, la_frame, 
                                  la_order, la_h, ps_frame, ps_order, lp_frame, 
                                  lp_order, lp_h, lp_old, lp_ok, lp_seen, 
                                  lp_spin, lp_v, tp_t, tp_n, tu2_t, tu2_free, 
                                  tu2_class, gl_order, gl_class, gl_local, 
                                  gl_frame, gl_sync, gl_row, gl_res, gl_min, 
                                  gl_got, sg_i, sg_class, sg_order, sg_frame, 
                                  sg_c, rs_i, rs_order, rs_class, rs_local, 
                                  rs_reserved, rs_free, rs_tc, rs_frame, 
                                  rs_old, sb_n, sb_start, sb_offset, sb_len, 
                                  sb_mode, sb_order, sb_class, sb_local, 
                                  sb_idx, sb_t, sb_p, sb_k, sl_class, sl_local, 
                                  sl_order, sl_frame, sl_i, sl_tc, sl_j, 
                                  sl_found, sl_row, sl_jj, dl_class, dl_local, 
                                  dl_order, dl_frame, dl_i, dl_tc, dl_j, 
                                  dl_found, dl_new, dl_old, dl_jj, dl_oldclass, 
                                  ag_order, ag_class, ag_local, ag_frame, 
                                  ag_len, ag_start, ag_near, ag_done, ap_frame, 
                                  ap_order, ap_class, ap_local, ad_c, ad_k, 
                                  ad_old, cg_t, cg_mclass, cg_mfree, cg_cclass, 
                                  cg_cop, cg_prev, cg_done, cg_fetched, cg_h, 
                                  cg_v, cg_next, cg_ok, cg_seen, ac_id, 
                                  ac_mclass, ac_mfree, ac_cclass, ac_cop, ac_i, 
                                  ac_done, pcx, cur, blk >>

sb_scan(self) == /\ pc[self] = "sb_scan"
                 /\ IF sb_i[self] < sb_len[self] /\ ~sb_done[self]
                       THEN /\ sb_idx' = [sb_idx EXCEPT ![self] = SearchIdx(sb_start[self], sb_i[self])]
                            /\ sb_t' = [sb_t EXCEPT ![self] = mem[(Tree(sb_idx'[self]))]]
                            /\ lastop' = [seq |-> lastop.seq + 1, t |-> self, k |-> "load", loc |-> (Tree(sb_idx'[self])), old |-> mem[(Tree(sb_idx'[self]))], new |-> mem[(Tree(sb_idx'[self]))], ok |-> TRUE]
                            /\ sb_i' = [sb_i EXCEPT ![self] = sb_i[self] + 1]
                            /\ IF ~sb_t'[self].res
                                  THEN /\ sb_p' = [sb_p EXCEPT ![self] = IF sb_t'[self].free < P2(sb_order[self]) THEN Invalid ELSE Policy(sb_class[self], sb_t'[self].class, sb_t'[self].free)]
                                       /\ IF sb_mode[self] = "near"
                                             THEN /\ pc' = [pc EXCEPT ![self] = "Lbl_5"]
                                             ELSE /\ IF sb_mode[self] = "glob"
                                                        THEN /\ pc' = [pc EXCEPT ![self] = "Lbl_6"]
                                                        ELSE /\ pc' = [pc EXCEPT ![self] = "Lbl_7"]
                                  ELSE /\ pc' = [pc EXCEPT ![self] = "sb_scan"]
                                       /\ sb_p' = sb_p
                            /\ sb_k' = sb_k
                       ELSE /\ sb_k' = [sb_k EXCEPT ![self] = Len(sb_best[self])]
                            /\ pc' = [pc EXCEPT ![self] = "sb_try"]
                            /\ UNCHANGED << lastop, sb_i, sb_idx, sb_t, sb_p >>
                 /\ UNCHANGED << mem, held, results, inflight, rv, panicked, 
                                 hid, stack, dp_why, tu_loc, tu_fn, tu_arg, 
                                 tu_prev, tu_next, tu_done, tu_ok, tu_seen, 
                                 lg_row, lg_order, lg_tree, lg_off, lg_j, lg_i, 
                                 lg_h, lg_found, lg_frame, lg_n, ca_h0, ca_num, 
                                 ca_cur, ca_new, ca_i, ca_ok, ca_seen, ca_j, 
                                 sf_h, sf_start, sf_order, sf_i, sf_r, 
                                 sf_found, sf_off, sf_nrows, sf_c, sf_k, sf_v, 
                                 sf_zero, sf_ok, sf_seen, sf_u, tg_h, tg_off, 
                                 tg_order, tg_exp, tg_ok, tg_i, tg_n, tg_seen, 
                                 tg_u, tg_r0, la_frame, la_order, la_h, 
                                 ps_frame, ps_order, lp_frame, lp_order, lp_h, 
                                 lp_old, lp_ok, lp_seen, lp_spin, lp_v, tp_t, 
                                 tp_n, tu2_t, tu2_free, tu2_class, gl_order, 
                                 gl_class, gl_local, gl_frame, gl_sync, gl_row, 
                                 gl_res, gl_min, gl_got, sg_i, sg_class, 
                                 sg_order, sg_frame, sg_c, rs_i, rs_order, 
                                 rs_class, rs_local, rs_reserved, rs_free, 
                                 rs_tc, rs_frame, rs_old, sb_n, sb_start, 
                                 sb_offset, sb_len, sb_mode, sb_order, 
                                 sb_class, sb_local, sb_best, sb_done, 
                                 sl_class, sl_local, sl_order, sl_frame, sl_i, 
                                 sl_tc, sl_j, sl_found, sl_row, sl_jj, 
                                 dl_class, dl_local, dl_order, dl_frame, dl_i, 
                                 dl_tc, dl_j, dl_found, dl_new, dl_old, dl_jj, 
                                 dl_oldclass, ag_order, ag_class, ag_local, 
                                 ag_frame, ag_len, ag_start, ag_near, ag_done, 
                                 ap_frame, ap_order, ap_class, ap_local, ad_c, 
                                 ad_k, ad_old, cg_t, cg_mclass, cg_mfree, 
                                 cg_cclass, cg_cop, cg_prev, cg_done, 
                                 cg_fetched, cg_h, cg_v, cg_next, cg_ok, 
                                 cg_seen, ac_id, ac_mclass, ac_mfree, 
                                 ac_cclass, ac_cop, ac_i, ac_done, pcx, cur, 
                                 blk >>

Lbl_7(self) == /\ pc[self] = "Lbl_7"
               /\ IF sb_p[self] = Perfect
                     THEN /\ IF sb_mode[self] = "steal"
                                THEN /\ /\ sg_class' = [sg_class EXCEPT ![self] = sb_class[self]]
                                        /\ sg_frame' = [sg_frame EXCEPT ![self] = -1]
                                        /\ sg_i' = [sg_i EXCEPT ![self] = sb_idx[self]]
                                        /\ sg_order' = [sg_order EXCEPT ![self] = sb_order[self]]
                                        /\ stack' = [stack EXCEPT ![self] = << [ procedure |->  "steal_global",
                                                                                 pc        |->  "sb_scan_r",
                                                                                 sg_c      |->  sg_c[self],
                                                                                 sg_i      |->  sg_i[self],
                                                                                 sg_class  |->  sg_class[self],
                                                                                 sg_order  |->  sg_order[self],
                                                                                 sg_frame  |->  sg_frame[self] ] >>
                                                                             \o stack[self]]
                                     /\ sg_c' = [sg_c EXCEPT ![self] = 0]
                                     /\ pc' = [pc EXCEPT ![self] = "sg_begin"]
                                     /\ UNCHANGED << rs_i, rs_order, rs_class, 
                                                     rs_local, rs_reserved, 
                                                     rs_free, rs_tc, rs_frame, 
                                                     rs_old >>
                                ELSE /\ /\ rs_class' = [rs_class EXCEPT ![self] = sb_class[self]]
                                        /\ rs_i' = [rs_i EXCEPT ![self] = sb_idx[self]]
                                        /\ rs_local' = [rs_local EXCEPT ![self] = sb_local[self]]
                                        /\ rs_order' = [rs_order EXCEPT ![self] = sb_order[self]]
                                        /\ stack' = [stack EXCEPT ![self] = << [ procedure |->  "reserve_or_steal",
                                                                                 pc        |->  "sb_scan_r",
                                                                                 rs_reserved |->  rs_reserved[self],
                                                                                 rs_free   |->  rs_free[self],
                                                                                 rs_tc     |->  rs_tc[self],
                                                                                 rs_frame  |->  rs_frame[self],
                                                                                 rs_old    |->  rs_old[self],
                                                                                 rs_i      |->  rs_i[self],
                                                                                 rs_order  |->  rs_order[self],
                                                                                 rs_class  |->  rs_class[self],
                                                                                 rs_local  |->  rs_local[self] ] >>
                                                                             \o stack[self]]
                                     /\ rs_reserved' = [rs_reserved EXCEPT ![self] = FALSE]
                                     /\ rs_free' = [rs_free EXCEPT ![self] = 0]
                                     /\ rs_tc' = [rs_tc EXCEPT ![self] = 0]
                                     /\ rs_frame' = [rs_frame EXCEPT ![self] = 0]
                                     /\ rs_old' = [rs_old EXCEPT ![self] = SlotNone]
                                     /\ pc' = [pc EXCEPT ![self] = "rs_begin"]
                                     /\ UNCHANGED << sg_i, sg_class, sg_order, 
                                                     sg_frame, sg_c >>
                          /\ UNCHANGED sb_best
                     ELSE /\ IF sb_p[self].kind # "invalid"
                                THEN /\ sb_best' = [sb_best EXCEPT ![self] = SBAdd(sb_best[self], sb_n[self], <<Rank(sb_p[self], sb_t[self].free = TF), sb_idx[self]>>)]
                                ELSE /\ TRUE
                                     /\ UNCHANGED sb_best
                          /\ pc' = [pc EXCEPT ![self] = "sb_scan"]
                          /\ UNCHANGED << stack, sg_i, sg_class, sg_order, 
                                          sg_frame, sg_c, rs_i, rs_order, 
                                          rs_class, rs_local, rs_reserved, 
                                          rs_free, rs_tc, rs_frame, rs_old >>
               /\ UNCHANGED << mem, held, results, inflight, rv, panicked, hid, 
                               lastop, dp_why, tu_loc, tu_fn, tu_arg, tu_prev, 
                               tu_next, tu_done, tu_ok, tu_seen, lg_row, 
                               lg_order, lg_tree, lg_off, lg_j, lg_i, lg_h, 
                               lg_found, lg_frame, lg_n, ca_h0, ca_num, ca_cur, 
                               ca_new, ca_i, ca_ok, ca_seen, ca_j, sf_h, 
                               sf_start, sf_order, sf_i, sf_r, sf_found, 
                               sf_off, sf_nrows, sf_c, sf_k, sf_v, sf_zero, 
                               sf_ok, sf_seen, sf_u, tg_h, tg_off, tg_order, 
                               tg_exp, tg_ok, tg_i, tg_n, tg_seen, tg_u, tg_r0, 
                               la_frame, la_order, la_h, ps_frame, ps_order, 
                               lp_frame, lp_order, lp_h, lp_old, lp_ok, 
                               lp_seen, lp_spin, lp_v, tp_t, tp_n, tu2_t, 
                               tu2_free, tu2_class, gl_order, gl_class, 
                               gl_local, gl_frame, gl_sync, gl_row, gl_res, 
                               gl_min, gl_got, sb_n, sb_start, sb_offset, 
                               sb_len, sb_mode, sb_order, sb_class, sb_local, 
                               sb_i, sb_idx, sb_t, sb_p, sb_done, sb_k, 
                               sl_class, sl_local, sl_order, sl_frame, sl_i, 
                               sl_tc, sl_j, sl_found, sl_row, sl_jj, dl_class, 
                               dl_local, dl_order, dl_frame, dl_i, dl_tc, dl_j, 
                               dl_found, dl_new, dl_old, dl_jj, dl_oldclass, 
                               ag_order, ag_class, ag_local, ag_frame, ag_len, 
                               ag_start, ag_near, ag_done, ap_frame, ap_order, 
                               ap_class, ap_local, ad_c, ad_k, ad_old, cg_t, 
                               cg_mclass, cg_mfree, cg_cclass, cg_cop, cg_prev, 
                               cg_done, cg_fetched, cg_h, cg_v, cg_next, cg_ok, 
                               cg_seen, ac_id, ac_mclass, ac_mfree, ac_cclass, 
                               ac_cop, ac_i, ac_done, pcx, cur, blk >>

sb_scan_r(self) == /\ pc[self] = "sb_scan_r"
                   /\ IF rv[self].ok
                         THEN /\ sb_done' = [sb_done EXCEPT ![self] = TRUE]
                         ELSE /\ TRUE
                              /\ UNCHANGED sb_done
                   /\ pc' = [pc EXCEPT ![self] = "sb_scan"]
                   /\ UNCHANGED << mem, held, results, inflight, rv, panicked, 
                                   hid, lastop, stack, dp_why, tu_loc, tu_fn, 
                                   tu_arg, tu_prev, tu_next, tu_done, tu_ok, 
                                   tu_seen, lg_row, lg_order, lg_tree, lg_off, 
                                   lg_j, lg_i, lg_h, lg_found, lg_frame, lg_n, 
                                   ca_h0, ca_num, ca_cur, ca_new, ca_i, ca_ok, 
                                   ca_seen, ca_j, sf_h, sf_start, sf_order, 
                                   sf_i, sf_r, sf_found, sf_off, sf_nrows, 
                                   sf_c, sf_k, sf_v, sf_zero, sf_ok, sf_seen, 
                                   sf_u, tg_h, tg_off, tg_order, tg_exp, tg_ok, 
                                   tg_i, tg_n, tg_seen, tg_u, tg_r0, la_frame, 
                                   la_order, la_h, ps_frame, ps_order, 
                                   lp_frame, lp_order, lp_h, lp_old, lp_ok, 
                                   lp_seen, lp_spin, lp_v, tp_t, tp_n, tu2_t, 
                                   tu2_free, tu2_class, gl_order, gl_class, 
                                   gl_local, gl_frame, gl_sync, gl_row, gl_res, 
                                   gl_min, gl_got, sg_i, sg_class, sg_order, 
                                   sg_frame, sg_c, rs_i, rs_order, rs_class, 
                                   rs_local, rs_reserved, rs_free, rs_tc, 
                                   rs_frame, rs_old, sb_n, sb_start, sb_offset, 
                                   sb_len, sb_mode, sb_order, sb_class, 
                                   sb_local, sb_i, sb_idx, sb_t, sb_p, sb_best, 
                                   sb_k, sl_class, sl_local, sl_order, 
                                   sl_frame, sl_i, sl_tc, sl_j, sl_found, 
                                   sl_row, sl_jj, dl_class, dl_local, dl_order, 
                                   dl_frame, dl_i, dl_tc, dl_j, dl_found, 
                                   dl_new, dl_old, dl_jj, dl_oldclass, 
                                   ag_order, ag_class, ag_local, ag_frame, 
                                   ag_len, ag_start, ag_near, ag_done, 
                                   ap_frame, ap_order, ap_class, ap_local, 
                                   ad_c, ad_k, ad_old, cg_t, cg_mclass, 
                                   cg_mfree, cg_cclass, cg_cop, cg_prev, 
                                   cg_done, cg_fetched, cg_h, cg_v, cg_next, 
                                   cg_ok, cg_seen, ac_id, ac_mclass, ac_mfree, 
                                   ac_cclass, ac_cop, ac_i, ac_done, pcx, cur, 
                                   blk >>

Lbl_5(self) == /\ pc[self] = "Lbl_5"
               /\ sb_p' = [sb_p EXCEPT ![self] = IF sb_p[self].kind = "match" THEN sb_p[self]
                                                 ELSE IF sb_p[self].kind = "demote" /\ sb_t[self].free = TF THEN sb_p[self] ELSE Invalid]
               /\ pc' = [pc EXCEPT ![self] = "Lbl_7"]
               /\ UNCHANGED << mem, held, results, inflight, rv, panicked, hid, 
                               lastop, stack, dp_why, tu_loc, tu_fn, tu_arg, 
                               tu_prev, tu_next, tu_done, tu_ok, tu_seen, 
                               lg_row, lg_order, lg_tree, lg_off, lg_j, lg_i, 
                               lg_h, lg_found, lg_frame, lg_n, ca_h0, ca_num, 
                               ca_cur, ca_new, ca_i, ca_ok, ca_seen, ca_j, 
                               sf_h, sf_start, sf_order, sf_i, sf_r, sf_found, 
                               sf_off, sf_nrows, sf_c, sf_k, sf_v, sf_zero, 
                               sf_ok, sf_seen, sf_u, tg_h, tg_off, tg_order, 
                               tg_exp, tg_ok, tg_i, tg_n, tg_seen, tg_u, tg_r0, 
                               la_frame, la_order, la_h, ps_frame, ps_order, 
                               lp_frame, lp_order, lp_h, lp_old, lp_ok, 
                               lp_seen, lp_spin, lp_v, tp_t, tp_n, tu2_t, 
                               tu2_free, tu2_class, gl_order, gl_class, 
                               gl_local, gl_frame, gl_sync, gl_row, gl_res, 
                               gl_min, gl_got, sg_i, sg_class, sg_order, 
                               sg_frame, sg_c, rs_i, rs_order, rs_class, 
                               rs_local, rs_reserved, rs_free, rs_tc, rs_frame, 
                               rs_old, sb_n, sb_start, sb_offset, sb_len, 
                               sb_mode, sb_order, sb_class, sb_local, sb_i, 
                               sb_idx, sb_t, sb_best, sb_done, sb_k, sl_class, 
                               sl_local, sl_order, sl_frame, sl_i, sl_tc, sl_j, 
                               sl_found, sl_row, sl_jj, dl_class, dl_local, 
                               dl_order, dl_frame, dl_i, dl_tc, dl_j, dl_found, 
                               dl_new, dl_old, dl_jj, dl_oldclass, ag_order, 
                               ag_class, ag_local, ag_frame, ag_len, ag_start, 
                               ag_near, ag_done, ap_frame, ap_order, ap_class, 
                               ap_local, ad_c, ad_k, ad_old, cg_t, cg_mclass, 
                               cg_mfree, cg_cclass, cg_cop, cg_prev, cg_done, 
                               cg_fetched, cg_h, cg_v, cg_next, cg_ok, cg_seen, 
                               ac_id, ac_mclass, ac_mfree, ac_cclass, ac_cop, 
                               ac_i, ac_done, pcx, cur, blk >>

Lbl_6(self) == /\ pc[self] = "Lbl_6"
               /\ sb_p' = [sb_p EXCEPT ![self] = IF sb_p[self].kind = "match" THEN Perfect
                                                 ELSE IF sb_p[self].kind = "demote" /\ sb_t[self].free = TF THEN Perfect ELSE sb_p[self]]
               /\ pc' = [pc EXCEPT ![self] = "Lbl_7"]
               /\ UNCHANGED << mem, held, results, inflight, rv, panicked, hid, 
                               lastop, stack, dp_why, tu_loc, tu_fn, tu_arg, 
                               tu_prev, tu_next, tu_done, tu_ok, tu_seen, 
                               lg_row, lg_order, lg_tree, lg_off, lg_j, lg_i, 
                               lg_h, lg_found, lg_frame, lg_n, ca_h0, ca_num, 
                               ca_cur, ca_new, ca_i, ca_ok, ca_seen, ca_j, 
                               sf_h, sf_start, sf_order, sf_i, sf_r, sf_found, 
                               sf_off, sf_nrows, sf_c, sf_k, sf_v, sf_zero, 
                               sf_ok, sf_seen, sf_u, tg_h, tg_off, tg_order, 
                               tg_exp, tg_ok, tg_i, tg_n, tg_seen, tg_u, tg_r0, 
                               la_frame, la_order, la_h, ps_frame, ps_order, 
                               lp_frame, lp_order, lp_h, lp_old, lp_ok, 
                               lp_seen, lp_spin, lp_v, tp_t, tp_n, tu2_t, 
                               tu2_free, tu2_class, gl_order, gl_class, 
                               gl_local, gl_frame, gl_sync, gl_row, gl_res, 
                               gl_min, gl_got, sg_i, sg_class, sg_order, 
                               sg_frame, sg_c, rs_i, rs_order, rs_class, 
                               rs_local, rs_reserved, rs_free, rs_tc, rs_frame, 
                               rs_old, sb_n, sb_start, sb_offset, sb_len, 
                               sb_mode, sb_order, sb_class, sb_local, sb_i, 
                               sb_idx, sb_t, sb_best, sb_done, sb_k, sl_class, 
                               sl_local, sl_order, sl_frame, sl_i, sl_tc, sl_j, 
                               sl_found, sl_row, sl_jj, dl_class, dl_local, 
                               dl_order, dl_frame, dl_i, dl_tc, dl_j, dl_found, 
                               dl_new, dl_old, dl_jj, dl_oldclass, ag_order, 
                               ag_class, ag_local, ag_frame, ag_len, ag_start, 
                               ag_near, ag_done, ap_frame, ap_order, ap_class, 
                               ap_local, ad_c, ad_k, ad_old, cg_t, cg_mclass, 
                               cg_mfree, cg_cclass, cg_cop, cg_prev, cg_done, 
                               cg_fetched, cg_h, cg_v, cg_next, cg_ok, cg_seen, 
                               ac_id, ac_mclass, ac_mfree, ac_cclass, ac_cop, 
                               ac_i, ac_done, pcx, cur, blk >>

sb_try(self) == /\ pc[self] = "sb_try"
                /\ IF sb_k[self] >= 1 /\ ~sb_done[self]
                      THEN /\ IF sb_mode[self] = "steal"
                                 THEN /\ /\ sg_class' = [sg_class EXCEPT ![self] = sb_class[self]]
                                         /\ sg_frame' = [sg_frame EXCEPT ![self] = -1]
                                         /\ sg_i' = [sg_i EXCEPT ![self] = sb_best[self][sb_k[self]][2]]
                                         /\ sg_order' = [sg_order EXCEPT ![self] = sb_order[self]]
                                         /\ stack' = [stack EXCEPT ![self] = << [ procedure |->  "steal_global",
                                                                                  pc        |->  "sb_try_r",
                                                                                  sg_c      |->  sg_c[self],
                                                                                  sg_i      |->  sg_i[self],
                                                                                  sg_class  |->  sg_class[self],
                                                                                  sg_order  |->  sg_order[self],
                                                                                  sg_frame  |->  sg_frame[self] ] >>
                                                                              \o stack[self]]
                                      /\ sg_c' = [sg_c EXCEPT ![self] = 0]
                                      /\ pc' = [pc EXCEPT ![self] = "sg_begin"]
                                      /\ UNCHANGED << rs_i, rs_order, rs_class, 
                                                      rs_local, rs_reserved, 
                                                      rs_free, rs_tc, rs_frame, 
                                                      rs_old >>
                                 ELSE /\ /\ rs_class' = [rs_class EXCEPT ![self] = sb_class[self]]
                                         /\ rs_i' = [rs_i EXCEPT ![self] = sb_best[self][sb_k[self]][2]]
                                         /\ rs_local' = [rs_local EXCEPT ![self] = sb_local[self]]
                                         /\ rs_order' = [rs_order EXCEPT ![self] = sb_order[self]]
                                         /\ stack' = [stack EXCEPT ![self] = << [ procedure |->  "reserve_or_steal",
                                                                                  pc        |->  "sb_try_r",
                                                                                  rs_reserved |->  rs_reserved[self],
                                                                                  rs_free   |->  rs_free[self],
                                                                                  rs_tc     |->  rs_tc[self],
                                                                                  rs_frame  |->  rs_frame[self],
                                                                                  rs_old    |->  rs_old[self],
                                                                                  rs_i      |->  rs_i[self],
                                                                                  rs_order  |->  rs_order[self],
                                                                                  rs_class  |->  rs_class[self],
                                                                                  rs_local  |->  rs_local[self] ] >>
                                                                              \o stack[self]]
                                      /\ rs_reserved' = [rs_reserved EXCEPT ![self] = FALSE]
                                      /\ rs_free' = [rs_free EXCEPT ![self] = 0]
                                      /\ rs_tc' = [rs_tc EXCEPT ![self] = 0]
                                      /\ rs_frame' = [rs_frame EXCEPT ![self] = 0]
                                      /\ rs_old' = [rs_old EXCEPT ![self] = SlotNone]
                                      /\ pc' = [pc EXCEPT ![self] = "rs_begin"]
                                      /\ UNCHANGED << sg_i, sg_class, sg_order, 
                                                      sg_frame, sg_c >>
                      ELSE /\ pc' = [pc EXCEPT ![self] = "sb_ret"]
                           /\ UNCHANGED << stack, sg_i, sg_class, sg_order, 
                                           sg_frame, sg_c, rs_i, rs_order, 
                                           rs_class, rs_local, rs_reserved, 
                                           rs_free, rs_tc, rs_frame, rs_old >>
                /\ UNCHANGED << mem, held, results, inflight, rv, panicked, 
                                hid, lastop, dp_why, tu_loc, tu_fn, tu_arg, 
                                tu_prev, tu_next, tu_done, tu_ok, tu_seen, 
                                lg_row, lg_order, lg_tree, lg_off, lg_j, lg_i, 
                                lg_h, lg_found, lg_frame, lg_n, ca_h0, ca_num, 
                                ca_cur, ca_new, ca_i, ca_ok, ca_seen, ca_j, 
                                sf_h, sf_start, sf_order, sf_i, sf_r, sf_found, 
                                sf_off, sf_nrows, sf_c, sf_k, sf_v, sf_zero, 
                                sf_ok, sf_seen, sf_u, tg_h, tg_off, tg_order, 
                                tg_exp, tg_ok, tg_i, tg_n, tg_seen, tg_u, 
                                tg_r0, la_frame, la_order, la_h, ps_frame, 
                                ps_order, lp_frame, lp_order, lp_h, lp_old, 
                                lp_ok, lp_seen, lp_spin, lp_v, tp_t, tp_n, 
                                tu2_t, tu2_free, tu2_class, gl_order, gl_class, 
                                gl_local, gl_frame, gl_sync, gl_row, gl_res, 
                                gl_min, gl_got, sb_n, sb_start, sb_offset, 
                                sb_len, sb_mode, sb_order, sb_class, sb_local, 
                                sb_i, sb_idx, sb_t, sb_p, sb_best, sb_done, 
                                sb_k, sl_class, sl_local, sl_order, sl_frame, 
                                sl_i, sl_tc, sl_j, sl_found, sl_row, sl_jj, 
                                dl_class, dl_local, dl_order, dl_frame, dl_i, 
                                dl_tc, dl_j, dl_found, dl_new, dl_old, dl_jj, 
                                dl_oldclass, ag_order, ag_class, ag_local, 
                                ag_frame, ag_len, ag_start, ag_near, ag_done, 
                                ap_frame, ap_order, ap_class, ap_local, ad_c, 
                                ad_k, ad_old, cg_t, cg_mclass, cg_mfree, 
                                cg_cclass, cg_cop, cg_prev, cg_done, 
                                cg_fetched, cg_h, cg_v, cg_next, cg_ok, 
                                cg_seen, ac_id, ac_mclass, ac_mfree, ac_cclass, 
                                ac_cop, ac_i, ac_done, pcx, cur, blk >>

sb_try_r(self) == /\ pc[self] = "sb_try_r"
                  /\ IF rv[self].ok
                        THEN /\ sb_done' = [sb_done EXCEPT ![self] = TRUE]
                             /\ sb_k' = sb_k
                        ELSE /\ sb_k' = [sb_k EXCEPT ![self] = sb_k[self] - 1]
                             /\ UNCHANGED sb_done
                  /\ pc' = [pc EXCEPT ![self] = "sb_try"]
                  /\ UNCHANGED << mem, held, results, inflight, rv, panicked, 
                                  hid, lastop, stack, dp_why, tu_loc, tu_fn, 
                                  tu_arg, tu_prev, tu_next, tu_done, tu_ok, 
                                  tu_seen, lg_row, lg_order, lg_tree, lg_off, 
                                  lg_j, lg_i, lg_h, lg_found, lg_frame, lg_n, 
                                  ca_h0, ca_num, ca_cur, ca_new, ca_i, ca_ok, 
                                  ca_seen, ca_j, sf_h, sf_start, sf_order, 
                                  sf_i, sf_r, sf_found, sf_off, sf_nrows, sf_c, 
                                  sf_k, sf_v, sf_zero, sf_ok, sf_seen, sf_u, 
                                  tg_h, tg_off, tg_order, tg_exp, tg_ok, tg_i, 
                                  tg_n, tg_seen, tg_u, tg_r0, la_frame, 
                                  la_order, la_h, ps_frame, ps_order, lp_frame, 
                                  lp_order, lp_h, lp_old, lp_ok, lp_seen, 
                                  lp_spin, lp_v, tp_t, tp_n, tu2_t, tu2_free, 
                                  tu2_class, gl_order, gl_class, gl_local, 
                                  gl_frame, gl_sync, gl_row, gl_res, gl_min, 
                                  gl_got, sg_i, sg_class, sg_order, sg_frame, 
                                  sg_c, rs_i, rs_order, rs_class, rs_local, 
                                  rs_reserved, rs_free, rs_tc, rs_frame, 
                                  rs_old, sb_n, sb_start, sb_offset, sb_len, 
                                  sb_mode, sb_order, sb_class, sb_local, sb_i, 
                                  sb_idx, sb_t, sb_p, sb_best, sl_class, 
                                  sl_local, sl_order, sl_frame, sl_i, sl_tc, 
                                  sl_j, sl_found, sl_row, sl_jj, dl_class, 
                                  dl_local, dl_order, dl_frame, dl_i, dl_tc, 
                                  dl_j, dl_found, dl_new, dl_old, dl_jj, 
                                  dl_oldclass, ag_order, ag_class, ag_local, 
                                  ag_frame, ag_len, ag_start, ag_near, ag_done, 
                                  ap_frame, ap_order, ap_class, ap_local, ad_c, 
                                  ad_k, ad_old, cg_t, cg_mclass, cg_mfree, 
                                  cg_cclass, cg_cop, cg_prev, cg_done, 
                                  cg_fetched, cg_h, cg_v, cg_next, cg_ok, 
                                  cg_seen, ac_id, ac_mclass, ac_mfree, 
                                  ac_cclass, ac_cop, ac_i, ac_done, pcx, cur, 
                                  blk >>

sb_ret(self) == /\ pc[self] = "sb_ret"
                /\ IF ~sb_done[self]
                      THEN /\ rv' = [rv EXCEPT ![self] = [ok |-> FALSE, frame |-> -1, class |-> -1, err |-> "mem"]]
                      ELSE /\ TRUE
                           /\ rv' = rv
                /\ pc' = [pc EXCEPT ![self] = Head(stack[self]).pc]
                /\ sb_i' = [sb_i EXCEPT ![self] = Head(stack[self]).sb_i]
                /\ sb_idx' = [sb_idx EXCEPT ![self] = Head(stack[self]).sb_idx]
                /\ sb_t' = [sb_t EXCEPT ![self] = Head(stack[self]).sb_t]
                /\ sb_p' = [sb_p EXCEPT ![self] = Head(stack[self]).sb_p]
                /\ sb_best' = [sb_best EXCEPT ![self] = Head(stack[self]).sb_best]
                /\ sb_done' = [sb_done EXCEPT ![self] = Head(stack[self]).sb_done]
                /\ sb_k' = [sb_k EXCEPT ![self] = Head(stack[self]).sb_k]
                /\ sb_n' = [sb_n EXCEPT ![self] = Head(stack[self]).sb_n]
                /\ sb_start' = [sb_start EXCEPT ![self] = Head(stack[self]).sb_start]
                /\ sb_offset' = [sb_offset EXCEPT ![self] = Head(stack[self]).sb_offset]
                /\ sb_len' = [sb_len EXCEPT ![self] = Head(stack[self]).sb_len]
                /\ sb_mode' = [sb_mode EXCEPT ![self] = Head(stack[self]).sb_mode]
                /\ sb_order' = [sb_order EXCEPT ![self] = Head(stack[self]).sb_order]
                /\ sb_class' = [sb_class EXCEPT ![self] = Head(stack[self]).sb_class]
                /\ sb_local' = [sb_local EXCEPT ![self] = Head(stack[self]).sb_local]
                /\ stack' = [stack EXCEPT ![self] = Tail(stack[self])]
                /\ UNCHANGED << mem, held, results, inflight, panicked, hid, 
                                lastop, dp_why, tu_loc, tu_fn, tu_arg, tu_prev, 
                                tu_next, tu_done, tu_ok, tu_seen, lg_row, 
                                lg_order, lg_tree, lg_off, lg_j, lg_i, lg_h, 
                                lg_found, lg_frame, lg_n, ca_h0, ca_num, 
                                ca_cur, ca_new, ca_i, ca_ok, ca_seen, ca_j, 
                                sf_h, sf_start, sf_order, sf_i, sf_r, sf_found, 
                                sf_off, sf_nrows, sf_c, sf_k, sf_v, sf_zero, 
                                sf_ok, sf_seen, sf_u, tg_h, tg_off, tg_order, 
                                tg_exp, tg_ok, tg_i, tg_n, tg_seen, tg_u, 
                                tg_r0, la_frame, la_order, la_h, ps_frame, 
                                ps_order, lp_frame, lp_order, lp_h, lp_old, 
                                lp_ok, lp_seen, lp_spin, lp_v, tp_t, tp_n, 
                                tu2_t, tu2_free, tu2_class, gl_order, gl_class, 
                                gl_local, gl_frame, gl_sync, gl_row, gl_res, 
                                gl_min, gl_got, sg_i, sg_class, sg_order, 
                                sg_frame, sg_c, rs_i, rs_order, rs_class, 
                                rs_local, rs_reserved, rs_free, rs_tc, 
                                rs_frame, rs_old, sl_class, sl_local, sl_order, 
                                sl_frame, sl_i, sl_tc, sl_j, sl_found, sl_row, 
                                sl_jj, dl_class, dl_local, dl_order, dl_frame, 
                                dl_i, dl_tc, dl_j, dl_found, dl_new, dl_old, 
                                dl_jj, dl_oldclass, ag_order, ag_class, 
                                ag_local, ag_frame, ag_len, ag_start, ag_near, 
                                ag_done, ap_frame, ap_order, ap_class, 
                                ap_local, ad_c, ad_k, ad_old, cg_t, cg_mclass, 
                                cg_mfree, cg_cclass, cg_cop, cg_prev, cg_done, 
                                cg_fetched, cg_h, cg_v, cg_next, cg_ok, 
                                cg_seen, ac_id, ac_mclass, ac_mfree, ac_cclass, 
                                ac_cop, ac_i, ac_done, pcx, cur, blk >>

search_best(self) == sb_begin(self) \/ sb_scan(self) \/ Lbl_7(self)
                        \/ sb_scan_r(self) \/ Lbl_5(self) \/ Lbl_6(self)
                        \/ sb_try(self) \/ sb_try_r(self) \/ sb_ret(self)

sl_begin(self) == /\ pc[self] = "sl_begin"
                  /\ sl_i' = [sl_i EXCEPT ![self] = 0]
                  /\ sl_found' = [sl_found EXCEPT ![self] = FALSE]
                  /\ pc' = [pc EXCEPT ![self] = "sl_classes"]
                  /\ UNCHANGED << mem, held, results, inflight, rv, panicked, 
                                  hid, lastop, stack, dp_why, tu_loc, tu_fn, 
                                  tu_arg, tu_prev, tu_next, tu_done, tu_ok, 
                                  tu_seen, lg_row, lg_order, lg_tree, lg_off, 
                                  lg_j, lg_i, lg_h, lg_found, lg_frame, lg_n, 
                                  ca_h0, ca_num, ca_cur, ca_new, ca_i, ca_ok, 
                                  ca_seen, ca_j, sf_h, sf_start, sf_order, 
                                  sf_i, sf_r, sf_found, sf_off, sf_nrows, sf_c, 
                                  sf_k, sf_v, sf_zero, sf_ok, sf_seen, sf_u, 
                                  tg_h, tg_off, tg_order, tg_exp, tg_ok, tg_i, 
                                  tg_n, tg_seen, tg_u, tg_r0, la_frame, 
                                  la_order, la_h, ps_frame, ps_order, lp_frame, 
                                  lp_order, lp_h, lp_old, lp_ok, lp_seen, 
                                  lp_spin, lp_v, tp_t, tp_n, tu2_t, tu2_free, 
                                  tu2_class, gl_order, gl_class, gl_local, 
                                  gl_frame, gl_sync, gl_row, gl_res, gl_min, 
                                  gl_got, sg_i, sg_class, sg_order, sg_frame, 
                                  sg_c, rs_i, rs_order, rs_class, rs_local, 
                                  rs_reserved, rs_free, rs_tc, rs_frame, 
                                  rs_old, sb_n, sb_start, sb_offset, sb_len, 
                                  sb_mode, sb_order, sb_class, sb_local, sb_i, 
                                  sb_idx, sb_t, sb_p, sb_best, sb_done, sb_k, 
                                  sl_class, sl_local, sl_order, sl_frame, 
                                  sl_tc, sl_j, sl_row, sl_jj, dl_class, 
                                  dl_local, dl_order, dl_frame, dl_i, dl_tc, 
                                  dl_j, dl_found, dl_new, dl_old, dl_jj, 
                                  dl_oldclass, ag_order, ag_class, ag_local, 
                                  ag_frame, ag_len, ag_start, ag_near, ag_done, 
                                  ap_frame, ap_order, ap_class, ap_local, ad_c, 
                                  ad_k, ad_old, cg_t, cg_mclass, cg_mfree, 
                                  cg_cclass, cg_cop, cg_prev, cg_done, 
                                  cg_fetched, cg_h, cg_v, cg_next, cg_ok, 
                                  cg_seen, ac_id, ac_mclass, ac_mfree, 
                                  ac_cclass, ac_cop, ac_i, ac_done, pcx, cur, 
                                  blk >>

sl_classes(self) == /\ pc[self] = "sl_classes"
                    /\ IF sl_i[self] < 8 /\ ~sl_found[self]
                          THEN /\ sl_tc' = [sl_tc EXCEPT ![self] = (sl_i[self] + sl_class[self]) % 8]
                               /\ IF Configured(sl_tc'[self]) /\ Policy(sl_class[self], sl_tc'[self], P2(sl_order[self])).kind \in {"steal", "match"}
                                     THEN /\ sl_j' = [sl_j EXCEPT ![self] = 0]
                                          /\ pc' = [pc EXCEPT ![self] = "sl_slots"]
                                          /\ sl_i' = sl_i
                                     ELSE /\ sl_i' = [sl_i EXCEPT ![self] = sl_i[self] + 1]
                                          /\ pc' = [pc EXCEPT ![self] = "sl_classes"]
                                          /\ sl_j' = sl_j
                               /\ UNCHANGED << rv, stack, lg_row, lg_order, 
                                               lg_tree, lg_off, lg_j, lg_i, 
                                               lg_h, lg_found, lg_frame, lg_n, 
                                               la_frame, la_order, la_h, 
                                               sl_class, sl_local, sl_order, 
                                               sl_frame, sl_found, sl_row, 
                                               sl_jj >>
                          ELSE /\ IF sl_found[self]
                                     THEN /\ IF sl_frame[self] = -1
                                                THEN /\ /\ lg_order' = [lg_order EXCEPT ![self] = sl_order[self]]
                                                        /\ lg_row' = [lg_row EXCEPT ![self] = sl_row[self]]
                                                        /\ stack' = [stack EXCEPT ![self] = << [ procedure |->  "lower_get",
                                                                                                 pc        |->  "sl_lower_r",
                                                                                                 lg_tree   |->  lg_tree[self],
                                                                                                 lg_off    |->  lg_off[self],
                                                                                                 lg_j      |->  lg_j[self],
                                                                                                 lg_i      |->  lg_i[self],
                                                                                                 lg_h      |->  lg_h[self],
                                                                                                 lg_found  |->  lg_found[self],
                                                                                                 lg_frame  |->  lg_frame[self],
                                                                                                 lg_n      |->  lg_n[self],
                                                                                                 lg_row    |->  lg_row[self],
                                                                                                 lg_order  |->  lg_order[self] ] >>
                                                                                             \o stack[self]]
                                                     /\ lg_tree' = [lg_tree EXCEPT ![self] = 0]
                                                     /\ lg_off' = [lg_off EXCEPT ![self] = 0]
                                                     /\ lg_j' = [lg_j EXCEPT ![self] = 0]
                                                     /\ lg_i' = [lg_i EXCEPT ![self] = 0]
                                                     /\ lg_h' = [lg_h EXCEPT ![self] = 0]
                                                     /\ lg_found' = [lg_found EXCEPT ![self] = FALSE]
                                                     /\ lg_frame' = [lg_frame EXCEPT ![self] = 0]
                                                     /\ lg_n' = [lg_n EXCEPT ![self] = 0]
                                                     /\ pc' = [pc EXCEPT ![self] = "lg_start"]
                                                     /\ UNCHANGED << la_frame, 
                                                                     la_order, 
                                                                     la_h >>
                                                ELSE /\ /\ la_frame' = [la_frame EXCEPT ![self] = sl_frame[self]]
                                                        /\ la_order' = [la_order EXCEPT ![self] = sl_order[self]]
                                                        /\ stack' = [stack EXCEPT ![self] = << [ procedure |->  "lower_get_at",
                                                                                                 pc        |->  "sl_lower_r",
                                                                                                 la_h      |->  la_h[self],
                                                                                                 la_frame  |->  la_frame[self],
                                                                                                 la_order  |->  la_order[self] ] >>
                                                                                             \o stack[self]]
                                                     /\ la_h' = [la_h EXCEPT ![self] = 0]
                                                     /\ pc' = [pc EXCEPT ![self] = "la_begin"]
                                                     /\ UNCHANGED << lg_row, 
                                                                     lg_order, 
                                                                     lg_tree, 
                                                                     lg_off, 
                                                                     lg_j, 
                                                                     lg_i, 
                                                                     lg_h, 
                                                                     lg_found, 
                                                                     lg_frame, 
                                                                     lg_n >>
                                          /\ UNCHANGED << rv, sl_class, 
                                                          sl_local, sl_order, 
                                                          sl_frame, sl_i, 
                                                          sl_tc, sl_j, 
                                                          sl_found, sl_row, 
                                                          sl_jj >>
                                     ELSE /\ rv' = [rv EXCEPT ![self] = [ok |-> FALSE, frame |-> -1, class |-> -1, err |-> "mem"]]
                                          /\ pc' = [pc EXCEPT ![self] = Head(stack[self]).pc]
                                          /\ sl_i' = [sl_i EXCEPT ![self] = Head(stack[self]).sl_i]
                                          /\ sl_tc' = [sl_tc EXCEPT ![self] = Head(stack[self]).sl_tc]
                                          /\ sl_j' = [sl_j EXCEPT ![self] = Head(stack[self]).sl_j]
                                          /\ sl_found' = [sl_found EXCEPT ![self] = Head(stack[self]).sl_found]
                                          /\ sl_row' = [sl_row EXCEPT ![self] = Head(stack[self]).sl_row]
                                          /\ sl_jj' = [sl_jj EXCEPT ![self] = Head(stack[self]).sl_jj]
                                          /\ sl_class' = [sl_class EXCEPT ![self] = Head(stack[self]).sl_class]
                                          /\ sl_local' = [sl_local EXCEPT ![self] = Head(stack[self]).sl_local]
                                          /\ sl_order' = [sl_order EXCEPT ![self] = Head(stack[self]).sl_order]
                                          /\ sl_frame' = [sl_frame EXCEPT ![self] = Head(stack[self]).sl_frame]
                                          /\ stack' = [stack EXCEPT ![self] = Tail(stack[self])]
                                          /\ UNCHANGED << lg_row, lg_order, 
                                                          lg_tree, lg_off, 
                                                          lg_j, lg_i, lg_h, 
                                                          lg_found, lg_frame, 
                                                          lg_n, la_frame, 
                                                          la_order, la_h >>
                    /\ UNCHANGED << mem, held, results, inflight, panicked, 
                                    hid, lastop, dp_why, tu_loc, tu_fn, tu_arg, 
                                    tu_prev, tu_next, tu_done, tu_ok, tu_seen, 
                                    ca_h0, ca_num, ca_cur, ca_new, ca_i, ca_ok, 
                                    ca_seen, ca_j, sf_h, sf_start, sf_order, 
                                    sf_i, sf_r, sf_found, sf_off, sf_nrows, 
                                    sf_c, sf_k, sf_v, sf_zero, sf_ok, sf_seen, 
                                    sf_u, tg_h, tg_off, tg_order, tg_exp, 
                                    tg_ok, tg_i, tg_n, tg_seen, tg_u, tg_r0, 
                                    ps_frame, ps_order, lp_frame, lp_order, 
                                    lp_h, lp_old, lp_ok, lp_seen, lp_spin, 
                                    lp_v, tp_t, tp_n, tu2_t, tu2_free, 
                                    tu2_class, gl_order, gl_class, gl_local, 
                                    gl_frame, gl_sync, gl_row, gl_res, gl_min, 
                                    gl_got, sg_i, sg_class, sg_order, sg_frame, 
                                    sg_c, rs_i, rs_order, rs_class, rs_local, 
                                    rs_reserved, rs_free, rs_tc, rs_frame, 
                                    rs_old, sb_n, sb_start, sb_offset, sb_len, 
                                    sb_mode, sb_order, sb_class, sb_local, 
                                    sb_i, sb_idx, sb_t, sb_p, sb_best, sb_done, 
                                    sb_k, dl_class, dl_local, dl_order, 
                                    dl_frame, dl_i, dl_tc, dl_j, dl_found, 
                                    dl_new, dl_old, dl_jj, dl_oldclass, 
                                    ag_order, ag_class, ag_local, ag_frame, 
                                    ag_len, ag_start, ag_near, ag_done, 
                                    ap_frame, ap_order, ap_class, ap_local, 
                                    ad_c, ad_k, ad_old, cg_t, cg_mclass, 
                                    cg_mfree, cg_cclass, cg_cop, cg_prev, 
                                    cg_done, cg_fetched, cg_h, cg_v, cg_next, 
                                    cg_ok, cg_seen, ac_id, ac_mclass, ac_mfree, 
                                    ac_cclass, ac_cop, ac_i, ac_done, pcx, cur, 
                                    blk >>

sl_slots(self) == /\ pc[self] = "sl_slots"
                  /\ IF sl_j[self] < NSlots(sl_tc[self]) /\ ~sl_found[self]
                        THEN /\ sl_jj' = [sl_jj EXCEPT ![self] = ((IF sl_local[self] = -1 THEN 0 ELSE sl_local[self]) + sl_j[self]) % NSlots(sl_tc[self])]
                             /\ /\ stack' = [stack EXCEPT ![self] = << [ procedure |->  "try_update",
                                                                         pc        |->  "sl_slots_r",
                                                                         tu_prev   |->  tu_prev[self],
                                                                         tu_next   |->  tu_next[self],
                                                                         tu_done   |->  tu_done[self],
                                                                         tu_ok     |->  tu_ok[self],
                                                                         tu_seen   |->  tu_seen[self],
                                                                         tu_loc    |->  tu_loc[self],
                                                                         tu_fn     |->  tu_fn[self],
                                                                         tu_arg    |->  tu_arg[self] ] >>
                                                                     \o stack[self]]
                                /\ tu_arg' = [tu_arg EXCEPT ![self] = [tree |-> IF sl_frame[self] = -1 THEN -1 ELSE TreeOfFrame(sl_frame[self]), n |-> P2(sl_order[self])]]
                                /\ tu_fn' = [tu_fn EXCEPT ![self] = "sget"]
                                /\ tu_loc' = [tu_loc EXCEPT ![self] = Slot(sl_tc[self], sl_jj'[self])]
                             /\ tu_prev' = [tu_prev EXCEPT ![self] = 0]
                             /\ tu_next' = [tu_next EXCEPT ![self] = <<>>]
                             /\ tu_done' = [tu_done EXCEPT ![self] = FALSE]
                             /\ tu_ok' = [tu_ok EXCEPT ![self] = FALSE]
                             /\ tu_seen' = [tu_seen EXCEPT ![self] = 0]
                             /\ pc' = [pc EXCEPT ![self] = "tu_load"]
                        ELSE /\ pc' = [pc EXCEPT ![self] = "sl_next"]
                             /\ UNCHANGED << stack, tu_loc, tu_fn, tu_arg, 
                                             tu_prev, tu_next, tu_done, tu_ok, 
                                             tu_seen, sl_jj >>
                  /\ UNCHANGED << mem, held, results, inflight, rv, panicked, 
                                  hid, lastop, dp_why, lg_row, lg_order, 
                                  lg_tree, lg_off, lg_j, lg_i, lg_h, lg_found, 
                                  lg_frame, lg_n, ca_h0, ca_num, ca_cur, 
                                  ca_new, ca_i, ca_ok, ca_seen, ca_j, sf_h, 
                                  sf_start, sf_order, sf_i, sf_r, sf_found, 
                                  sf_off, sf_nrows, sf_c, sf_k, sf_v, sf_zero, 
                                  sf_ok, sf_seen, sf_u, tg_h, tg_off, tg_order, 
                                  tg_exp, tg_ok, tg_i, tg_n, tg_seen, tg_u, 
                                  tg_r0, la_frame, la_order, la_h, ps_frame, 
                                  ps_order, lp_frame, lp_order, lp_h, lp_old, 
                                  lp_ok, lp_seen, lp_spin, lp_v, tp_t, tp_n, 
                                  tu2_t, tu2_free, tu2_class, gl_order, 
                                  gl_class, gl_local, gl_frame, gl_sync, 
                                  gl_row, gl_res, gl_min, gl_got, sg_i, 
                                  sg_class, sg_order, sg_frame, sg_c, rs_i, 
                                  rs_order, rs_class, rs_local, rs_reserved, 
                                  rs_free, rs_tc, rs_frame, rs_old, sb_n, 
                                  sb_start, sb_offset, sb_len, sb_mode, 
                                  sb_order, sb_class, sb_local, sb_i, sb_idx, 
                                  sb_t, sb_p, sb_best, sb_done, sb_k, sl_class, 
                                  sl_local, sl_order, sl_frame, sl_i, sl_tc, 
                                  sl_j, sl_found, sl_row, dl_class, dl_local, 
                                  dl_order, dl_frame, dl_i, dl_tc, dl_j, 
                                  dl_found, dl_new, dl_old, dl_jj, dl_oldclass, 
                                  ag_order, ag_class, ag_local, ag_frame, 
                                  ag_len, ag_start, ag_near, ag_done, ap_frame, 
                                  ap_order, ap_class, ap_local, ad_c, ad_k, 
                                  ad_old, cg_t, cg_mclass, cg_mfree, cg_cclass, 
                                  cg_cop, cg_prev, cg_done, cg_fetched, cg_h, 
                                  cg_v, cg_next, cg_ok, cg_seen, ac_id, 
                                  ac_mclass, ac_mfree, ac_cclass, ac_cop, ac_i, 
                                  ac_done, pcx, cur, blk >>

sl_slots_r(self) == /\ pc[self] = "sl_slots_r"
                    /\ IF rv[self].ok
                          THEN /\ sl_found' = [sl_found EXCEPT ![self] = TRUE]
                               /\ sl_row' = [sl_row EXCEPT ![self] = rv[self].old.row]
                               /\ sl_j' = sl_j
                          ELSE /\ sl_j' = [sl_j EXCEPT ![self] = sl_j[self] + 1]
                               /\ UNCHANGED << sl_found, sl_row >>
                    /\ pc' = [pc EXCEPT ![self] = "sl_slots"]
                    /\ UNCHANGED << mem, held, results, inflight, rv, panicked, 
                                    hid, lastop, stack, dp_why, tu_loc, tu_fn, 
                                    tu_arg, tu_prev, tu_next, tu_done, tu_ok, 
                                    tu_seen, lg_row, lg_order, lg_tree, lg_off, 
                                    lg_j, lg_i, lg_h, lg_found, lg_frame, lg_n, 
                                    ca_h0, ca_num, ca_cur, ca_new, ca_i, ca_ok, 
                                    ca_seen, ca_j, sf_h, sf_start, sf_order, 
                                    sf_i, sf_r, sf_found, sf_off, sf_nrows, 
                                    sf_c, sf_k, sf_v, sf_zero, sf_ok, sf_seen, 
                                    sf_u, tg_h, tg_off, tg_order, tg_exp, 
                                    tg_ok, tg_i, tg_n, tg_seen, tg_u, tg_r0, 
                                    la_frame, la_order, la_h, ps_frame, 
                                    ps_order, lp_frame, lp_order, lp_h, lp_old, 
                                    lp_ok, lp_seen, lp_spin, lp_v, tp_t, tp_n, 
                                    tu2_t, tu2_free, tu2_class, gl_order, 
                                    gl_class, gl_local, gl_frame, gl_sync, 
                                    gl_row, gl_res, gl_min, gl_got, sg_i, 
                                    sg_class, sg_order, sg_frame, sg_c, rs_i, 
                                    rs_order, rs_class, rs_local, rs_reserved, 
                                    rs_free, rs_tc, rs_frame, rs_old, sb_n, 
                                    sb_start, sb_offset, sb_len, sb_mode, 
                                    sb_order, sb_class, sb_local, sb_i, sb_idx, 
                                    sb_t, sb_p, sb_best, sb_done, sb_k, 
                                    sl_class, sl_local, sl_order, sl_frame, 
                                    sl_i, sl_tc, sl_jj, dl_class, dl_local, 
                                    dl_order, dl_frame, dl_i, dl_tc, dl_j, 
                                    dl_found, dl_new, dl_old, dl_jj, 
                                    dl_oldclass, ag_order, ag_class, ag_local, 
                                    ag_frame, ag_len, ag_start, ag_near, 
                                    ag_done, ap_frame, ap_order, ap_class, 
                                    ap_local, ad_c, ad_k, ad_old, cg_t, 
                                    cg_mclass, cg_mfree, cg_cclass, cg_cop, 
                                    cg_prev, cg_done, cg_fetched, cg_h, cg_v, 
                                    cg_next, cg_ok, cg_seen, ac_id, ac_mclass, 
                                    ac_mfree, ac_cclass, ac_cop, ac_i, ac_done, 
                                    pcx, cur, blk >>

sl_next(self) == /\ pc[self] = "sl_next"
                 /\ IF ~sl_found[self]
                       THEN /\ sl_i' = [sl_i EXCEPT ![self] = sl_i[self] + 1]
                       ELSE /\ TRUE
                            /\ sl_i' = sl_i
                 /\ pc' = [pc EXCEPT ![self] = "sl_classes"]
                 /\ UNCHANGED << mem, held, results, inflight, rv, panicked, 
                                 hid, lastop, stack, dp_why, tu_loc, tu_fn, 
                                 tu_arg, tu_prev, tu_next, tu_done, tu_ok, 
                                 tu_seen, lg_row, lg_order, lg_tree, lg_off, 
                                 lg_j, lg_i, lg_h, lg_found, lg_frame, lg_n, 
                                 ca_h0, ca_num, ca_cur, ca_new, ca_i, ca_ok, 
                                 ca_seen, ca_j, sf_h, sf_start, sf_order, sf_i, 
                                 sf_r, sf_found, sf_off, sf_nrows, sf_c, sf_k, 
                                 sf_v, sf_zero, sf_ok, sf_seen, sf_u, tg_h, 
                                 tg_off, tg_order, tg_exp, tg_ok, tg_i, tg_n, 
                                 tg_seen, tg_u, tg_r0, la_frame, la_order, 
                                 la_h, ps_frame, ps_order, lp_frame, lp_order, 
                                 lp_h, lp_old, lp_ok, lp_seen, lp_spin, lp_v, 
                                 tp_t, tp_n, tu2_t, tu2_free, tu2_class, 
                                 gl_order, gl_class, gl_local, gl_frame, 
                                 gl_sync, gl_row, gl_res, gl_min, gl_got, sg_i, 
                                 sg_class, sg_order, sg_frame, sg_c, rs_i, 
                                 rs_order, rs_class, rs_local, rs_reserved, 
                                 rs_free, rs_tc, rs_frame, rs_old, sb_n, 
                                 sb_start, sb_offset, sb_len, sb_mode, 
                                 sb_order, sb_class, sb_local, sb_i, sb_idx, 
                                 sb_t, sb_p, sb_best, sb_done, sb_k, sl_class, 
                                 sl_local, sl_order, sl_frame, sl_tc, sl_j, 
                                 sl_found, sl_row, sl_jj, dl_class, dl_local, 
                                 dl_order, dl_frame, dl_i, dl_tc, dl_j, 
                                 dl_found, dl_new, dl_old, dl_jj, dl_oldclass, 
                                 ag_order, ag_class, ag_local, ag_frame, 
                                 ag_len, ag_start, ag_near, ag_done, ap_frame, 
                                 ap_order, ap_class, ap_local, ad_c, ad_k, 
                                 ad_old, cg_t, cg_mclass, cg_mfree, cg_cclass, 
                                 cg_cop, cg_prev, cg_done, cg_fetched, cg_h, 
                                 cg_v, cg_next, cg_ok, cg_seen, ac_id, 
                                 ac_mclass, ac_mfree, ac_cclass, ac_cop, ac_i, 
                                 ac_done, pcx, cur, blk >>

sl_lower_r(self) == /\ pc[self] = "sl_lower_r"
                    /\ IF rv[self].ok
                          THEN /\ rv' = [rv EXCEPT ![self] = [ok |-> TRUE, frame |-> rv[self].frame, class |-> sl_tc[self], err |-> ""]]
                               /\ pc' = [pc EXCEPT ![self] = Head(stack[self]).pc]
                               /\ sl_i' = [sl_i EXCEPT ![self] = Head(stack[self]).sl_i]
                               /\ sl_tc' = [sl_tc EXCEPT ![self] = Head(stack[self]).sl_tc]
                               /\ sl_j' = [sl_j EXCEPT ![self] = Head(stack[self]).sl_j]
                               /\ sl_found' = [sl_found EXCEPT ![self] = Head(stack[self]).sl_found]
                               /\ sl_row' = [sl_row EXCEPT ![self] = Head(stack[self]).sl_row]
                               /\ sl_jj' = [sl_jj EXCEPT ![self] = Head(stack[self]).sl_jj]
                               /\ sl_class' = [sl_class EXCEPT ![self] = Head(stack[self]).sl_class]
                               /\ sl_local' = [sl_local EXCEPT ![self] = Head(stack[self]).sl_local]
                               /\ sl_order' = [sl_order EXCEPT ![self] = Head(stack[self]).sl_order]
                               /\ sl_frame' = [sl_frame EXCEPT ![self] = Head(stack[self]).sl_frame]
                               /\ stack' = [stack EXCEPT ![self] = Tail(stack[self])]
                               /\ UNCHANGED << tp_t, tp_n >>
                          ELSE /\ /\ stack' = [stack EXCEPT ![self] = << [ procedure |->  "trees_put",
                                                                           pc        |->  "sl_undo_r",
                                                                           tp_t      |->  tp_t[self],
                                                                           tp_n      |->  tp_n[self] ] >>
                                                                       \o stack[self]]
                                  /\ tp_n' = [tp_n EXCEPT ![self] = P2(sl_order[self])]
                                  /\ tp_t' = [tp_t EXCEPT ![self] = TreeOfRow(sl_row[self])]
                               /\ pc' = [pc EXCEPT ![self] = "tp_begin"]
                               /\ UNCHANGED << rv, sl_class, sl_local, 
                                               sl_order, sl_frame, sl_i, sl_tc, 
                                               sl_j, sl_found, sl_row, sl_jj >>
                    /\ UNCHANGED << mem, held, results, inflight, panicked, 
                                    hid, lastop, dp_why, tu_loc, tu_fn, tu_arg, 
                                    tu_prev, tu_next, tu_done, tu_ok, tu_seen, 
                                    lg_row, lg_order, lg_tree, lg_off, lg_j, 
                                    lg_i, lg_h, lg_found, lg_frame, lg_n, 
                                    ca_h0, ca_num, ca_cur, ca_new, ca_i, ca_ok, 
                                    ca_seen, ca_j, sf_h, sf_start, sf_order, 
                                    sf_i, sf_r, sf_found, sf_off, sf_nrows, 
                                    sf_c, sf_k, sf_v, sf_zero, sf_ok, sf_seen, 
                                    sf_u, tg_h, tg_off, tg_order, tg_exp, 
                                    tg_ok, tg_i, tg_n, tg_seen, tg_u, tg_r0, 
                                    la_frame, la_order, la_h, ps_frame, 
                                    ps_order, lp_frame, lp_order, lp_h, lp_old, 
                                    lp_ok, lp_seen, lp_spin, lp_v, tu2_t, 
                                    tu2_free, tu2_class, gl_order, gl_class, 
                                    gl_local, gl_frame, gl_sync, gl_row, 
                                    gl_res, gl_min, gl_got, sg_i, sg_class, 
                                    sg_order, sg_frame, sg_c, rs_i, rs_order, 
                                    rs_class, rs_local, rs_reserved, rs_free, 
                                    rs_tc, rs_frame, rs_old, sb_n, sb_start, 
                                    sb_offset, sb_len, sb_mode, sb_order, 
                                    sb_class, sb_local, sb_i, sb_idx, sb_t, 
                                    sb_p, sb_best, sb_done, sb_k, dl_class, 
                                    dl_local, dl_order, dl_frame, dl_i, dl_tc, 
                                    dl_j, dl_found, dl_new, dl_old, dl_jj, 
                                    dl_oldclass, ag_order, ag_class, ag_local, 
                                    ag_frame, ag_len, ag_start, ag_near, 
                                    ag_done, ap_frame, ap_order, ap_class, 
                                    ap_local, ad_c, ad_k, ad_old, cg_t, 
                                    cg_mclass, cg_mfree, cg_cclass, cg_cop, 
                                    cg_prev, cg_done, cg_fetched, cg_h, cg_v, 
                                    cg_next, cg_ok, cg_seen, ac_id, ac_mclass, 
                                    ac_mfree, ac_cclass, ac_cop, ac_i, ac_done, 
                                    pcx, cur, blk >>

sl_undo_r(self) == /\ pc[self] = "sl_undo_r"
                   /\ rv' = [rv EXCEPT ![self] = [ok |-> FALSE, frame |-> -1, class |-> -1, err |-> "mem"]]
                   /\ pc' = [pc EXCEPT ![self] = Head(stack[self]).pc]
                   /\ sl_i' = [sl_i EXCEPT ![self] = Head(stack[self]).sl_i]
                   /\ sl_tc' = [sl_tc EXCEPT ![self] = Head(stack[self]).sl_tc]
                   /\ sl_j' = [sl_j EXCEPT ![self] = Head(stack[self]).sl_j]
                   /\ sl_found' = [sl_found EXCEPT ![self] = Head(stack[self]).sl_found]
                   /\ sl_row' = [sl_row EXCEPT ![self] = Head(stack[self]).sl_row]
                   /\ sl_jj' = [sl_jj EXCEPT ![self] = Head(stack[self]).sl_jj]
                   /\ sl_class' = [sl_class EXCEPT ![self] = Head(stack[self]).sl_class]
                   /\ sl_local' = [sl_local EXCEPT ![self] = Head(stack[self]).sl_local]
                   /\ sl_order' = [sl_order EXCEPT ![self] = Head(stack[self]).sl_order]
                   /\ sl_frame' = [sl_frame EXCEPT ![self] = Head(stack[self]).sl_frame]
                   /\ stack' = [stack EXCEPT ![self] = Tail(stack[self])]
                   /\ UNCHANGED << mem, held, results, inflight, panicked, hid, 
                                   lastop, dp_why, tu_loc, tu_fn, tu_arg, 
                                   tu_prev, tu_next, tu_done, tu_ok, tu_seen, 
                                   lg_row, lg_order, lg_tree, lg_off, lg_j, 
                                   lg_i, lg_h, lg_found, lg_frame, lg_n, ca_h0, 
                                   ca_num, ca_cur, ca_new, ca_i, ca_ok, 
                                   ca_seen, ca_j, sf_h, sf_start, sf_order, 
                                   sf_i, sf_r, sf_found, sf_off, sf_nrows, 
                                   sf_c, sf_k, sf_v, sf_zero, sf_ok, sf_seen, 
                                   sf_u, tg_h, tg_off, tg_order, tg_exp, tg_ok, 
                                   tg_i, tg_n, tg_seen, tg_u, tg_r0, la_frame, 
                                   la_order, la_h, ps_frame, ps_order, 
                                   lp_frame, lp_order, lp_h, lp_old, lp_ok, 
                                   lp_seen, lp_spin, lp_v, tp_t, tp_n, tu2_t, 
                                   tu2_free, tu2_class, gl_order, gl_class, 
                                   gl_local, gl_frame, gl_sync, gl_row, gl_res, 
                                   gl_min, gl_got, sg_i, sg_class, sg_order, 
                                   sg_frame, sg_c, rs_i, rs_order, rs_class, 
                                   rs_local, rs_reserved, rs_free, rs_tc, 
                                   rs_frame, rs_old, sb_n, sb_start, sb_offset, 
                                   sb_len, sb_mode, sb_order, sb_class, 
                                   sb_local, sb_i, sb_idx, sb_t, sb_p, sb_best, 
                                   sb_done, sb_k, dl_class, dl_local, dl_order, 
                                   dl_frame, dl_i, dl_tc, dl_j, dl_found, 
                                   dl_new, dl_old, dl_jj, dl_oldclass, 
                                   ag_order, ag_class, ag_local, ag_frame, 
                                   ag_len, ag_start, ag_near, ag_done, 
                                   ap_frame, ap_order, ap_class, ap_local, 
                                   ad_c, ad_k, ad_old, cg_t, cg_mclass, 
                                   cg_mfree, cg_cclass, cg_cop, cg_prev, 
                                   cg_done, cg_fetched, cg_h, cg_v, cg_next, 
                                   cg_ok, cg_seen, ac_id, ac_mclass, ac_mfree, 
                                   ac_cclass, ac_cop, ac_i, ac_done, pcx, cur, 
                                   blk >>

steal_local(self) == sl_begin(self) \/ sl_classes(self) \/ sl_slots(self)
                        \/ sl_slots_r(self) \/ sl_next(self)
                        \/ sl_lower_r(self) \/ sl_undo_r(self)

dl_begin(self) == /\ pc[self] = "dl_begin"
                  /\ dl_i' = [dl_i EXCEPT ![self] = 1]
                  /\ dl_found' = [dl_found EXCEPT ![self] = FALSE]
                  /\ IF ~Configured(dl_class[self])
                        THEN /\ rv' = [rv EXCEPT ![self] = [ok |-> FALSE, frame |-> -1, class |-> -1, err |-> "mem"]]
                             /\ pc' = [pc EXCEPT ![self] = "Lbl_8"]
                        ELSE /\ pc' = [pc EXCEPT ![self] = "dl_classes"]
                             /\ rv' = rv
                  /\ UNCHANGED << mem, held, results, inflight, panicked, hid, 
                                  lastop, stack, dp_why, tu_loc, tu_fn, tu_arg, 
                                  tu_prev, tu_next, tu_done, tu_ok, tu_seen, 
                                  lg_row, lg_order, lg_tree, lg_off, lg_j, 
                                  lg_i, lg_h, lg_found, lg_frame, lg_n, ca_h0, 
                                  ca_num, ca_cur, ca_new, ca_i, ca_ok, ca_seen, 
                                  ca_j, sf_h, sf_start, sf_order, sf_i, sf_r, 
                                  sf_found, sf_off, sf_nrows, sf_c, sf_k, sf_v, 
                                  sf_zero, sf_ok, sf_seen, sf_u, tg_h, tg_off, 
                                  tg_order, tg_exp, tg_ok, tg_i, tg_n, tg_seen, 
                                  tg_u, tg_r0, la_frame, la_order, la_h, 
                                  ps_frame, ps_order, lp_frame, lp_order, lp_h, 
                                  lp_old, lp_ok, lp_seen, lp_spin, lp_v, tp_t, 
                                  tp_n, tu2_t, tu2_free, tu2_class, gl_order, 
                                  gl_class, gl_local, gl_frame, gl_sync, 
                                  gl_row, gl_res, gl_min, gl_got, sg_i, 
                                  sg_class, sg_order, sg_frame, sg_c, rs_i, 
                                  rs_order, rs_class, rs_local, rs_reserved, 
                                  rs_free, rs_tc, rs_frame, rs_old, sb_n, 
                                  sb_start, sb_offset, sb_len, sb_mode, 
                                  sb_order, sb_class, sb_local, sb_i, sb_idx, 
                                  sb_t, sb_p, sb_best, sb_done, sb_k, sl_class, 
                                  sl_local, sl_order, sl_frame, sl_i, sl_tc, 
                                  sl_j, sl_found, sl_row, sl_jj, dl_class, 
                                  dl_local, dl_order, dl_frame, dl_tc, dl_j, 
                                  dl_new, dl_old, dl_jj, dl_oldclass, ag_order, 
                                  ag_class, ag_local, ag_frame, ag_len, 
                                  ag_start, ag_near, ag_done, ap_frame, 
                                  ap_order, ap_class, ap_local, ad_c, ad_k, 
                                  ad_old, cg_t, cg_mclass, cg_mfree, cg_cclass, 
                                  cg_cop, cg_prev, cg_done, cg_fetched, cg_h, 
                                  cg_v, cg_next, cg_ok, cg_seen, ac_id, 
                                  ac_mclass, ac_mfree, ac_cclass, ac_cop, ac_i, 
                                  ac_done, pcx, cur, blk >>

Lbl_8(self) == /\ pc[self] = "Lbl_8"
               /\ pc' = [pc EXCEPT ![self] = Head(stack[self]).pc]
               /\ dl_i' = [dl_i EXCEPT ![self] = Head(stack[self]).dl_i]
               /\ dl_tc' = [dl_tc EXCEPT ![self] = Head(stack[self]).dl_tc]
               /\ dl_j' = [dl_j EXCEPT ![self] = Head(stack[self]).dl_j]
               /\ dl_found' = [dl_found EXCEPT ![self] = Head(stack[self]).dl_found]
               /\ dl_new' = [dl_new EXCEPT ![self] = Head(stack[self]).dl_new]
               /\ dl_old' = [dl_old EXCEPT ![self] = Head(stack[self]).dl_old]
               /\ dl_jj' = [dl_jj EXCEPT ![self] = Head(stack[self]).dl_jj]
               /\ dl_oldclass' = [dl_oldclass EXCEPT ![self] = Head(stack[self]).dl_oldclass]
               /\ dl_class' = [dl_class EXCEPT ![self] = Head(stack[self]).dl_class]
               /\ dl_local' = [dl_local EXCEPT ![self] = Head(stack[self]).dl_local]
               /\ dl_order' = [dl_order EXCEPT ![self] = Head(stack[self]).dl_order]
               /\ dl_frame' = [dl_frame EXCEPT ![self] = Head(stack[self]).dl_frame]
               /\ stack' = [stack EXCEPT ![self] = Tail(stack[self])]
               /\ UNCHANGED << mem, held, results, inflight, rv, panicked, hid, 
                               lastop, dp_why, tu_loc, tu_fn, tu_arg, tu_prev, 
                               tu_next, tu_done, tu_ok, tu_seen, lg_row, 
                               lg_order, lg_tree, lg_off, lg_j, lg_i, lg_h, 
                               lg_found, lg_frame, lg_n, ca_h0, ca_num, ca_cur, 
                               ca_new, ca_i, ca_ok, ca_seen, ca_j, sf_h, 
                               sf_start, sf_order, sf_i, sf_r, sf_found, 
                               sf_off, sf_nrows, sf_c, sf_k, sf_v, sf_zero, 
                               sf_ok, sf_seen, sf_u, tg_h, tg_off, tg_order, 
                               tg_exp, tg_ok, tg_i, tg_n, tg_seen, tg_u, tg_r0, 
                               la_frame, la_order, la_h, ps_frame, ps_order, 
                               lp_frame, lp_order, lp_h, lp_old, lp_ok, 
                               lp_seen, lp_spin, lp_v, tp_t, tp_n, tu2_t, 
                               tu2_free, tu2_class, gl_order, gl_class, 
                               gl_local, gl_frame, gl_sync, gl_row, gl_res, 
                               gl_min, gl_got, sg_i, sg_class, sg_order, 
                               sg_frame, sg_c, rs_i, rs_order, rs_class, 
                               rs_local, rs_reserved, rs_free, rs_tc, rs_frame, 
                               rs_old, sb_n, sb_start, sb_offset, sb_len, 
                               sb_mode, sb_order, sb_class, sb_local, sb_i, 
                               sb_idx, sb_t, sb_p, sb_best, sb_done, sb_k, 
                               sl_class, sl_local, sl_order, sl_frame, sl_i, 
                               sl_tc, sl_j, sl_found, sl_row, sl_jj, ag_order, 
                               ag_class, ag_local, ag_frame, ag_len, ag_start, 
                               ag_near, ag_done, ap_frame, ap_order, ap_class, 
                               ap_local, ad_c, ad_k, ad_old, cg_t, cg_mclass, 
                               cg_mfree, cg_cclass, cg_cop, cg_prev, cg_done, 
                               cg_fetched, cg_h, cg_v, cg_next, cg_ok, cg_seen, 
                               ac_id, ac_mclass, ac_mfree, ac_cclass, ac_cop, 
                               ac_i, ac_done, pcx, cur, blk >>

dl_classes(self) == /\ pc[self] = "dl_classes"
                    /\ IF dl_i[self] < 8 /\ ~dl_found[self]
                          THEN /\ dl_tc' = [dl_tc EXCEPT ![self] = (dl_i[self] + dl_class[self]) % 8]
                               /\ IF Configured(dl_tc'[self]) /\ Policy(dl_class[self], dl_tc'[self], P2(dl_order[self])).kind = "demote"
                                     THEN /\ dl_j' = [dl_j EXCEPT ![self] = 0]
                                          /\ pc' = [pc EXCEPT ![self] = "dl_slots"]
                                          /\ dl_i' = dl_i
                                     ELSE /\ dl_i' = [dl_i EXCEPT ![self] = dl_i[self] + 1]
                                          /\ pc' = [pc EXCEPT ![self] = "dl_classes"]
                                          /\ dl_j' = dl_j
                               /\ UNCHANGED << rv, stack, dl_class, dl_local, 
                                               dl_order, dl_frame, dl_found, 
                                               dl_new, dl_old, dl_jj, 
                                               dl_oldclass >>
                          ELSE /\ IF ~dl_found[self]
                                     THEN /\ rv' = [rv EXCEPT ![self] = [ok |-> FALSE, frame |-> -1, class |-> -1, err |-> "mem"]]
                                          /\ pc' = [pc EXCEPT ![self] = Head(stack[self]).pc]
                                          /\ dl_i' = [dl_i EXCEPT ![self] = Head(stack[self]).dl_i]
                                          /\ dl_tc' = [dl_tc EXCEPT ![self] = Head(stack[self]).dl_tc]
                                          /\ dl_j' = [dl_j EXCEPT ![self] = Head(stack[self]).dl_j]
                                          /\ dl_found' = [dl_found EXCEPT ![self] = Head(stack[self]).dl_found]
                                          /\ dl_new' = [dl_new EXCEPT ![self] = Head(stack[self]).dl_new]
                                          /\ dl_old' = [dl_old EXCEPT ![self] = Head(stack[self]).dl_old]
                                          /\ dl_jj' = [dl_jj EXCEPT ![self] = Head(stack[self]).dl_jj]
                                          /\ dl_oldclass' = [dl_oldclass EXCEPT ![self] = Head(stack[self]).dl_oldclass]
                                          /\ dl_class' = [dl_class EXCEPT ![self] = Head(stack[self]).dl_class]
                                          /\ dl_local' = [dl_local EXCEPT ![self] = Head(stack[self]).dl_local]
                                          /\ dl_order' = [dl_order EXCEPT ![self] = Head(stack[self]).dl_order]
                                          /\ dl_frame' = [dl_frame EXCEPT ![self] = Head(stack[self]).dl_frame]
                                          /\ stack' = [stack EXCEPT ![self] = Tail(stack[self])]
                                     ELSE /\ IF dl_local[self] # -1
                                                THEN /\ pc' = [pc EXCEPT ![self] = "dl_swap"]
                                                     /\ UNCHANGED dl_old
                                                ELSE /\ dl_old' = [dl_old EXCEPT ![self] = dl_new[self]]
                                                     /\ pc' = [pc EXCEPT ![self] = "dl_unres"]
                                          /\ UNCHANGED << rv, stack, dl_class, 
                                                          dl_local, dl_order, 
                                                          dl_frame, dl_i, 
                                                          dl_tc, dl_j, 
                                                          dl_found, dl_new, 
                                                          dl_jj, dl_oldclass >>
                    /\ UNCHANGED << mem, held, results, inflight, panicked, 
                                    hid, lastop, dp_why, tu_loc, tu_fn, tu_arg, 
                                    tu_prev, tu_next, tu_done, tu_ok, tu_seen, 
                                    lg_row, lg_order, lg_tree, lg_off, lg_j, 
                                    lg_i, lg_h, lg_found, lg_frame, lg_n, 
                                    ca_h0, ca_num, ca_cur, ca_new, ca_i, ca_ok, 
                                    ca_seen, ca_j, sf_h, sf_start, sf_order, 
                                    sf_i, sf_r, sf_found, sf_off, sf_nrows, 
                                    sf_c, sf_k, sf_v, sf_zero, sf_ok, sf_seen, 
                                    sf_u, tg_h, tg_off, tg_order, tg_exp, 
                                    tg_ok, tg_i, tg_n, tg_seen, tg_u, tg_r0, 
                                    la_frame, la_order, la_h, ps_frame, 
                                    ps_order, lp_frame, lp_order, lp_h, lp_old, 
                                    lp_ok, lp_seen, lp_spin, lp_v, tp_t, tp_n, 
                                    tu2_t, tu2_free, tu2_class, gl_order, 
                                    gl_class, gl_local, gl_frame, gl_sync, 
                                    gl_row, gl_res, gl_min, gl_got, sg_i, 
                                    sg_class, sg_order, sg_frame, sg_c, rs_i, 
                                    rs_order, rs_class, rs_local, rs_reserved, 
                                    rs_free, rs_tc, rs_frame, rs_old, sb_n, 
                                    sb_start, sb_offset, sb_len, sb_mode, 
                                    sb_order, sb_class, sb_local, sb_i, sb_idx, 
                                    sb_t, sb_p, sb_best, sb_done, sb_k, 
                                    sl_class, sl_local, sl_order, sl_frame, 
                                    sl_i, sl_tc, sl_j, sl_found, sl_row, sl_jj, 
                                    ag_order, ag_class, ag_local, ag_frame, 
                                    ag_len, ag_start, ag_near, ag_done, 
                                    ap_frame, ap_order, ap_class, ap_local, 
                                    ad_c, ad_k, ad_old, cg_t, cg_mclass, 
                                    cg_mfree, cg_cclass, cg_cop, cg_prev, 
                                    cg_done, cg_fetched, cg_h, cg_v, cg_next, 
                                    cg_ok, cg_seen, ac_id, ac_mclass, ac_mfree, 
                                    ac_cclass, ac_cop, ac_i, ac_done, pcx, cur, 
                                    blk >>

dl_slots(self) == /\ pc[self] = "dl_slots"
                  /\ IF dl_j[self] < NSlots(dl_tc[self]) /\ ~dl_found[self]
                        THEN /\ dl_jj' = [dl_jj EXCEPT ![self] = ((IF dl_local[self] = -1 THEN 0 ELSE dl_local[self]) + dl_j[self]) % NSlots(dl_tc[self])]
                             /\ /\ stack' = [stack EXCEPT ![self] = << [ procedure |->  "try_update",
                                                                         pc        |->  "dl_slots_r",
                                                                         tu_prev   |->  tu_prev[self],
                                                                         tu_next   |->  tu_next[self],
                                                                         tu_done   |->  tu_done[self],
                                                                         tu_ok     |->  tu_ok[self],
                                                                         tu_seen   |->  tu_seen[self],
                                                                         tu_loc    |->  tu_loc[self],
                                                                         tu_fn     |->  tu_fn[self],
                                                                         tu_arg    |->  tu_arg[self] ] >>
                                                                     \o stack[self]]
                                /\ tu_arg' = [tu_arg EXCEPT ![self] = [tree |-> IF dl_frame[self] = -1 THEN -1 ELSE TreeOfFrame(dl_frame[self]), n |-> P2(dl_order[self])]]
                                /\ tu_fn' = [tu_fn EXCEPT ![self] = "sdemote"]
                                /\ tu_loc' = [tu_loc EXCEPT ![self] = Slot(dl_tc[self], dl_jj'[self])]
                             /\ tu_prev' = [tu_prev EXCEPT ![self] = 0]
                             /\ tu_next' = [tu_next EXCEPT ![self] = <<>>]
                             /\ tu_done' = [tu_done EXCEPT ![self] = FALSE]
                             /\ tu_ok' = [tu_ok EXCEPT ![self] = FALSE]
                             /\ tu_seen' = [tu_seen EXCEPT ![self] = 0]
                             /\ pc' = [pc EXCEPT ![self] = "tu_load"]
                        ELSE /\ pc' = [pc EXCEPT ![self] = "dl_next"]
                             /\ UNCHANGED << stack, tu_loc, tu_fn, tu_arg, 
                                             tu_prev, tu_next, tu_done, tu_ok, 
                                             tu_seen, dl_jj >>
                  /\ UNCHANGED << mem, held, results, inflight, rv, panicked, 
                                  hid, lastop, dp_why, lg_row, lg_order, 
                                  lg_tree, lg_off, lg_j, lg_i, lg_h, lg_found, 
                                  lg_frame, lg_n, ca_h0, ca_num, ca_cur, 
                                  ca_new, ca_i, ca_ok, ca_seen, ca_j, sf_h, 
                                  sf_start, sf_order, sf_i, sf_r, sf_found, 
                                  sf_off, sf_nrows, sf_c, sf_k, sf_v, sf_zero, 
                                  sf_ok, sf_seen, sf_u, tg_h, tg_off, tg_order, 
                                  tg_exp, tg_ok, tg_i, tg_n, tg_seen, tg_u, 
                                  tg_r0, la_frame, la_order, la_h, ps_frame, 
                                  ps_order, lp_frame, lp_order, lp_h, lp_old, 
                                  lp_ok, lp_seen, lp_spin, lp_v, tp_t, tp_n, 
                                  tu2_t, tu2_free, tu2_class, gl_order, 
                                  gl_class, gl_local, gl_frame, gl_sync, 
                                  gl_row, gl_res, gl_min, gl_got, sg_i, 
                                  sg_class, sg_order, sg_frame, sg_c, rs_i, 
                                  rs_order, rs_class, rs_local, rs_reserved, 
                                  rs_free, rs_tc, rs_frame, rs_old, sb_n, 
                                  sb_start, sb_offset, sb_len, sb_mode, 
                                  sb_order, sb_class, sb_local, sb_i, sb_idx, 
                                  sb_t, sb_p, sb_best, sb_done, sb_k, sl_class, 
                                  sl_local, sl_order, sl_frame, sl_i, sl_tc, 
                                  sl_j, sl_found, sl_row, sl_jj, dl_class, 
                                  dl_local, dl_order, dl_frame, dl_i, dl_tc, 
                                  dl_j, dl_found, dl_new, dl_old, dl_oldclass, 
                                  ag_order, ag_class, ag_local, ag_frame, 
                                  ag_len, ag_start, ag_near, ag_done, ap_frame, 
                                  ap_order, ap_class, ap_local, ad_c, ad_k, 
                                  ad_old, cg_t, cg_mclass, cg_mfree, cg_cclass, 
                                  cg_cop, cg_prev, cg_done, cg_fetched, cg_h, 
                                  cg_v, cg_next, cg_ok, cg_seen, ac_id, 
                                  ac_mclass, ac_mfree, ac_cclass, ac_cop, ac_i, 
                                  ac_done, pcx, cur, blk >>

dl_slots_r(self) == /\ pc[self] = "dl_slots_r"
                    /\ IF rv[self].ok
                          THEN /\ dl_found' = [dl_found EXCEPT ![self] = TRUE]
                               /\ dl_new' = [dl_new EXCEPT ![self] = [rv[self].old EXCEPT !.free = @ - P2(dl_order[self])]]
                               /\ dl_j' = dl_j
                          ELSE /\ dl_j' = [dl_j EXCEPT ![self] = dl_j[self] + 1]
                               /\ UNCHANGED << dl_found, dl_new >>
                    /\ pc' = [pc EXCEPT ![self] = "dl_slots"]
                    /\ UNCHANGED << mem, held, results, inflight, rv, panicked, 
                                    hid, lastop, stack, dp_why, tu_loc, tu_fn, 
                                    tu_arg, tu_prev, tu_next, tu_done, tu_ok, 
                                    tu_seen, lg_row, lg_order, lg_tree, lg_off, 
                                    lg_j, lg_i, lg_h, lg_found, lg_frame, lg_n, 
                                    ca_h0, ca_num, ca_cur, ca_new, ca_i, ca_ok, 
                                    ca_seen, ca_j, sf_h, sf_start, sf_order, 
                                    sf_i, sf_r, sf_found, sf_off, sf_nrows, 
                                    sf_c, sf_k, sf_v, sf_zero, sf_ok, sf_seen, 
                                    sf_u, tg_h, tg_off, tg_order, tg_exp, 
                                    tg_ok, tg_i, tg_n, tg_seen, tg_u, tg_r0, 
                                    la_frame, la_order, la_h, ps_frame, 
                                    ps_order, lp_frame, lp_order, lp_h, lp_old, 
                                    lp_ok, lp_seen, lp_spin, lp_v, tp_t, tp_n, 
                                    tu2_t, tu2_free, tu2_class, gl_order, 
                                    gl_class, gl_local, gl_frame, gl_sync, 
                                    gl_row, gl_res, gl_min, gl_got, sg_i, 
                                    sg_class, sg_order, sg_frame, sg_c, rs_i, 
                                    rs_order, rs_class, rs_local, rs_reserved, 
                                    rs_free, rs_tc, rs_frame, rs_old, sb_n, 
                                    sb_start, sb_offset, sb_len, sb_mode, 
                                    sb_order, sb_class, sb_local, sb_i, sb_idx, 
                                    sb_t, sb_p, sb_best, sb_done, sb_k, 
                                    sl_class, sl_local, sl_order, sl_frame, 
                                    sl_i, sl_tc, sl_j, sl_found, sl_row, sl_jj, 
                                    dl_class, dl_local, dl_order, dl_frame, 
                                    dl_i, dl_tc, dl_old, dl_jj, dl_oldclass, 
                                    ag_order, ag_class, ag_local, ag_frame, 
                                    ag_len, ag_start, ag_near, ag_done, 
                                    ap_frame, ap_order, ap_class, ap_local, 
                                    ad_c, ad_k, ad_old, cg_t, cg_mclass, 
                                    cg_mfree, cg_cclass, cg_cop, cg_prev, 
                                    cg_done, cg_fetched, cg_h, cg_v, cg_next, 
                                    cg_ok, cg_seen, ac_id, ac_mclass, ac_mfree, 
                                    ac_cclass, ac_cop, ac_i, ac_done, pcx, cur, 
                                    blk >>

dl_next(self) == /\ pc[self] = "dl_next"
                 /\ IF ~dl_found[self]
                       THEN /\ dl_i' = [dl_i EXCEPT ![self] = dl_i[self] + 1]
                       ELSE /\ TRUE
                            /\ dl_i' = dl_i
                 /\ pc' = [pc EXCEPT ![self] = "dl_classes"]
                 /\ UNCHANGED << mem, held, results, inflight, rv, panicked, 
                                 hid, lastop, stack, dp_why, tu_loc, tu_fn, 
                                 tu_arg, tu_prev, tu_next, tu_done, tu_ok, 
                                 tu_seen, lg_row, lg_order, lg_tree, lg_off, 
                                 lg_j, lg_i, lg_h, lg_found, lg_frame, lg_n, 
                                 ca_h0, ca_num, ca_cur, ca_new, ca_i, ca_ok, 
                                 ca_seen, ca_j, sf_h, sf_start, sf_order, sf_i, 
                                 sf_r, sf_found, sf_off, sf_nrows, sf_c, sf_k, 
                                 sf_v, sf_zero, sf_ok, sf_seen, sf_u, tg_h, 
                                 tg_off, tg_order, tg_exp, tg_ok, tg_i, tg_n, 
                                 tg_seen, tg_u, tg_r0, la_frame, la_order, 
                                 la_h, ps_frame, ps_order, lp_frame, lp_order, 
                                 lp_h, lp_old, lp_ok, lp_seen, lp_spin, lp_v, 
                                 tp_t, tp_n, tu2_t, tu2_free, tu2_class, 
                                 gl_order, gl_class, gl_local, gl_frame, 
                                 gl_sync, gl_row, gl_res, gl_min, gl_got, sg_i, 
                                 sg_class, sg_order, sg_frame, sg_c, rs_i, 
                                 rs_order, rs_class, rs_local, rs_reserved, 
                                 rs_free, rs_tc, rs_frame, rs_old, sb_n, 
                                 sb_start, sb_offset, sb_len, sb_mode, 
                                 sb_order, sb_class, sb_local, sb_i, sb_idx, 
                                 sb_t, sb_p, sb_best, sb_done, sb_k, sl_class, 
                                 sl_local, sl_order, sl_frame, sl_i, sl_tc, 
                                 sl_j, sl_found, sl_row, sl_jj, dl_class, 
                                 dl_local, dl_order, dl_frame, dl_tc, dl_j, 
                                 dl_found, dl_new, dl_old, dl_jj, dl_oldclass, 
                                 ag_order, ag_class, ag_local, ag_frame, 
                                 ag_len, ag_start, ag_near, ag_done, ap_frame, 
                                 ap_order, ap_class, ap_local, ad_c, ad_k, 
                                 ad_old, cg_t, cg_mclass, cg_mfree, cg_cclass, 
                                 cg_cop, cg_prev, cg_done, cg_fetched, cg_h, 
                                 cg_v, cg_next, cg_ok, cg_seen, ac_id, 
                                 ac_mclass, ac_mfree, ac_cclass, ac_cop, ac_i, 
                                 ac_done, pcx, cur, blk >>

dl_unres(self) == /\ pc[self] = "dl_unres"
                  /\ IF dl_old[self].present
                        THEN /\ /\ stack' = [stack EXCEPT ![self] = << [ procedure |->  "trees_unreserve",
                                                                         pc        |->  "dl_lower",
                                                                         tu2_t     |->  tu2_t[self],
                                                                         tu2_free  |->  tu2_free[self],
                                                                         tu2_class |->  tu2_class[self] ] >>
                                                                     \o stack[self]]
                                /\ tu2_class' = [tu2_class EXCEPT ![self] = dl_class[self]]
                                /\ tu2_free' = [tu2_free EXCEPT ![self] = dl_old[self].free]
                                /\ tu2_t' = [tu2_t EXCEPT ![self] = TreeOfRow(dl_old[self].row)]
                             /\ pc' = [pc EXCEPT ![self] = "un_begin"]
                        ELSE /\ pc' = [pc EXCEPT ![self] = "dl_lower"]
                             /\ UNCHANGED << stack, tu2_t, tu2_free, tu2_class >>
                  /\ UNCHANGED << mem, held, results, inflight, rv, panicked, 
                                  hid, lastop, dp_why, tu_loc, tu_fn, tu_arg, 
                                  tu_prev, tu_next, tu_done, tu_ok, tu_seen, 
                                  lg_row, lg_order, lg_tree, lg_off, lg_j, 
                                  lg_i, lg_h, lg_found, lg_frame, lg_n, ca_h0, 
                                  ca_num, ca_cur, ca_new, ca_i, ca_ok, ca_seen, 
                                  ca_j, sf_h, sf_start, sf_order, sf_i, sf_r, 
                                  sf_found, sf_off, sf_nrows, sf_c, sf_k, sf_v, 
                                  sf_zero, sf_ok, sf_seen, sf_u, tg_h, tg_off, 
                                  tg_order, tg_exp, tg_ok, tg_i, tg_n, tg_seen, 
                                  tg_u, tg_r0, la_frame, la_order, la_h, 
                                  ps_frame, ps_order, lp_frame, lp_order, lp_h, 
                                  lp_old, lp_ok, lp_seen, lp_spin, lp_v, tp_t, 
                                  tp_n, gl_order, gl_class, gl_local, gl_frame, 
                                  gl_sync, gl_row, gl_res, gl_min, gl_got, 
                                  sg_i, sg_class, sg_order, sg_frame, sg_c, 
                                  rs_i, rs_order, rs_class, rs_local, 
                                  rs_reserved, rs_free, rs_tc, rs_frame, 
                                  rs_old, sb_n, sb_start, sb_offset, sb_len, 
                                  sb_mode, sb_order, sb_class, sb_local, sb_i, 
                                  sb_idx, sb_t, sb_p, sb_best, sb_done, sb_k, 
                                  sl_class, sl_local, sl_order, sl_frame, sl_i, 
                                  sl_tc, sl_j, sl_found, sl_row, sl_jj, 
                                  dl_class, dl_local, dl_order, dl_frame, dl_i, 
                                  dl_tc, dl_j, dl_found, dl_new, dl_old, dl_jj, 
                                  dl_oldclass, ag_order, ag_class, ag_local, 
                                  ag_frame, ag_len, ag_start, ag_near, ag_done, 
                                  ap_frame, ap_order, ap_class, ap_local, ad_c, 
                                  ad_k, ad_old, cg_t, cg_mclass, cg_mfree, 
                                  cg_cclass, cg_cop, cg_prev, cg_done, 
                                  cg_fetched, cg_h, cg_v, cg_next, cg_ok, 
                                  cg_seen, ac_id, ac_mclass, ac_mfree, 
                                  ac_cclass, ac_cop, ac_i, ac_done, pcx, cur, 
                                  blk >>

dl_lower(self) == /\ pc[self] = "dl_lower"
                  /\ IF dl_frame[self] = -1
                        THEN /\ /\ lg_order' = [lg_order EXCEPT ![self] = dl_order[self]]
                                /\ lg_row' = [lg_row EXCEPT ![self] = dl_new[self].row]
                                /\ stack' = [stack EXCEPT ![self] = << [ procedure |->  "lower_get",
                                                                         pc        |->  "dl_lower_r",
                                                                         lg_tree   |->  lg_tree[self],
                                                                         lg_off    |->  lg_off[self],
                                                                         lg_j      |->  lg_j[self],
                                                                         lg_i      |->  lg_i[self],
                                                                         lg_h      |->  lg_h[self],
                                                                         lg_found  |->  lg_found[self],
                                                                         lg_frame  |->  lg_frame[self],
                                                                         lg_n      |->  lg_n[self],
                                                                         lg_row    |->  lg_row[self],
                                                                         lg_order  |->  lg_order[self] ] >>
                                                                     \o stack[self]]
                             /\ lg_tree' = [lg_tree EXCEPT ![self] = 0]
                             /\ lg_off' = [lg_off EXCEPT ![self] = 0]
                             /\ lg_j' = [lg_j EXCEPT ![self] = 0]
                             /\ lg_i' = [lg_i EXCEPT ![self] = 0]
                             /\ lg_h' = [lg_h EXCEPT ![self] = 0]
                             /\ lg_found' = [lg_found EXCEPT ![self] = FALSE]
                             /\ lg_frame' = [lg_frame EXCEPT ![self] = 0]
                             /\ lg_n' = [lg_n EXCEPT ![self] = 0]
                             /\ pc' = [pc EXCEPT ![self] = "lg_start"]
                             /\ UNCHANGED << la_frame, la_order, la_h >>
                        ELSE /\ /\ la_frame' = [la_frame EXCEPT ![self] = dl_frame[self]]
                                /\ la_order' = [la_order EXCEPT ![self] = dl_order[self]]
                                /\ stack' = [stack EXCEPT ![self] = << [ procedure |->  "lower_get_at",
                                                                         pc        |->  "dl_lower_r",
                                                                         la_h      |->  la_h[self],
                                                                         la_frame  |->  la_frame[self],
                                                                         la_order  |->  la_order[self] ] >>
                                                                     \o stack[self]]
                             /\ la_h' = [la_h EXCEPT ![self] = 0]
                             /\ pc' = [pc EXCEPT ![self] = "la_begin"]
                             /\ UNCHANGED << lg_row, lg_order, lg_tree, lg_off, 
                                             lg_j, lg_i, lg_h, lg_found, 
                                             lg_frame, lg_n >>
                  /\ UNCHANGED << mem, held, results, inflight, rv, panicked, 
                                  hid, lastop, dp_why, tu_loc, tu_fn, tu_arg, 
                                  tu_prev, tu_next, tu_done, tu_ok, tu_seen, 
                                  ca_h0, ca_num, ca_cur, ca_new, ca_i, ca_ok, 
                                  ca_seen, ca_j, sf_h, sf_start, sf_order, 
                                  sf_i, sf_r, sf_found, sf_off, sf_nrows, sf_c, 
                                  sf_k, sf_v, sf_zero, sf_ok, sf_seen, sf_u, 
                                  tg_h, tg_off, tg_order, tg_exp, tg_ok, tg_i, 
                                  tg_n, tg_seen, tg_u, tg_r0, ps_frame, 
                                  ps_order, lp_frame, lp_order, lp_h, lp_old, 
                                  lp_ok, lp_seen, lp_spin, lp_v, tp_t, tp_n, 
                                  tu2_t, tu2_free, tu2_class, gl_order, 
                                  gl_class, gl_local, gl_frame, gl_sync, 
                                  gl_row, gl_res, gl_min, gl_got, sg_i, 
                                  sg_class, sg_order, sg_frame, sg_c, rs_i, 
                                  rs_order, rs_class, rs_local, rs_reserved, 
                                  rs_free, rs_tc, rs_frame, rs_old, sb_n, 
                                  sb_start, sb_offset, sb_len, sb_mode, 
                                  sb_order, sb_class, sb_local, sb_i, sb_idx, 
                                  sb_t, sb_p, sb_best, sb_done, sb_k, sl_class, 
                                  sl_local, sl_order, sl_frame, sl_i, sl_tc, 
                                  sl_j, sl_found, sl_row, sl_jj, dl_class, 
                                  dl_local, dl_order, dl_frame, dl_i, dl_tc, 
                                  dl_j, dl_found, dl_new, dl_old, dl_jj, 
                                  dl_oldclass, ag_order, ag_class, ag_local, 
                                  ag_frame, ag_len, ag_start, ag_near, ag_done, 
                                  ap_frame, ap_order, ap_class, ap_local, ad_c, 
                                  ad_k, ad_old, cg_t, cg_mclass, cg_mfree, 
                                  cg_cclass, cg_cop, cg_prev, cg_done, 
                                  cg_fetched, cg_h, cg_v, cg_next, cg_ok, 
                                  cg_seen, ac_id, ac_mclass, ac_mfree, 
                                  ac_cclass, ac_cop, ac_i, ac_done, pcx, cur, 
                                  blk >>

dl_lower_r(self) == /\ pc[self] = "dl_lower_r"
                    /\ IF rv[self].ok
                          THEN /\ rv' = [rv EXCEPT ![self] = [ok |-> TRUE, frame |-> rv[self].frame, class |-> dl_class[self], err |-> ""]]
                               /\ pc' = [pc EXCEPT ![self] = Head(stack[self]).pc]
                               /\ dl_i' = [dl_i EXCEPT ![self] = Head(stack[self]).dl_i]
                               /\ dl_tc' = [dl_tc EXCEPT ![self] = Head(stack[self]).dl_tc]
                               /\ dl_j' = [dl_j EXCEPT ![self] = Head(stack[self]).dl_j]
                               /\ dl_found' = [dl_found EXCEPT ![self] = Head(stack[self]).dl_found]
                               /\ dl_new' = [dl_new EXCEPT ![self] = Head(stack[self]).dl_new]
                               /\ dl_old' = [dl_old EXCEPT ![self] = Head(stack[self]).dl_old]
                               /\ dl_jj' = [dl_jj EXCEPT ![self] = Head(stack[self]).dl_jj]
                               /\ dl_oldclass' = [dl_oldclass EXCEPT ![self] = Head(stack[self]).dl_oldclass]
                               /\ dl_class' = [dl_class EXCEPT ![self] = Head(stack[self]).dl_class]
                               /\ dl_local' = [dl_local EXCEPT ![self] = Head(stack[self]).dl_local]
                               /\ dl_order' = [dl_order EXCEPT ![self] = Head(stack[self]).dl_order]
                               /\ dl_frame' = [dl_frame EXCEPT ![self] = Head(stack[self]).dl_frame]
                               /\ stack' = [stack EXCEPT ![self] = Tail(stack[self])]
                               /\ UNCHANGED << tp_t, tp_n >>
                          ELSE /\ /\ stack' = [stack EXCEPT ![self] = << [ procedure |->  "trees_put",
                                                                           pc        |->  "dl_undo_r",
                                                                           tp_t      |->  tp_t[self],
                                                                           tp_n      |->  tp_n[self] ] >>
                                                                       \o stack[self]]
                                  /\ tp_n' = [tp_n EXCEPT ![self] = P2(dl_order[self])]
                                  /\ tp_t' = [tp_t EXCEPT ![self] = TreeOfRow(dl_new[self].row)]
                               /\ pc' = [pc EXCEPT ![self] = "tp_begin"]
                               /\ UNCHANGED << rv, dl_class, dl_local, 
                                               dl_order, dl_frame, dl_i, dl_tc, 
                                               dl_j, dl_found, dl_new, dl_old, 
                                               dl_jj, dl_oldclass >>
                    /\ UNCHANGED << mem, held, results, inflight, panicked, 
                                    hid, lastop, dp_why, tu_loc, tu_fn, tu_arg, 
                                    tu_prev, tu_next, tu_done, tu_ok, tu_seen, 
                                    lg_row, lg_order, lg_tree, lg_off, lg_j, 
                                    lg_i, lg_h, lg_found, lg_frame, lg_n, 
                                    ca_h0, ca_num, ca_cur, ca_new, ca_i, ca_ok, 
                                    ca_seen, ca_j, sf_h, sf_start, sf_order, 
                                    sf_i, sf_r, sf_found, sf_off, sf_nrows, 
                                    sf_c, sf_k, sf_v, sf_zero, sf_ok, sf_seen, 
                                    sf_u, tg_h, tg_off, tg_order, tg_exp, 
                                    tg_ok, tg_i, tg_n, tg_seen, tg_u, tg_r0, 
                                    la_frame, la_order, la_h, ps_frame, 
                                    ps_order, lp_frame, lp_order, lp_h, lp_old, 
                                    lp_ok, lp_seen, lp_spin, lp_v, tu2_t, 
                                    tu2_free, tu2_class, gl_order, gl_class, 
                                    gl_local, gl_frame, gl_sync, gl_row, 
                                    gl_res, gl_min, gl_got, sg_i, sg_class, 
                                    sg_order, sg_frame, sg_c, rs_i, rs_order, 
                                    rs_class, rs_local, rs_reserved, rs_free, 
                                    rs_tc, rs_frame, rs_old, sb_n, sb_start, 
                                    sb_offset, sb_len, sb_mode, sb_order, 
                                    sb_class, sb_local, sb_i, sb_idx, sb_t, 
                                    sb_p, sb_best, sb_done, sb_k, sl_class, 
                                    sl_local, sl_order, sl_frame, sl_i, sl_tc, 
                                    sl_j, sl_found, sl_row, sl_jj, ag_order, 
                                    ag_class, ag_local, ag_frame, ag_len, 
                                    ag_start, ag_near, ag_done, ap_frame, 
                                    ap_order, ap_class, ap_local, ad_c, ad_k, 
                                    ad_old, cg_t, cg_mclass, cg_mfree, 
                                    cg_cclass, cg_cop, cg_prev, cg_done, 
                                    cg_fetched, cg_h, cg_v, cg_next, cg_ok, 
                                    cg_seen, ac_id, ac_mclass, ac_mfree, 
                                    ac_cclass, ac_cop, ac_i, ac_done, pcx, cur, 
                                    blk >>

dl_undo_r(self) == /\ pc[self] = "dl_undo_r"
                   /\ rv' = [rv EXCEPT ![self] = [ok |-> FALSE, frame |-> -1, class |-> -1, err |-> "mem"]]
                   /\ pc' = [pc EXCEPT ![self] = Head(stack[self]).pc]
                   /\ dl_i' = [dl_i EXCEPT ![self] = Head(stack[self]).dl_i]
                   /\ dl_tc' = [dl_tc EXCEPT ![self] = Head(stack[self]).dl_tc]
                   /\ dl_j' = [dl_j EXCEPT ![self] = Head(stack[self]).dl_j]
                   /\ dl_found' = [dl_found EXCEPT ![self] = Head(stack[self]).dl_found]
                   /\ dl_new' = [dl_new EXCEPT ![self] = Head(stack[self]).dl_new]
                   /\ dl_old' = [dl_old EXCEPT ![self] = Head(stack[self]).dl_old]
                   /\ dl_jj' = [dl_jj EXCEPT ![self] = Head(stack[self]).dl_jj]
                   /\ dl_oldclass' = [dl_oldclass EXCEPT ![self] = Head(stack[self]).dl_oldclass]
                   /\ dl_class' = [dl_class EXCEPT ![self] = Head(stack[self]).dl_class]
                   /\ dl_local' = [dl_local EXCEPT ![self] = Head(stack[self]).dl_local]
                   /\ dl_order' = [dl_order EXCEPT ![self] = Head(stack[self]).dl_order]
                   /\ dl_frame' = [dl_frame EXCEPT ![self] = Head(stack[self]).dl_frame]
                   /\ stack' = [stack EXCEPT ![self] = Tail(stack[self])]
                   /\ UNCHANGED << mem, held, results, inflight, panicked, hid, 
                                   lastop, dp_why, tu_loc, tu_fn, tu_arg, 
                                   tu_prev, tu_next, tu_done, tu_ok, tu_seen, 
                                   lg_row, lg_order, lg_tree, lg_off, lg_j, 
                                   lg_i, lg_h, lg_found, lg_frame, lg_n, ca_h0, 
                                   ca_num, ca_cur, ca_new, ca_i, ca_ok, 
                                   ca_seen, ca_j, sf_h, sf_start, sf_order, 
                                   sf_i, sf_r, sf_found, sf_off, sf_nrows, 
                                   sf_c, sf_k, sf_v, sf_zero, sf_ok, sf_seen, 
                                   sf_u, tg_h, tg_off, tg_order, tg_exp, tg_ok, 
                                   tg_i, tg_n, tg_seen, tg_u, tg_r0, la_frame, 
                                   la_order, la_h, ps_frame, ps_order, 
                                   lp_frame, lp_order, lp_h, lp_old, lp_ok, 
                                   lp_seen, lp_spin, lp_v, tp_t, tp_n, tu2_t, 
                                   tu2_free, tu2_class, gl_order, gl_class, 
                                   gl_local, gl_frame, gl_sync, gl_row, gl_res, 
                                   gl_min, gl_got, sg_i, sg_class, sg_order, 
                                   sg_frame, sg_c, rs_i, rs_order, rs_class, 
                                   rs_local, rs_reserved, rs_free, rs_tc, 
                                   rs_frame, rs_old, sb_n, sb_start, sb_offset, 
                                   sb_len, sb_mode, sb_order, sb_class, 
                                   sb_local, sb_i, sb_idx, sb_t, sb_p, sb_best, 
                                   sb_done, sb_k, sl_class, sl_local, sl_order, 
                                   sl_frame, sl_i, sl_tc, sl_j, sl_found, 
                                   sl_row, sl_jj, ag_order, ag_class, ag_local, 
                                   ag_frame, ag_len, ag_start, ag_near, 
                                   ag_done, ap_frame, ap_order, ap_class, 
                                   ap_local, ad_c, ad_k, ad_old, cg_t, 
                                   cg_mclass, cg_mfree, cg_cclass, cg_cop, 
                                   cg_prev, cg_done, cg_fetched, cg_h, cg_v, 
                                   cg_next, cg_ok, cg_seen, ac_id, ac_mclass, 
                                   ac_mfree, ac_cclass, ac_cop, ac_i, ac_done, 
                                   pcx, cur, blk >>

dl_swap(self) == /\ pc[self] = "dl_swap"
                 /\ dl_old' = [dl_old EXCEPT ![self] = mem[Slot(dl_class[self], dl_local[self])]]
                 /\ lastop' = [seq |-> lastop.seq + 1, t |-> self, k |-> "swap", loc |-> Slot(dl_class[self], dl_local[self]),
                               old |-> mem[Slot(dl_class[self], dl_local[self])], new |-> dl_new[self], ok |-> TRUE]
                 /\ mem' = [mem EXCEPT ![Slot(dl_class[self], dl_local[self])] = dl_new[self]]
                 /\ pc' = [pc EXCEPT ![self] = "dl_unres"]
                 /\ UNCHANGED << held, results, inflight, rv, panicked, hid, 
                                 stack, dp_why, tu_loc, tu_fn, tu_arg, tu_prev, 
                                 tu_next, tu_done, tu_ok, tu_seen, lg_row, 
                                 lg_order, lg_tree, lg_off, lg_j, lg_i, lg_h, 
                                 lg_found, lg_frame, lg_n, ca_h0, ca_num, 
                                 ca_cur, ca_new, ca_i, ca_ok, ca_seen, ca_j, 
                                 sf_h, sf_start, sf_order, sf_i, sf_r, 
                                 sf_found, sf_off, sf_nrows, sf_c, sf_k, sf_v, 
                                 sf_zero, sf_ok, sf_seen, sf_u, tg_h, tg_off, 
                                 tg_order, tg_exp, tg_ok, tg_i, tg_n, tg_seen, 
                                 tg_u, tg_r0, la_frame, la_order, la_h, 
                                 ps_frame, ps_order, lp_frame, lp_order, lp_h, 
                                 lp_old, lp_ok, lp_seen, lp_spin, lp_v, tp_t, 
                                 tp_n, tu2_t, tu2_free, tu2_class, gl_order, 
                                 gl_class, gl_local, gl_frame, gl_sync, gl_row, 
                                 gl_res, gl_min, gl_got, sg_i, sg_class, 
                                 sg_order, sg_frame, sg_c, rs_i, rs_order, 
                                 rs_class, rs_local, rs_reserved, rs_free, 
                                 rs_tc, rs_frame, rs_old, sb_n, sb_start, 
                                 sb_offset, sb_len, sb_mode, sb_order, 
                                 sb_class, sb_local, sb_i, sb_idx, sb_t, sb_p, 
                                 sb_best, sb_done, sb_k, sl_class, sl_local, 
                                 sl_order, sl_frame, sl_i, sl_tc, sl_j, 
                                 sl_found, sl_row, sl_jj, dl_class, dl_local, 
                                 dl_order, dl_frame, dl_i, dl_tc, dl_j, 
                                 dl_found, dl_new, dl_jj, dl_oldclass, 
                                 ag_order, ag_class, ag_local, ag_frame, 
                                 ag_len, ag_start, ag_near, ag_done, ap_frame, 
                                 ap_order, ap_class, ap_local, ad_c, ad_k, 
                                 ad_old, cg_t, cg_mclass, cg_mfree, cg_cclass, 
                                 cg_cop, cg_prev, cg_done, cg_fetched, cg_h, 
                                 cg_v, cg_next, cg_ok, cg_seen, ac_id, 
                                 ac_mclass, ac_mfree, ac_cclass, ac_cop, ac_i, 
                                 ac_done, pcx, cur, blk >>

demote_local(self) == dl_begin(self) \/ Lbl_8(self) \/ dl_classes(self)
                         \/ dl_slots(self) \/ dl_slots_r(self)
                         \/ dl_next(self) \/ dl_unres(self)
                         \/ dl_lower(self) \/ dl_lower_r(self)
                         \/ dl_undo_r(self) \/ dl_swap(self)

ag_begin(self) == /\ pc[self] = "ag_begin"
                  /\ ag_done' = [ag_done EXCEPT ![self] = FALSE]
                  /\ IF ~(ag_order[self] <= TO /\ (IF ag_frame[self] = -1 THEN 0 ELSE ag_frame[self]) + P2(ag_order[self]) <= FRAMES
                          /\ (IF ag_frame[self] = -1 THEN 0 ELSE ag_frame[self]) % P2(ag_order[self]) = 0 /\ Configured(ag_class[self]))
                        THEN /\ rv' = [rv EXCEPT ![self] = [ok |-> FALSE, frame |-> -1, class |-> -1, err |-> "arg"]]
                             /\ pc' = [pc EXCEPT ![self] = "Lbl_9"]
                             /\ UNCHANGED << stack, gl_order, gl_class, 
                                             gl_local, gl_frame, gl_sync, 
                                             gl_row, gl_res, gl_min, gl_got, 
                                             sb_n, sb_start, sb_offset, sb_len, 
                                             sb_mode, sb_order, sb_class, 
                                             sb_local, sb_i, sb_idx, sb_t, 
                                             sb_p, sb_best, sb_done, sb_k, 
                                             ag_len, ag_start >>
                        ELSE /\ IF ag_frame[self] # -1
                                   THEN /\ IF ag_local[self] # -1
                                              THEN /\ /\ gl_class' = [gl_class EXCEPT ![self] = ag_class[self]]
                                                      /\ gl_frame' = [gl_frame EXCEPT ![self] = ag_frame[self]]
                                                      /\ gl_local' = [gl_local EXCEPT ![self] = ag_local[self]]
                                                      /\ gl_order' = [gl_order EXCEPT ![self] = ag_order[self]]
                                                      /\ gl_sync' = [gl_sync EXCEPT ![self] = TRUE]
                                                      /\ stack' = [stack EXCEPT ![self] = << [ procedure |->  "get_local",
                                                                                               pc        |->  "ag_at_local_r",
                                                                                               gl_row    |->  gl_row[self],
                                                                                               gl_res    |->  gl_res[self],
                                                                                               gl_min    |->  gl_min[self],
                                                                                               gl_got    |->  gl_got[self],
                                                                                               gl_order  |->  gl_order[self],
                                                                                               gl_class  |->  gl_class[self],
                                                                                               gl_local  |->  gl_local[self],
                                                                                               gl_frame  |->  gl_frame[self],
                                                                                               gl_sync   |->  gl_sync[self] ] >>
                                                                                           \o stack[self]]
                                                   /\ gl_row' = [gl_row EXCEPT ![self] = 0]
                                                   /\ gl_res' = [gl_res EXCEPT ![self] = SlotNone]
                                                   /\ gl_min' = [gl_min EXCEPT ![self] = 0]
                                                   /\ gl_got' = [gl_got EXCEPT ![self] = 0]
                                                   /\ pc' = [pc EXCEPT ![self] = "gl_begin"]
                                              ELSE /\ pc' = [pc EXCEPT ![self] = "ag_at_global"]
                                                   /\ UNCHANGED << stack, 
                                                                   gl_order, 
                                                                   gl_class, 
                                                                   gl_local, 
                                                                   gl_frame, 
                                                                   gl_sync, 
                                                                   gl_row, 
                                                                   gl_res, 
                                                                   gl_min, 
                                                                   gl_got >>
                                        /\ UNCHANGED << sb_n, sb_start, 
                                                        sb_offset, sb_len, 
                                                        sb_mode, sb_order, 
                                                        sb_class, sb_local, 
                                                        sb_i, sb_idx, sb_t, 
                                                        sb_p, sb_best, sb_done, 
                                                        sb_k, ag_len, ag_start >>
                                   ELSE /\ ag_len' = [ag_len EXCEPT ![self] = NSlots(ag_class[self])]
                                        /\ ag_start' = [ag_start EXCEPT ![self] = (IF ag_len'[self] = 0 THEN 0 ELSE NT \div ag_len'[self]) * (IF ag_local[self] = -1 THEN 0 ELSE ag_local[self])]
                                        /\ IF ag_local[self] # -1 /\ ag_len'[self] > 0 /\ ag_len'[self] < NT
                                              THEN /\ /\ gl_class' = [gl_class EXCEPT ![self] = ag_class[self]]
                                                      /\ gl_frame' = [gl_frame EXCEPT ![self] = -1]
                                                      /\ gl_local' = [gl_local EXCEPT ![self] = ag_local[self]]
                                                      /\ gl_order' = [gl_order EXCEPT ![self] = ag_order[self]]
                                                      /\ gl_sync' = [gl_sync EXCEPT ![self] = TRUE]
                                                      /\ stack' = [stack EXCEPT ![self] = << [ procedure |->  "get_local",
                                                                                               pc        |->  "ag_local_r",
                                                                                               gl_row    |->  gl_row[self],
                                                                                               gl_res    |->  gl_res[self],
                                                                                               gl_min    |->  gl_min[self],
                                                                                               gl_got    |->  gl_got[self],
                                                                                               gl_order  |->  gl_order[self],
                                                                                               gl_class  |->  gl_class[self],
                                                                                               gl_local  |->  gl_local[self],
                                                                                               gl_frame  |->  gl_frame[self],
                                                                                               gl_sync   |->  gl_sync[self] ] >>
                                                                                           \o stack[self]]
                                                   /\ gl_row' = [gl_row EXCEPT ![self] = 0]
                                                   /\ gl_res' = [gl_res EXCEPT ![self] = SlotNone]
                                                   /\ gl_min' = [gl_min EXCEPT ![self] = 0]
                                                   /\ gl_got' = [gl_got EXCEPT ![self] = 0]
                                                   /\ pc' = [pc EXCEPT ![self] = "gl_begin"]
                                                   /\ UNCHANGED << sb_n, 
                                                                   sb_start, 
                                                                   sb_offset, 
                                                                   sb_len, 
                                                                   sb_mode, 
                                                                   sb_order, 
                                                                   sb_class, 
                                                                   sb_local, 
                                                                   sb_i, 
                                                                   sb_idx, 
                                                                   sb_t, sb_p, 
                                                                   sb_best, 
                                                                   sb_done, 
                                                                   sb_k >>
                                              ELSE /\ /\ sb_class' = [sb_class EXCEPT ![self] = ag_class[self]]
                                                      /\ sb_len' = [sb_len EXCEPT ![self] = NT]
                                                      /\ sb_local' = [sb_local EXCEPT ![self] = ag_local[self]]
                                                      /\ sb_mode' = [sb_mode EXCEPT ![self] = "steal"]
                                                      /\ sb_n' = [sb_n EXCEPT ![self] = 8]
                                                      /\ sb_offset' = [sb_offset EXCEPT ![self] = 0]
                                                      /\ sb_order' = [sb_order EXCEPT ![self] = ag_order[self]]
                                                      /\ sb_start' = [sb_start EXCEPT ![self] = ag_start'[self]]
                                                      /\ stack' = [stack EXCEPT ![self] = << [ procedure |->  "search_best",
                                                                                               pc        |->  "ag_steal_r",
                                                                                               sb_i      |->  sb_i[self],
                                                                                               sb_idx    |->  sb_idx[self],
                                                                                               sb_t      |->  sb_t[self],
                                                                                               sb_p      |->  sb_p[self],
                                                                                               sb_best   |->  sb_best[self],
                                                                                               sb_done   |->  sb_done[self],
                                                                                               sb_k      |->  sb_k[self],
                                                                                               sb_n      |->  sb_n[self],
                                                                                               sb_start  |->  sb_start[self],
                                                                                               sb_offset |->  sb_offset[self],
                                                                                               sb_len    |->  sb_len[self],
                                                                                               sb_mode   |->  sb_mode[self],
                                                                                               sb_order  |->  sb_order[self],
                                                                                               sb_class  |->  sb_class[self],
                                                                                               sb_local  |->  sb_local[self] ] >>
                                                                                           \o stack[self]]
                                                   /\ sb_i' = [sb_i EXCEPT ![self] = 0]
                                                   /\ sb_idx' = [sb_idx EXCEPT ![self] = 0]
                                                   /\ sb_t' = [sb_t EXCEPT ![self] = TreeW(0, FALSE, 0)]
                                                   /\ sb_p' = [sb_p EXCEPT ![self] = Invalid]
                                                   /\ sb_best' = [sb_best EXCEPT ![self] = <<>>]
                                                   /\ sb_done' = [sb_done EXCEPT ![self] = FALSE]
                                                   /\ sb_k' = [sb_k EXCEPT ![self] = 0]
                                                   /\ pc' = [pc EXCEPT ![self] = "sb_begin"]
                                                   /\ UNCHANGED << gl_order, 
                                                                   gl_class, 
                                                                   gl_local, 
                                                                   gl_frame, 
                                                                   gl_sync, 
                                                                   gl_row, 
                                                                   gl_res, 
                                                                   gl_min, 
                                                                   gl_got >>
                             /\ rv' = rv
                  /\ UNCHANGED << mem, held, results, inflight, panicked, hid, 
                                  lastop, dp_why, tu_loc, tu_fn, tu_arg, 
                                  tu_prev, tu_next, tu_done, tu_ok, tu_seen, 
                                  lg_row, lg_order, lg_tree, lg_off, lg_j, 
                                  lg_i, lg_h, lg_found, lg_frame, lg_n, ca_h0, 
                                  ca_num, ca_cur, ca_new, ca_i, ca_ok, ca_seen, 
                                  ca_j, sf_h, sf_start, sf_order, sf_i, sf_r, 
                                  sf_found, sf_off, sf_nrows, sf_c, sf_k, sf_v, 
                                  sf_zero, sf_ok, sf_seen, sf_u, tg_h, tg_off, 
                                  tg_order, tg_exp, tg_ok, tg_i, tg_n, tg_seen, 
                                  tg_u, tg_r0, la_frame, la_order, la_h, 
                                  ps_frame, ps_order, lp_frame, lp_order, lp_h, 
                                  lp_old, lp_ok, lp_seen, lp_spin, lp_v, tp_t, 
                                  tp_n, tu2_t, tu2_free, tu2_class, sg_i, 
                                  sg_class, sg_order, sg_frame, sg_c, rs_i, 
                                  rs_order, rs_class, rs_local, rs_reserved, 
                                  rs_free, rs_tc, rs_frame, rs_old, sl_class, 
                                  sl_local, sl_order, sl_frame, sl_i, sl_tc, 
                                  sl_j, sl_found, sl_row, sl_jj, dl_class, 
                                  dl_local, dl_order, dl_frame, dl_i, dl_tc, 
                                  dl_j, dl_found, dl_new, dl_old, dl_jj, 
                                  dl_oldclass, ag_order, ag_class, ag_local, 
                                  ag_frame, ag_near, ap_frame, ap_order, 
                                  ap_class, ap_local, ad_c, ad_k, ad_old, cg_t, 
                                  cg_mclass, cg_mfree, cg_cclass, cg_cop, 
                                  cg_prev, cg_done, cg_fetched, cg_h, cg_v, 
                                  cg_next, cg_ok, cg_seen, ac_id, ac_mclass, 
                                  ac_mfree, ac_cclass, ac_cop, ac_i, ac_done, 
                                  pcx, cur, blk >>

Lbl_9(self) == /\ pc[self] = "Lbl_9"
               /\ pc' = [pc EXCEPT ![self] = Head(stack[self]).pc]
               /\ ag_len' = [ag_len EXCEPT ![self] = Head(stack[self]).ag_len]
               /\ ag_start' = [ag_start EXCEPT ![self] = Head(stack[self]).ag_start]
               /\ ag_near' = [ag_near EXCEPT ![self] = Head(stack[self]).ag_near]
               /\ ag_done' = [ag_done EXCEPT ![self] = Head(stack[self]).ag_done]
               /\ ag_order' = [ag_order EXCEPT ![self] = Head(stack[self]).ag_order]
               /\ ag_class' = [ag_class EXCEPT ![self] = Head(stack[self]).ag_class]
               /\ ag_local' = [ag_local EXCEPT ![self] = Head(stack[self]).ag_local]
               /\ ag_frame' = [ag_frame EXCEPT ![self] = Head(stack[self]).ag_frame]
               /\ stack' = [stack EXCEPT ![self] = Tail(stack[self])]
               /\ UNCHANGED << mem, held, results, inflight, rv, panicked, hid, 
                               lastop, dp_why, tu_loc, tu_fn, tu_arg, tu_prev, 
                               tu_next, tu_done, tu_ok, tu_seen, lg_row, 
                               lg_order, lg_tree, lg_off, lg_j, lg_i, lg_h, 
                               lg_found, lg_frame, lg_n, ca_h0, ca_num, ca_cur, 
                               ca_new, ca_i, ca_ok, ca_seen, ca_j, sf_h, 
                               sf_start, sf_order, sf_i, sf_r, sf_found, 
                               sf_off, sf_nrows, sf_c, sf_k, sf_v, sf_zero, 
                               sf_ok, sf_seen, sf_u, tg_h, tg_off, tg_order, 
                               tg_exp, tg_ok, tg_i, tg_n, tg_seen, tg_u, tg_r0, 
                               la_frame, la_order, la_h, ps_frame, ps_order, 
                               lp_frame, lp_order, lp_h, lp_old, lp_ok, 
                               lp_seen, lp_spin, lp_v, tp_t, tp_n, tu2_t, 
                               tu2_free, tu2_class, gl_order, gl_class, 
                               gl_local, gl_frame, gl_sync, gl_row, gl_res, 
                               gl_min, gl_got, sg_i, sg_class, sg_order, 
                               sg_frame, sg_c, rs_i, rs_order, rs_class, 
                               rs_local, rs_reserved, rs_free, rs_tc, rs_frame, 
                               rs_old, sb_n, sb_start, sb_offset, sb_len, 
                               sb_mode, sb_order, sb_class, sb_local, sb_i, 
                               sb_idx, sb_t, sb_p, sb_best, sb_done, sb_k, 
                               sl_class, sl_local, sl_order, sl_frame, sl_i, 
                               sl_tc, sl_j, sl_found, sl_row, sl_jj, dl_class, 
                               dl_local, dl_order, dl_frame, dl_i, dl_tc, dl_j, 
                               dl_found, dl_new, dl_old, dl_jj, dl_oldclass, 
                               ap_frame, ap_order, ap_class, ap_local, ad_c, 
                               ad_k, ad_old, cg_t, cg_mclass, cg_mfree, 
                               cg_cclass, cg_cop, cg_prev, cg_done, cg_fetched, 
                               cg_h, cg_v, cg_next, cg_ok, cg_seen, ac_id, 
                               ac_mclass, ac_mfree, ac_cclass, ac_cop, ac_i, 
                               ac_done, pcx, cur, blk >>

ag_at_global(self) == /\ pc[self] = "ag_at_global"
                      /\ IF ~ag_done[self]
                            THEN /\ /\ sg_class' = [sg_class EXCEPT ![self] = ag_class[self]]
                                    /\ sg_frame' = [sg_frame EXCEPT ![self] = ag_frame[self]]
                                    /\ sg_i' = [sg_i EXCEPT ![self] = TreeOfFrame(ag_frame[self])]
                                    /\ sg_order' = [sg_order EXCEPT ![self] = ag_order[self]]
                                    /\ stack' = [stack EXCEPT ![self] = << [ procedure |->  "steal_global",
                                                                             pc        |->  "ag_at_global_r",
                                                                             sg_c      |->  sg_c[self],
                                                                             sg_i      |->  sg_i[self],
                                                                             sg_class  |->  sg_class[self],
                                                                             sg_order  |->  sg_order[self],
                                                                             sg_frame  |->  sg_frame[self] ] >>
                                                                         \o stack[self]]
                                 /\ sg_c' = [sg_c EXCEPT ![self] = 0]
                                 /\ pc' = [pc EXCEPT ![self] = "sg_begin"]
                            ELSE /\ pc' = [pc EXCEPT ![self] = "ag_at_steal"]
                                 /\ UNCHANGED << stack, sg_i, sg_class, 
                                                 sg_order, sg_frame, sg_c >>
                      /\ UNCHANGED << mem, held, results, inflight, rv, 
                                      panicked, hid, lastop, dp_why, tu_loc, 
                                      tu_fn, tu_arg, tu_prev, tu_next, tu_done, 
                                      tu_ok, tu_seen, lg_row, lg_order, 
                                      lg_tree, lg_off, lg_j, lg_i, lg_h, 
                                      lg_found, lg_frame, lg_n, ca_h0, ca_num, 
                                      ca_cur, ca_new, ca_i, ca_ok, ca_seen, 
                                      ca_j, sf_h, sf_start, sf_order, sf_i, 
                                      sf_r, sf_found, sf_off, sf_nrows, sf_c, 
                                      sf_k, sf_v, sf_zero, sf_ok, sf_seen, 
                                      sf_u, tg_h, tg_off, tg_order, tg_exp, 
                                      tg_ok, tg_i, tg_n, tg_seen, tg_u, tg_r0, 
                                      la_frame, la_order, la_h, ps_frame, 
                                      ps_order, lp_frame, lp_order, lp_h, 
                                      lp_old, lp_ok, lp_seen, lp_spin, lp_v, 
                                      tp_t, tp_n, tu2_t, tu2_free, tu2_class, 
                                      gl_order, gl_class, gl_local, gl_frame, 
                                      gl_sync, gl_row, gl_res, gl_min, gl_got, 
                                      rs_i, rs_order, rs_class, rs_local, 
                                      rs_reserved, rs_free, rs_tc, rs_frame, 
                                      rs_old, sb_n, sb_start, sb_offset, 
                                      sb_len, sb_mode, sb_order, sb_class, 
                                      sb_local, sb_i, sb_idx, sb_t, sb_p, 
                                      sb_best, sb_done, sb_k, sl_class, 
                                      sl_local, sl_order, sl_frame, sl_i, 
                                      sl_tc, sl_j, sl_found, sl_row, sl_jj, 
                                      dl_class, dl_local, dl_order, dl_frame, 
                                      dl_i, dl_tc, dl_j, dl_found, dl_new, 
                                      dl_old, dl_jj, dl_oldclass, ag_order, 
                                      ag_class, ag_local, ag_frame, ag_len, 
                                      ag_start, ag_near, ag_done, ap_frame, 
                                      ap_order, ap_class, ap_local, ad_c, ad_k, 
                                      ad_old, cg_t, cg_mclass, cg_mfree, 
                                      cg_cclass, cg_cop, cg_prev, cg_done, 
                                      cg_fetched, cg_h, cg_v, cg_next, cg_ok, 
                                      cg_seen, ac_id, ac_mclass, ac_mfree, 
                                      ac_cclass, ac_cop, ac_i, ac_done, pcx, 
                                      cur, blk >>

ag_at_global_r(self) == /\ pc[self] = "ag_at_global_r"
                        /\ IF rv[self].ok
                              THEN /\ ag_done' = [ag_done EXCEPT ![self] = TRUE]
                              ELSE /\ TRUE
                                   /\ UNCHANGED ag_done
                        /\ pc' = [pc EXCEPT ![self] = "ag_at_steal"]
                        /\ UNCHANGED << mem, held, results, inflight, rv, 
                                        panicked, hid, lastop, stack, dp_why, 
                                        tu_loc, tu_fn, tu_arg, tu_prev, 
                                        tu_next, tu_done, tu_ok, tu_seen, 
                                        lg_row, lg_order, lg_tree, lg_off, 
                                        lg_j, lg_i, lg_h, lg_found, lg_frame, 
                                        lg_n, ca_h0, ca_num, ca_cur, ca_new, 
                                        ca_i, ca_ok, ca_seen, ca_j, sf_h, 
                                        sf_start, sf_order, sf_i, sf_r, 
                                        sf_found, sf_off, sf_nrows, sf_c, sf_k, 
                                        sf_v, sf_zero, sf_ok, sf_seen, sf_u, 
                                        tg_h, tg_off, tg_order, tg_exp, tg_ok, 
                                        tg_i, tg_n, tg_seen, tg_u, tg_r0, 
                                        la_frame, la_order, la_h, ps_frame, 
                                        ps_order, lp_frame, lp_order, lp_h, 
                                        lp_old, lp_ok, lp_seen, lp_spin, lp_v, 
                                        tp_t, tp_n, tu2_t, tu2_free, tu2_class, 
                                        gl_order, gl_class, gl_local, gl_frame, 
                                        gl_sync, gl_row, gl_res, gl_min, 
                                        gl_got, sg_i, sg_class, sg_order, 
                                        sg_frame, sg_c, rs_i, rs_order, 
                                        rs_class, rs_local, rs_reserved, 
                                        rs_free, rs_tc, rs_frame, rs_old, sb_n, 
                                        sb_start, sb_offset, sb_len, sb_mode, 
                                        sb_order, sb_class, sb_local, sb_i, 
                                        sb_idx, sb_t, sb_p, sb_best, sb_done, 
                                        sb_k, sl_class, sl_local, sl_order, 
                                        sl_frame, sl_i, sl_tc, sl_j, sl_found, 
                                        sl_row, sl_jj, dl_class, dl_local, 
                                        dl_order, dl_frame, dl_i, dl_tc, dl_j, 
                                        dl_found, dl_new, dl_old, dl_jj, 
                                        dl_oldclass, ag_order, ag_class, 
                                        ag_local, ag_frame, ag_len, ag_start, 
                                        ag_near, ap_frame, ap_order, ap_class, 
                                        ap_local, ad_c, ad_k, ad_old, cg_t, 
                                        cg_mclass, cg_mfree, cg_cclass, cg_cop, 
                                        cg_prev, cg_done, cg_fetched, cg_h, 
                                        cg_v, cg_next, cg_ok, cg_seen, ac_id, 
                                        ac_mclass, ac_mfree, ac_cclass, ac_cop, 
                                        ac_i, ac_done, pcx, cur, blk >>

ag_at_steal(self) == /\ pc[self] = "ag_at_steal"
                     /\ IF ~ag_done[self]
                           THEN /\ /\ sl_class' = [sl_class EXCEPT ![self] = ag_class[self]]
                                   /\ sl_frame' = [sl_frame EXCEPT ![self] = ag_frame[self]]
                                   /\ sl_local' = [sl_local EXCEPT ![self] = ag_local[self]]
                                   /\ sl_order' = [sl_order EXCEPT ![self] = ag_order[self]]
                                   /\ stack' = [stack EXCEPT ![self] = << [ procedure |->  "steal_local",
                                                                            pc        |->  "ag_at_steal_r",
                                                                            sl_i      |->  sl_i[self],
                                                                            sl_tc     |->  sl_tc[self],
                                                                            sl_j      |->  sl_j[self],
                                                                            sl_found  |->  sl_found[self],
                                                                            sl_row    |->  sl_row[self],
                                                                            sl_jj     |->  sl_jj[self],
                                                                            sl_class  |->  sl_class[self],
                                                                            sl_local  |->  sl_local[self],
                                                                            sl_order  |->  sl_order[self],
                                                                            sl_frame  |->  sl_frame[self] ] >>
                                                                        \o stack[self]]
                                /\ sl_i' = [sl_i EXCEPT ![self] = 0]
                                /\ sl_tc' = [sl_tc EXCEPT ![self] = 0]
                                /\ sl_j' = [sl_j EXCEPT ![self] = 0]
                                /\ sl_found' = [sl_found EXCEPT ![self] = FALSE]
                                /\ sl_row' = [sl_row EXCEPT ![self] = 0]
                                /\ sl_jj' = [sl_jj EXCEPT ![self] = 0]
                                /\ pc' = [pc EXCEPT ![self] = "sl_begin"]
                           ELSE /\ pc' = [pc EXCEPT ![self] = "ag_at_demote"]
                                /\ UNCHANGED << stack, sl_class, sl_local, 
                                                sl_order, sl_frame, sl_i, 
                                                sl_tc, sl_j, sl_found, sl_row, 
                                                sl_jj >>
                     /\ UNCHANGED << mem, held, results, inflight, rv, 
                                     panicked, hid, lastop, dp_why, tu_loc, 
                                     tu_fn, tu_arg, tu_prev, tu_next, tu_done, 
                                     tu_ok, tu_seen, lg_row, lg_order, lg_tree, 
                                     lg_off, lg_j, lg_i, lg_h, lg_found, 
                                     lg_frame, lg_n, ca_h0, ca_num, ca_cur, 
                                     ca_new, ca_i, ca_ok, ca_seen, ca_j, sf_h, 
                                     sf_start, sf_order, sf_i, sf_r, sf_found, 
                                     sf_off, sf_nrows, sf_c, sf_k, sf_v, 
                                     sf_zero, sf_ok, sf_seen, sf_u, tg_h, 
                                     tg_off, tg_order, tg_exp, tg_ok, tg_i, 
                                     tg_n, tg_seen, tg_u, tg_r0, la_frame, 
                                     la_order, la_h, ps_frame, ps_order, 
                                     lp_frame, lp_order, lp_h, lp_old, lp_ok, 
                                     lp_seen, lp_spin, lp_v, tp_t, tp_n, tu2_t, 
                                     tu2_free, tu2_class, gl_order, gl_class, 
                                     gl_local, gl_frame, gl_sync, gl_row, 
                                     gl_res, gl_min, gl_got, sg_i, sg_class, 
                                     sg_order, sg_frame, sg_c, rs_i, rs_order, 
                                     rs_class, rs_local, rs_reserved, rs_free, 
                                     rs_tc, rs_frame, rs_old, sb_n, sb_start, 
                                     sb_offset, sb_len, sb_mode, sb_order, 
                                     sb_class, sb_local, sb_i, sb_idx, sb_t, 
                                     sb_p, sb_best, sb_done, sb_k, dl_class, 
                                     dl_local, dl_order, dl_frame, dl_i, dl_tc, 
                                     dl_j, dl_found, dl_new, dl_old, dl_jj, 
                                     dl_oldclass, ag_order, ag_class, ag_local, 
                                     ag_frame, ag_len, ag_start, ag_near, 
                                     ag_done, ap_frame, ap_order, ap_class, 
                                     ap_local, ad_c, ad_k, ad_old, cg_t, 
                                     cg_mclass, cg_mfree, cg_cclass, cg_cop, 
                                     cg_prev, cg_done, cg_fetched, cg_h, cg_v, 
                                     cg_next, cg_ok, cg_seen, ac_id, ac_mclass, 
                                     ac_mfree, ac_cclass, ac_cop, ac_i, 
                                     ac_done, pcx, cur, blk >>

ag_at_steal_r(self) == /\ pc[self] = "ag_at_steal_r"
                       /\ IF rv[self].ok
                             THEN /\ ag_done' = [ag_done EXCEPT ![self] = TRUE]
                             ELSE /\ TRUE
                                  /\ UNCHANGED ag_done
                       /\ pc' = [pc EXCEPT ![self] = "ag_at_demote"]
                       /\ UNCHANGED << mem, held, results, inflight, rv, 
                                       panicked, hid, lastop, stack, dp_why, 
                                       tu_loc, tu_fn, tu_arg, tu_prev, tu_next, 
                                       tu_done, tu_ok, tu_seen, lg_row, 
                                       lg_order, lg_tree, lg_off, lg_j, lg_i, 
                                       lg_h, lg_found, lg_frame, lg_n, ca_h0, 
                                       ca_num, ca_cur, ca_new, ca_i, ca_ok, 
                                       ca_seen, ca_j, sf_h, sf_start, sf_order, 
                                       sf_i, sf_r, sf_found, sf_off, sf_nrows, 
                                       sf_c, sf_k, sf_v, sf_zero, sf_ok, 
                                       sf_seen, sf_u, tg_h, tg_off, tg_order, 
                                       tg_exp, tg_ok, tg_i, tg_n, tg_seen, 
                                       tg_u, tg_r0, la_frame, la_order, la_h, 
                                       ps_frame, ps_order, lp_frame, lp_order, 
                                       lp_h, lp_old, lp_ok, lp_seen, lp_spin, 
                                       lp_v, tp_t, tp_n, tu2_t, tu2_free, 
                                       tu2_class, gl_order, gl_class, gl_local, 
                                       gl_frame, gl_sync, gl_row, gl_res, 
                                       gl_min, gl_got, sg_i, sg_class, 
                                       sg_order, sg_frame, sg_c, rs_i, 
                                       rs_order, rs_class, rs_local, 
                                       rs_reserved, rs_free, rs_tc, rs_frame, 
                                       rs_old, sb_n, sb_start, sb_offset, 
                                       sb_len, sb_mode, sb_order, sb_class, 
                                       sb_local, sb_i, sb_idx, sb_t, sb_p, 
                                       sb_best, sb_done, sb_k, sl_class, 
                                       sl_local, sl_order, sl_frame, sl_i, 
                                       sl_tc, sl_j, sl_found, sl_row, sl_jj, 
                                       dl_class, dl_local, dl_order, dl_frame, 
                                       dl_i, dl_tc, dl_j, dl_found, dl_new, 
                                       dl_old, dl_jj, dl_oldclass, ag_order, 
                                       ag_class, ag_local, ag_frame, ag_len, 
                                       ag_start, ag_near, ap_frame, ap_order, 
                                       ap_class, ap_local, ad_c, ad_k, ad_old, 
                                       cg_t, cg_mclass, cg_mfree, cg_cclass, 
                                       cg_cop, cg_prev, cg_done, cg_fetched, 
                                       cg_h, cg_v, cg_next, cg_ok, cg_seen, 
                                       ac_id, ac_mclass, ac_mfree, ac_cclass, 
                                       ac_cop, ac_i, ac_done, pcx, cur, blk >>

ag_at_demote(self) == /\ pc[self] = "ag_at_demote"
                      /\ IF ~ag_done[self]
                            THEN /\ /\ dl_class' = [dl_class EXCEPT ![self] = ag_class[self]]
                                    /\ dl_frame' = [dl_frame EXCEPT ![self] = ag_frame[self]]
                                    /\ dl_local' = [dl_local EXCEPT ![self] = ag_local[self]]
                                    /\ dl_order' = [dl_order EXCEPT ![self] = ag_order[self]]
                                    /\ stack' = [stack EXCEPT ![self] = << [ procedure |->  "demote_local",
                                                                             pc        |->  "ag_at_ret",
                                                                             dl_i      |->  dl_i[self],
                                                                             dl_tc     |->  dl_tc[self],
                                                                             dl_j      |->  dl_j[self],
                                                                             dl_found  |->  dl_found[self],
                                                                             dl_new    |->  dl_new[self],
                                                                             dl_old    |->  dl_old[self],
                                                                             dl_jj     |->  dl_jj[self],
                                                                             dl_oldclass |->  dl_oldclass[self],
                                                                             dl_class  |->  dl_class[self],
                                                                             dl_local  |->  dl_local[self],
                                                                             dl_order  |->  dl_order[self],
                                                                             dl_frame  |->  dl_frame[self] ] >>
                                                                         \o stack[self]]
                                 /\ dl_i' = [dl_i EXCEPT ![self] = 1]
                                 /\ dl_tc' = [dl_tc EXCEPT ![self] = 0]
                                 /\ dl_j' = [dl_j EXCEPT ![self] = 0]
                                 /\ dl_found' = [dl_found EXCEPT ![self] = FALSE]
                                 /\ dl_new' = [dl_new EXCEPT ![self] = SlotNone]
                                 /\ dl_old' = [dl_old EXCEPT ![self] = SlotNone]
                                 /\ dl_jj' = [dl_jj EXCEPT ![self] = 0]
                                 /\ dl_oldclass' = [dl_oldclass EXCEPT ![self] = 0]
                                 /\ pc' = [pc EXCEPT ![self] = "dl_begin"]
                            ELSE /\ pc' = [pc EXCEPT ![self] = "ag_at_ret"]
                                 /\ UNCHANGED << stack, dl_class, dl_local, 
                                                 dl_order, dl_frame, dl_i, 
                                                 dl_tc, dl_j, dl_found, dl_new, 
                                                 dl_old, dl_jj, dl_oldclass >>
                      /\ UNCHANGED << mem, held, results, inflight, rv, 
                                      panicked, hid, lastop, dp_why, tu_loc, 
                                      tu_fn, tu_arg, tu_prev, tu_next, tu_done, 
                                      tu_ok, tu_seen, lg_row, lg_order, 
                                      lg_tree, lg_off, lg_j, lg_i, lg_h, 
                                      lg_found, lg_frame, lg_n, ca_h0, ca_num, 
                                      ca_cur, ca_new, ca_i, ca_ok, ca_seen, 
                                      ca_j, sf_h, sf_start, sf_order, sf_i, 
                                      sf_r, sf_found, sf_off, sf_nrows, sf_c, 
                                      sf_k, sf_v, sf_zero, sf_ok, sf_seen, 
                                      sf_u, tg_h, tg_off, tg_order, tg_exp, 
                                      tg_ok, tg_i, tg_n, tg_seen, tg_u, tg_r0, 
                                      la_frame, la_order, la_h, ps_frame, 
                                      ps_order, lp_frame, lp_order, lp_h, 
                                      lp_old, lp_ok, lp_seen, lp_spin, lp_v, 
                                      tp_t, tp_n, tu2_t, tu2_free, tu2_class, 
                                      gl_order, gl_class, gl_local, gl_frame, 
                                      gl_sync, gl_row, gl_res, gl_min, gl_got, 
                                      sg_i, sg_class, sg_order, sg_frame, sg_c, 
                                      rs_i, rs_order, rs_class, rs_local, 
                                      rs_reserved, rs_free, rs_tc, rs_frame, 
                                      rs_old, sb_n, sb_start, sb_offset, 
                                      sb_len, sb_mode, sb_order, sb_class, 
                                      sb_local, sb_i, sb_idx, sb_t, sb_p, 
                                      sb_best, sb_done, sb_k, sl_class, 
                                      sl_local, sl_order, sl_frame, sl_i, 
                                      sl_tc, sl_j, sl_found, sl_row, sl_jj, 
                                      ag_order, ag_class, ag_local, ag_frame, 
                                      ag_len, ag_start, ag_near, ag_done, 
                                      ap_frame, ap_order, ap_class, ap_local, 
                                      ad_c, ad_k, ad_old, cg_t, cg_mclass, 
                                      cg_mfree, cg_cclass, cg_cop, cg_prev, 
                                      cg_done, cg_fetched, cg_h, cg_v, cg_next, 
                                      cg_ok, cg_seen, ac_id, ac_mclass, 
                                      ac_mfree, ac_cclass, ac_cop, ac_i, 
                                      ac_done, pcx, cur, blk >>

ag_at_ret(self) == /\ pc[self] = "ag_at_ret"
                   /\ pc' = [pc EXCEPT ![self] = Head(stack[self]).pc]
                   /\ ag_len' = [ag_len EXCEPT ![self] = Head(stack[self]).ag_len]
                   /\ ag_start' = [ag_start EXCEPT ![self] = Head(stack[self]).ag_start]
                   /\ ag_near' = [ag_near EXCEPT ![self] = Head(stack[self]).ag_near]
                   /\ ag_done' = [ag_done EXCEPT ![self] = Head(stack[self]).ag_done]
                   /\ ag_order' = [ag_order EXCEPT ![self] = Head(stack[self]).ag_order]
                   /\ ag_class' = [ag_class EXCEPT ![self] = Head(stack[self]).ag_class]
                   /\ ag_local' = [ag_local EXCEPT ![self] = Head(stack[self]).ag_local]
                   /\ ag_frame' = [ag_frame EXCEPT ![self] = Head(stack[self]).ag_frame]
                   /\ stack' = [stack EXCEPT ![self] = Tail(stack[self])]
                   /\ UNCHANGED << mem, held, results, inflight, rv, panicked, 
                                   hid, lastop, dp_why, tu_loc, tu_fn, tu_arg, 
                                   tu_prev, tu_next, tu_done, tu_ok, tu_seen, 
                                   lg_row, lg_order, lg_tree, lg_off, lg_j, 
                                   lg_i, lg_h, lg_found, lg_frame, lg_n, ca_h0, 
                                   ca_num, ca_cur, ca_new, ca_i, ca_ok, 
                                   ca_seen, ca_j, sf_h, sf_start, sf_order, 
                                   sf_i, sf_r, sf_found, sf_off, sf_nrows, 
                                   sf_c, sf_k, sf_v, sf_zero, sf_ok, sf_seen, 
                                   sf_u, tg_h, tg_off, tg_order, tg_exp, tg_ok, 
                                   tg_i, tg_n, tg_seen, tg_u, tg_r0, la_frame, 
                                   la_order, la_h, ps_frame, ps_order, 
                                   lp_frame, lp_order, lp_h, lp_old, lp_ok, 
                                   lp_seen, lp_spin, lp_v, tp_t, tp_n, tu2_t, 
                                   tu2_free, tu2_class, gl_order, gl_class, 
                                   gl_local, gl_frame, gl_sync, gl_row, gl_res, 
                                   gl_min, gl_got, sg_i, sg_class, sg_order, 
                                   sg_frame, sg_c, rs_i, rs_order, rs_class, 
                                   rs_local, rs_reserved, rs_free, rs_tc, 
                                   rs_frame, rs_old, sb_n, sb_start, sb_offset, 
                                   sb_len, sb_mode, sb_order, sb_class, 
                                   sb_local, sb_i, sb_idx, sb_t, sb_p, sb_best, 
                                   sb_done, sb_k, sl_class, sl_local, sl_order, 
                                   sl_frame, sl_i, sl_tc, sl_j, sl_found, 
                                   sl_row, sl_jj, dl_class, dl_local, dl_order, 
                                   dl_frame, dl_i, dl_tc, dl_j, dl_found, 
                                   dl_new, dl_old, dl_jj, dl_oldclass, 
                                   ap_frame, ap_order, ap_class, ap_local, 
                                   ad_c, ad_k, ad_old, cg_t, cg_mclass, 
                                   cg_mfree, cg_cclass, cg_cop, cg_prev, 
                                   cg_done, cg_fetched, cg_h, cg_v, cg_next, 
                                   cg_ok, cg_seen, ac_id, ac_mclass, ac_mfree, 
                                   ac_cclass, ac_cop, ac_i, ac_done, pcx, cur, 
                                   blk >>

ag_oom1(self) == /\ pc[self] = "ag_oom1"
                 /\ IF ~ag_done[self]
                       THEN /\ /\ sl_class' = [sl_class EXCEPT ![self] = ag_class[self]]
                               /\ sl_frame' = [sl_frame EXCEPT ![self] = -1]
                               /\ sl_local' = [sl_local EXCEPT ![self] = ag_local[self]]
                               /\ sl_order' = [sl_order EXCEPT ![self] = ag_order[self]]
                               /\ stack' = [stack EXCEPT ![self] = << [ procedure |->  "steal_local",
                                                                        pc        |->  "ag_oom1_r",
                                                                        sl_i      |->  sl_i[self],
                                                                        sl_tc     |->  sl_tc[self],
                                                                        sl_j      |->  sl_j[self],
                                                                        sl_found  |->  sl_found[self],
                                                                        sl_row    |->  sl_row[self],
                                                                        sl_jj     |->  sl_jj[self],
                                                                        sl_class  |->  sl_class[self],
                                                                        sl_local  |->  sl_local[self],
                                                                        sl_order  |->  sl_order[self],
                                                                        sl_frame  |->  sl_frame[self] ] >>
                                                                    \o stack[self]]
                            /\ sl_i' = [sl_i EXCEPT ![self] = 0]
                            /\ sl_tc' = [sl_tc EXCEPT ![self] = 0]
                            /\ sl_j' = [sl_j EXCEPT ![self] = 0]
                            /\ sl_found' = [sl_found EXCEPT ![self] = FALSE]
                            /\ sl_row' = [sl_row EXCEPT ![self] = 0]
                            /\ sl_jj' = [sl_jj EXCEPT ![self] = 0]
                            /\ pc' = [pc EXCEPT ![self] = "sl_begin"]
                       ELSE /\ pc' = [pc EXCEPT ![self] = "ag_oom2"]
                            /\ UNCHANGED << stack, sl_class, sl_local, 
                                            sl_order, sl_frame, sl_i, sl_tc, 
                                            sl_j, sl_found, sl_row, sl_jj >>
                 /\ UNCHANGED << mem, held, results, inflight, rv, panicked, 
                                 hid, lastop, dp_why, tu_loc, tu_fn, tu_arg, 
                                 tu_prev, tu_next, tu_done, tu_ok, tu_seen, 
                                 lg_row, lg_order, lg_tree, lg_off, lg_j, lg_i, 
                                 lg_h, lg_found, lg_frame, lg_n, ca_h0, ca_num, 
                                 ca_cur, ca_new, ca_i, ca_ok, ca_seen, ca_j, 
                                 sf_h, sf_start, sf_order, sf_i, sf_r, 
                                 sf_found, sf_off, sf_nrows, sf_c, sf_k, sf_v, 
                                 sf_zero, sf_ok, sf_seen, sf_u, tg_h, tg_off, 
                                 tg_order, tg_exp, tg_ok, tg_i, tg_n, tg_seen, 
                                 tg_u, tg_r0, la_frame, la_order, la_h, 
                                 ps_frame, ps_order, lp_frame, lp_order, lp_h, 
                                 lp_old, lp_ok, lp_seen, lp_spin, lp_v, tp_t, 
                                 tp_n, tu2_t, tu2_free, tu2_class, gl_order, 
                                 gl_class, gl_local, gl_frame, gl_sync, gl_row, 
                                 gl_res, gl_min, gl_got, sg_i, sg_class, 
                                 sg_order, sg_frame, sg_c, rs_i, rs_order, 
                                 rs_class, rs_local, rs_reserved, rs_free, 
                                 rs_tc, rs_frame, rs_old, sb_n, sb_start, 
                                 sb_offset, sb_len, sb_mode, sb_order, 
                                 sb_class, sb_local, sb_i, sb_idx, sb_t, sb_p, 
                                 sb_best, sb_done, sb_k, dl_class, dl_local, 
                                 dl_order, dl_frame, dl_i, dl_tc, dl_j, 
                                 dl_found, dl_new, dl_old, dl_jj, dl_oldclass, 
                                 ag_order, ag_class, ag_local, ag_frame, 
                                 ag_len, ag_start, ag_near, ag_done, ap_frame, 
                                 ap_order, ap_class, ap_local, ad_c, ad_k, 
                                 ad_old, cg_t, cg_mclass, cg_mfree, cg_cclass, 
                                 cg_cop, cg_prev, cg_done, cg_fetched, cg_h, 
                                 cg_v, cg_next, cg_ok, cg_seen, ac_id, 
                                 ac_mclass, ac_mfree, ac_cclass, ac_cop, ac_i, 
                                 ac_done, pcx, cur, blk >>

ag_oom1_r(self) == /\ pc[self] = "ag_oom1_r"
                   /\ IF rv[self].ok
                         THEN /\ ag_done' = [ag_done EXCEPT ![self] = TRUE]
                         ELSE /\ TRUE
                              /\ UNCHANGED ag_done
                   /\ pc' = [pc EXCEPT ![self] = "ag_oom2"]
                   /\ UNCHANGED << mem, held, results, inflight, rv, panicked, 
                                   hid, lastop, stack, dp_why, tu_loc, tu_fn, 
                                   tu_arg, tu_prev, tu_next, tu_done, tu_ok, 
                                   tu_seen, lg_row, lg_order, lg_tree, lg_off, 
                                   lg_j, lg_i, lg_h, lg_found, lg_frame, lg_n, 
                                   ca_h0, ca_num, ca_cur, ca_new, ca_i, ca_ok, 
                                   ca_seen, ca_j, sf_h, sf_start, sf_order, 
                                   sf_i, sf_r, sf_found, sf_off, sf_nrows, 
                                   sf_c, sf_k, sf_v, sf_zero, sf_ok, sf_seen, 
                                   sf_u, tg_h, tg_off, tg_order, tg_exp, tg_ok, 
                                   tg_i, tg_n, tg_seen, tg_u, tg_r0, la_frame, 
                                   la_order, la_h, ps_frame, ps_order, 
                                   lp_frame, lp_order, lp_h, lp_old, lp_ok, 
                                   lp_seen, lp_spin, lp_v, tp_t, tp_n, tu2_t, 
                                   tu2_free, tu2_class, gl_order, gl_class, 
                                   gl_local, gl_frame, gl_sync, gl_row, gl_res, 
                                   gl_min, gl_got, sg_i, sg_class, sg_order, 
                                   sg_frame, sg_c, rs_i, rs_order, rs_class, 
                                   rs_local, rs_reserved, rs_free, rs_tc, 
                                   rs_frame, rs_old, sb_n, sb_start, sb_offset, 
                                   sb_len, sb_mode, sb_order, sb_class, 
                                   sb_local, sb_i, sb_idx, sb_t, sb_p, sb_best, 
                                   sb_done, sb_k, sl_class, sl_local, sl_order, 
                                   sl_frame, sl_i, sl_tc, sl_j, sl_found, 
                                   sl_row, sl_jj, dl_class, dl_local, dl_order, 
                                   dl_frame, dl_i, dl_tc, dl_j, dl_found, 
                                   dl_new, dl_old, dl_jj, dl_oldclass, 
                                   ag_order, ag_class, ag_local, ag_frame, 
                                   ag_len, ag_start, ag_near, ap_frame, 
                                   ap_order, ap_class, ap_local, ad_c, ad_k, 
                                   ad_old, cg_t, cg_mclass, cg_mfree, 
                                   cg_cclass, cg_cop, cg_prev, cg_done, 
                                   cg_fetched, cg_h, cg_v, cg_next, cg_ok, 
                                   cg_seen, ac_id, ac_mclass, ac_mfree, 
                                   ac_cclass, ac_cop, ac_i, ac_done, pcx, cur, 
                                   blk >>

ag_oom2(self) == /\ pc[self] = "ag_oom2"
                 /\ IF ~ag_done[self]
                       THEN /\ /\ dl_class' = [dl_class EXCEPT ![self] = ag_class[self]]
                               /\ dl_frame' = [dl_frame EXCEPT ![self] = -1]
                               /\ dl_local' = [dl_local EXCEPT ![self] = ag_local[self]]
                               /\ dl_order' = [dl_order EXCEPT ![self] = ag_order[self]]
                               /\ stack' = [stack EXCEPT ![self] = << [ procedure |->  "demote_local",
                                                                        pc        |->  "ag_ret",
                                                                        dl_i      |->  dl_i[self],
                                                                        dl_tc     |->  dl_tc[self],
                                                                        dl_j      |->  dl_j[self],
                                                                        dl_found  |->  dl_found[self],
                                                                        dl_new    |->  dl_new[self],
                                                                        dl_old    |->  dl_old[self],
                                                                        dl_jj     |->  dl_jj[self],
                                                                        dl_oldclass |->  dl_oldclass[self],
                                                                        dl_class  |->  dl_class[self],
                                                                        dl_local  |->  dl_local[self],
                                                                        dl_order  |->  dl_order[self],
                                                                        dl_frame  |->  dl_frame[self] ] >>
                                                                    \o stack[self]]
                            /\ dl_i' = [dl_i EXCEPT ![self] = 1]
                            /\ dl_tc' = [dl_tc EXCEPT ![self] = 0]
                            /\ dl_j' = [dl_j EXCEPT ![self] = 0]
                            /\ dl_found' = [dl_found EXCEPT ![self] = FALSE]
                            /\ dl_new' = [dl_new EXCEPT ![self] = SlotNone]
                            /\ dl_old' = [dl_old EXCEPT ![self] = SlotNone]
                            /\ dl_jj' = [dl_jj EXCEPT ![self] = 0]
                            /\ dl_oldclass' = [dl_oldclass EXCEPT ![self] = 0]
                            /\ pc' = [pc EXCEPT ![self] = "dl_begin"]
                       ELSE /\ pc' = [pc EXCEPT ![self] = "ag_ret"]
                            /\ UNCHANGED << stack, dl_class, dl_local, 
                                            dl_order, dl_frame, dl_i, dl_tc, 
                                            dl_j, dl_found, dl_new, dl_old, 
                                            dl_jj, dl_oldclass >>
                 /\ UNCHANGED << mem, held, results, inflight, rv, panicked, 
                                 hid, lastop, dp_why, tu_loc, tu_fn, tu_arg, 
                                 tu_prev, tu_next, tu_done, tu_ok, tu_seen, 
                                 lg_row, lg_order, lg_tree, lg_off, lg_j, lg_i, 
                                 lg_h, lg_found, lg_frame, lg_n, ca_h0, ca_num, 
                                 ca_cur, ca_new, ca_i, ca_ok, ca_seen, ca_j, 
                                 sf_h, sf_start, sf_order, sf_i, sf_r, 
                                 sf_found, sf_off, sf_nrows, sf_c, sf_k, sf_v, 
                                 sf_zero, sf_ok, sf_seen, sf_u, tg_h, tg_off, 
                                 tg_order, tg_exp, tg_ok, tg_i, tg_n, tg_seen, 
                                 tg_u, tg_r0, la_frame, la_order, la_h, 
                                 ps_frame, ps_order, lp_frame, lp_order, lp_h, 
                                 lp_old, lp_ok, lp_seen, lp_spin, lp_v, tp_t, 
                                 tp_n, tu2_t, tu2_free, tu2_class, gl_order, 
                                 gl_class, gl_local, gl_frame, gl_sync, gl_row, 
                                 gl_res, gl_min, gl_got, sg_i, sg_class, 
                                 sg_order, sg_frame, sg_c, rs_i, rs_order, 
                                 rs_class, rs_local, rs_reserved, rs_free, 
                                 rs_tc, rs_frame, rs_old, sb_n, sb_start, 
                                 sb_offset, sb_len, sb_mode, sb_order, 
                                 sb_class, sb_local, sb_i, sb_idx, sb_t, sb_p, 
                                 sb_best, sb_done, sb_k, sl_class, sl_local, 
                                 sl_order, sl_frame, sl_i, sl_tc, sl_j, 
                                 sl_found, sl_row, sl_jj, ag_order, ag_class, 
                                 ag_local, ag_frame, ag_len, ag_start, ag_near, 
                                 ag_done, ap_frame, ap_order, ap_class, 
                                 ap_local, ad_c, ad_k, ad_old, cg_t, cg_mclass, 
                                 cg_mfree, cg_cclass, cg_cop, cg_prev, cg_done, 
                                 cg_fetched, cg_h, cg_v, cg_next, cg_ok, 
                                 cg_seen, ac_id, ac_mclass, ac_mfree, 
                                 ac_cclass, ac_cop, ac_i, ac_done, pcx, cur, 
                                 blk >>

ag_ret(self) == /\ pc[self] = "ag_ret"
                /\ pc' = [pc EXCEPT ![self] = Head(stack[self]).pc]
                /\ ag_len' = [ag_len EXCEPT ![self] = Head(stack[self]).ag_len]
                /\ ag_start' = [ag_start EXCEPT ![self] = Head(stack[self]).ag_start]
                /\ ag_near' = [ag_near EXCEPT ![self] = Head(stack[self]).ag_near]
                /\ ag_done' = [ag_done EXCEPT ![self] = Head(stack[self]).ag_done]
                /\ ag_order' = [ag_order EXCEPT ![self] = Head(stack[self]).ag_order]
                /\ ag_class' = [ag_class EXCEPT ![self] = Head(stack[self]).ag_class]
                /\ ag_local' = [ag_local EXCEPT ![self] = Head(stack[self]).ag_local]
                /\ ag_frame' = [ag_frame EXCEPT ![self] = Head(stack[self]).ag_frame]
                /\ stack' = [stack EXCEPT ![self] = Tail(stack[self])]
                /\ UNCHANGED << mem, held, results, inflight, rv, panicked, 
                                hid, lastop, dp_why, tu_loc, tu_fn, tu_arg, 
                                tu_prev, tu_next, tu_done, tu_ok, tu_seen, 
                                lg_row, lg_order, lg_tree, lg_off, lg_j, lg_i, 
                                lg_h, lg_found, lg_frame, lg_n, ca_h0, ca_num, 
                                ca_cur, ca_new, ca_i, ca_ok, ca_seen, ca_j, 
                                sf_h, sf_start, sf_order, sf_i, sf_r, sf_found, 
                                sf_off, sf_nrows, sf_c, sf_k, sf_v, sf_zero, 
                                sf_ok, sf_seen, sf_u, tg_h, tg_off, tg_order, 
                                tg_exp, tg_ok, tg_i, tg_n, tg_seen, tg_u, 
                                tg_r0, la_frame, la_order, la_h, ps_frame, 
                                ps_order, lp_frame, lp_order, lp_h, lp_old, 
                                lp_ok, lp_seen, lp_spin, lp_v, tp_t, tp_n, 
                                tu2_t, tu2_free, tu2_class, gl_order, gl_class, 
                                gl_local, gl_frame, gl_sync, gl_row, gl_res, 
                                gl_min, gl_got, sg_i, sg_class, sg_order, 
                                sg_frame, sg_c, rs_i, rs_order, rs_class, 
                                rs_local, rs_reserved, rs_free, rs_tc, 
                                rs_frame, rs_old, sb_n, sb_start, sb_offset, 
                                sb_len, sb_mode, sb_order, sb_class, sb_local, 
                                sb_i, sb_idx, sb_t, sb_p, sb_best, sb_done, 
                                sb_k, sl_class, sl_local, sl_order, sl_frame, 
                                sl_i, sl_tc, sl_j, sl_found, sl_row, sl_jj, 
                                dl_class, dl_local, dl_order, dl_frame, dl_i, 
                                dl_tc, dl_j, dl_found, dl_new, dl_old, dl_jj, 
                                dl_oldclass, ap_frame, ap_order, ap_class, 
                                ap_local, ad_c, ad_k, ad_old, cg_t, cg_mclass, 
                                cg_mfree, cg_cclass, cg_cop, cg_prev, cg_done, 
                                cg_fetched, cg_h, cg_v, cg_next, cg_ok, 
                                cg_seen, ac_id, ac_mclass, ac_mfree, ac_cclass, 
                                ac_cop, ac_i, ac_done, pcx, cur, blk >>

ag_at_local_r(self) == /\ pc[self] = "ag_at_local_r"
                       /\ IF rv[self].ok
                             THEN /\ ag_done' = [ag_done EXCEPT ![self] = TRUE]
                             ELSE /\ TRUE
                                  /\ UNCHANGED ag_done
                       /\ pc' = [pc EXCEPT ![self] = "ag_at_global"]
                       /\ UNCHANGED << mem, held, results, inflight, rv, 
                                       panicked, hid, lastop, stack, dp_why, 
                                       tu_loc, tu_fn, tu_arg, tu_prev, tu_next, 
                                       tu_done, tu_ok, tu_seen, lg_row, 
                                       lg_order, lg_tree, lg_off, lg_j, lg_i, 
                                       lg_h, lg_found, lg_frame, lg_n, ca_h0, 
                                       ca_num, ca_cur, ca_new, ca_i, ca_ok, 
                                       ca_seen, ca_j, sf_h, sf_start, sf_order, 
                                       sf_i, sf_r, sf_found, sf_off, sf_nrows, 
                                       sf_c, sf_k, sf_v, sf_zero, sf_ok, 
                                       sf_seen, sf_u, tg_h, tg_off, tg_order, 
                                       tg_exp, tg_ok, tg_i, tg_n, tg_seen, 
                                       tg_u, tg_r0, la_frame, la_order, la_h, 
                                       ps_frame, ps_order, lp_frame, lp_order, 
                                       lp_h, lp_old, lp_ok, lp_seen, lp_spin, 
                                       lp_v, tp_t, tp_n, tu2_t, tu2_free, 
                                       tu2_class, gl_order, gl_class, gl_local, 
                                       gl_frame, gl_sync, gl_row, gl_res, 
                                       gl_min, gl_got, sg_i, sg_class, 
                                       sg_order, sg_frame, sg_c, rs_i, 
                                       rs_order, rs_class, rs_local, 
                                       rs_reserved, rs_free, rs_tc, rs_frame, 
                                       rs_old, sb_n, sb_start, sb_offset, 
                                       sb_len, sb_mode, sb_order, sb_class, 
                                       sb_local, sb_i, sb_idx, sb_t, sb_p, 
                                       sb_best, sb_done, sb_k, sl_class, 
                                       sl_local, sl_order, sl_frame, sl_i, 
                                       sl_tc, sl_j, sl_found, sl_row, sl_jj, 
                                       dl_class, dl_local, dl_order, dl_frame, 
                                       dl_i, dl_tc, dl_j, dl_found, dl_new, 
                                       dl_old, dl_jj, dl_oldclass, ag_order, 
                                       ag_class, ag_local, ag_frame, ag_len, 
                                       ag_start, ag_near, ap_frame, ap_order, 
                                       ap_class, ap_local, ad_c, ad_k, ad_old, 
                                       cg_t, cg_mclass, cg_mfree, cg_cclass, 
                                       cg_cop, cg_prev, cg_done, cg_fetched, 
                                       cg_h, cg_v, cg_next, cg_ok, cg_seen, 
                                       ac_id, ac_mclass, ac_mfree, ac_cclass, 
                                       ac_cop, ac_i, ac_done, pcx, cur, blk >>

ag_local_r(self) == /\ pc[self] = "ag_local_r"
                    /\ IF rv[self].ok
                          THEN /\ ag_done' = [ag_done EXCEPT ![self] = TRUE]
                               /\ UNCHANGED ag_start
                          ELSE /\ IF rv[self].tree # -1
                                     THEN /\ ag_start' = [ag_start EXCEPT ![self] = rv[self].tree]
                                     ELSE /\ TRUE
                                          /\ UNCHANGED ag_start
                               /\ UNCHANGED ag_done
                    /\ pc' = [pc EXCEPT ![self] = "ag_reserve"]
                    /\ UNCHANGED << mem, held, results, inflight, rv, panicked, 
                                    hid, lastop, stack, dp_why, tu_loc, tu_fn, 
                                    tu_arg, tu_prev, tu_next, tu_done, tu_ok, 
                                    tu_seen, lg_row, lg_order, lg_tree, lg_off, 
                                    lg_j, lg_i, lg_h, lg_found, lg_frame, lg_n, 
                                    ca_h0, ca_num, ca_cur, ca_new, ca_i, ca_ok, 
                                    ca_seen, ca_j, sf_h, sf_start, sf_order, 
                                    sf_i, sf_r, sf_found, sf_off, sf_nrows, 
                                    sf_c, sf_k, sf_v, sf_zero, sf_ok, sf_seen, 
                                    sf_u, tg_h, tg_off, tg_order, tg_exp, 
                                    tg_ok, tg_i, tg_n, tg_seen, tg_u, tg_r0, 
                                    la_frame, la_order, la_h, ps_frame, 
                                    ps_order, lp_frame, lp_order, lp_h, lp_old, 
                                    lp_ok, lp_seen, lp_spin, lp_v, tp_t, tp_n, 
                                    tu2_t, tu2_free, tu2_class, gl_order, 
                                    gl_class, gl_local, gl_frame, gl_sync, 
                                    gl_row, gl_res, gl_min, gl_got, sg_i, 
                                    sg_class, sg_order, sg_frame, sg_c, rs_i, 
                                    rs_order, rs_class, rs_local, rs_reserved, 
                                    rs_free, rs_tc, rs_frame, rs_old, sb_n, 
                                    sb_start, sb_offset, sb_len, sb_mode, 
                                    sb_order, sb_class, sb_local, sb_i, sb_idx, 
                                    sb_t, sb_p, sb_best, sb_done, sb_k, 
                                    sl_class, sl_local, sl_order, sl_frame, 
                                    sl_i, sl_tc, sl_j, sl_found, sl_row, sl_jj, 
                                    dl_class, dl_local, dl_order, dl_frame, 
                                    dl_i, dl_tc, dl_j, dl_found, dl_new, 
                                    dl_old, dl_jj, dl_oldclass, ag_order, 
                                    ag_class, ag_local, ag_frame, ag_len, 
                                    ag_near, ap_frame, ap_order, ap_class, 
                                    ap_local, ad_c, ad_k, ad_old, cg_t, 
                                    cg_mclass, cg_mfree, cg_cclass, cg_cop, 
                                    cg_prev, cg_done, cg_fetched, cg_h, cg_v, 
                                    cg_next, cg_ok, cg_seen, ac_id, ac_mclass, 
                                    ac_mfree, ac_cclass, ac_cop, ac_i, ac_done, 
                                    pcx, cur, blk >>

ag_reserve(self) == /\ pc[self] = "ag_reserve"
                    /\ IF ~ag_done[self]
                          THEN /\ ag_near' = [ag_near EXCEPT ![self] = MaxI(NT \div 16, 4)]
                               /\ ag_start' = [ag_start EXCEPT ![self] = AlignDown(ag_start[self], NextPow2(2 * ag_near'[self]))]
                               /\ IF ag_order[self] < HO
                                     THEN /\ /\ sb_class' = [sb_class EXCEPT ![self] = ag_class[self]]
                                             /\ sb_len' = [sb_len EXCEPT ![self] = ag_near'[self]]
                                             /\ sb_local' = [sb_local EXCEPT ![self] = ag_local[self]]
                                             /\ sb_mode' = [sb_mode EXCEPT ![self] = "near"]
                                             /\ sb_n' = [sb_n EXCEPT ![self] = 3]
                                             /\ sb_offset' = [sb_offset EXCEPT ![self] = 1]
                                             /\ sb_order' = [sb_order EXCEPT ![self] = ag_order[self]]
                                             /\ sb_start' = [sb_start EXCEPT ![self] = ag_start'[self]]
                                             /\ stack' = [stack EXCEPT ![self] = << [ procedure |->  "search_best",
                                                                                      pc        |->  "ag_near_r",
                                                                                      sb_i      |->  sb_i[self],
                                                                                      sb_idx    |->  sb_idx[self],
                                                                                      sb_t      |->  sb_t[self],
                                                                                      sb_p      |->  sb_p[self],
                                                                                      sb_best   |->  sb_best[self],
                                                                                      sb_done   |->  sb_done[self],
                                                                                      sb_k      |->  sb_k[self],
                                                                                      sb_n      |->  sb_n[self],
                                                                                      sb_start  |->  sb_start[self],
                                                                                      sb_offset |->  sb_offset[self],
                                                                                      sb_len    |->  sb_len[self],
                                                                                      sb_mode   |->  sb_mode[self],
                                                                                      sb_order  |->  sb_order[self],
                                                                                      sb_class  |->  sb_class[self],
                                                                                      sb_local  |->  sb_local[self] ] >>
                                                                                  \o stack[self]]
                                          /\ sb_i' = [sb_i EXCEPT ![self] = 0]
                                          /\ sb_idx' = [sb_idx EXCEPT ![self] = 0]
                                          /\ sb_t' = [sb_t EXCEPT ![self] = TreeW(0, FALSE, 0)]
                                          /\ sb_p' = [sb_p EXCEPT ![self] = Invalid]
                                          /\ sb_best' = [sb_best EXCEPT ![self] = <<>>]
                                          /\ sb_done' = [sb_done EXCEPT ![self] = FALSE]
                                          /\ sb_k' = [sb_k EXCEPT ![self] = 0]
                                          /\ pc' = [pc EXCEPT ![self] = "sb_begin"]
                                     ELSE /\ pc' = [pc EXCEPT ![self] = "ag_global"]
                                          /\ UNCHANGED << stack, sb_n, 
                                                          sb_start, sb_offset, 
                                                          sb_len, sb_mode, 
                                                          sb_order, sb_class, 
                                                          sb_local, sb_i, 
                                                          sb_idx, sb_t, sb_p, 
                                                          sb_best, sb_done, 
                                                          sb_k >>
                          ELSE /\ pc' = [pc EXCEPT ![self] = "ag_oom1"]
                               /\ UNCHANGED << stack, sb_n, sb_start, 
                                               sb_offset, sb_len, sb_mode, 
                                               sb_order, sb_class, sb_local, 
                                               sb_i, sb_idx, sb_t, sb_p, 
                                               sb_best, sb_done, sb_k, 
                                               ag_start, ag_near >>
                    /\ UNCHANGED << mem, held, results, inflight, rv, panicked, 
                                    hid, lastop, dp_why, tu_loc, tu_fn, tu_arg, 
                                    tu_prev, tu_next, tu_done, tu_ok, tu_seen, 
                                    lg_row, lg_order, lg_tree, lg_off, lg_j, 
                                    lg_i, lg_h, lg_found, lg_frame, lg_n, 
                                    ca_h0, ca_num, ca_cur, ca_new, ca_i, ca_ok, 
                                    ca_seen, ca_j, sf_h, sf_start, sf_order, 
                                    sf_i, sf_r, sf_found, sf_off, sf_nrows, 
                                    sf_c, sf_k, sf_v, sf_zero, sf_ok, sf_seen, 
                                    sf_u, tg_h, tg_off, tg_order, tg_exp, 
                                    tg_ok, tg_i, tg_n, tg_seen, tg_u, tg_r0, 
                                    la_frame, la_order, la_h, ps_frame, 
                                    ps_order, lp_frame, lp_order, lp_h, lp_old, 
                                    lp_ok, lp_seen, lp_spin, lp_v, tp_t, tp_n, 
                                    tu2_t, tu2_free, tu2_class, gl_order, 
                                    gl_class, gl_local, gl_frame, gl_sync, 
                                    gl_row, gl_res, gl_min, gl_got, sg_i, 
                                    sg_class, sg_order, sg_frame, sg_c, rs_i, 
                                    rs_order, rs_class, rs_local, rs_reserved, 
                                    rs_free, rs_tc, rs_frame, rs_old, sl_class, 
                                    sl_local, sl_order, sl_frame, sl_i, sl_tc, 
                                    sl_j, sl_found, sl_row, sl_jj, dl_class, 
                                    dl_local, dl_order, dl_frame, dl_i, dl_tc, 
                                    dl_j, dl_found, dl_new, dl_old, dl_jj, 
                                    dl_oldclass, ag_order, ag_class, ag_local, 
                                    ag_frame, ag_len, ag_done, ap_frame, 
                                    ap_order, ap_class, ap_local, ad_c, ad_k, 
                                    ad_old, cg_t, cg_mclass, cg_mfree, 
                                    cg_cclass, cg_cop, cg_prev, cg_done, 
                                    cg_fetched, cg_h, cg_v, cg_next, cg_ok, 
                                    cg_seen, ac_id, ac_mclass, ac_mfree, 
                                    ac_cclass, ac_cop, ac_i, ac_done, pcx, cur, 
                                    blk >>

ag_global(self) == /\ pc[self] = "ag_global"
                   /\ IF ~ag_done[self]
                         THEN /\ /\ sb_class' = [sb_class EXCEPT ![self] = ag_class[self]]
                                 /\ sb_len' = [sb_len EXCEPT ![self] = NT]
                                 /\ sb_local' = [sb_local EXCEPT ![self] = ag_local[self]]
                                 /\ sb_mode' = [sb_mode EXCEPT ![self] = "glob"]
                                 /\ sb_n' = [sb_n EXCEPT ![self] = 8]
                                 /\ sb_offset' = [sb_offset EXCEPT ![self] = 0]
                                 /\ sb_order' = [sb_order EXCEPT ![self] = ag_order[self]]
                                 /\ sb_start' = [sb_start EXCEPT ![self] = ag_start[self]]
                                 /\ stack' = [stack EXCEPT ![self] = << [ procedure |->  "search_best",
                                                                          pc        |->  "ag_global_r",
                                                                          sb_i      |->  sb_i[self],
                                                                          sb_idx    |->  sb_idx[self],
                                                                          sb_t      |->  sb_t[self],
                                                                          sb_p      |->  sb_p[self],
                                                                          sb_best   |->  sb_best[self],
                                                                          sb_done   |->  sb_done[self],
                                                                          sb_k      |->  sb_k[self],
                                                                          sb_n      |->  sb_n[self],
                                                                          sb_start  |->  sb_start[self],
                                                                          sb_offset |->  sb_offset[self],
                                                                          sb_len    |->  sb_len[self],
                                                                          sb_mode   |->  sb_mode[self],
                                                                          sb_order  |->  sb_order[self],
                                                                          sb_class  |->  sb_class[self],
                                                                          sb_local  |->  sb_local[self] ] >>
                                                                      \o stack[self]]
                              /\ sb_i' = [sb_i EXCEPT ![self] = 0]
                              /\ sb_idx' = [sb_idx EXCEPT ![self] = 0]
                              /\ sb_t' = [sb_t EXCEPT ![self] = TreeW(0, FALSE, 0)]
                              /\ sb_p' = [sb_p EXCEPT ![self] = Invalid]
                              /\ sb_best' = [sb_best EXCEPT ![self] = <<>>]
                              /\ sb_done' = [sb_done EXCEPT ![self] = FALSE]
                              /\ sb_k' = [sb_k EXCEPT ![self] = 0]
                              /\ pc' = [pc EXCEPT ![self] = "sb_begin"]
                         ELSE /\ pc' = [pc EXCEPT ![self] = "ag_oom1"]
                              /\ UNCHANGED << stack, sb_n, sb_start, sb_offset, 
                                              sb_len, sb_mode, sb_order, 
                                              sb_class, sb_local, sb_i, sb_idx, 
                                              sb_t, sb_p, sb_best, sb_done, 
                                              sb_k >>
                   /\ UNCHANGED << mem, held, results, inflight, rv, panicked, 
                                   hid, lastop, dp_why, tu_loc, tu_fn, tu_arg, 
                                   tu_prev, tu_next, tu_done, tu_ok, tu_seen, 
                                   lg_row, lg_order, lg_tree, lg_off, lg_j, 
                                   lg_i, lg_h, lg_found, lg_frame, lg_n, ca_h0, 
                                   ca_num, ca_cur, ca_new, ca_i, ca_ok, 
                                   ca_seen, ca_j, sf_h, sf_start, sf_order, 
                                   sf_i, sf_r, sf_found, sf_off, sf_nrows, 
                                   sf_c, sf_k, sf_v, sf_zero, sf_ok, sf_seen, 
                                   sf_u, tg_h, tg_off, tg_order, tg_exp, tg_ok, 
                                   tg_i, tg_n, tg_seen, tg_u, tg_r0, la_frame, 
                                   la_order, la_h, ps_frame, ps_order, 
                                   lp_frame, lp_order, lp_h, lp_old, lp_ok, 
                                   lp_seen, lp_spin, lp_v, tp_t, tp_n, tu2_t, 
                                   tu2_free, tu2_class, gl_order, gl_class, 
                                   gl_local, gl_frame, gl_sync, gl_row, gl_res, 
                                   gl_min, gl_got, sg_i, sg_class, sg_order, 
                                   sg_frame, sg_c, rs_i, rs_order, rs_class, 
                                   rs_local, rs_reserved, rs_free, rs_tc, 
                                   rs_frame, rs_old, sl_class, sl_local, 
                                   sl_order, sl_frame, sl_i, sl_tc, sl_j, 
                                   sl_found, sl_row, sl_jj, dl_class, dl_local, 
                                   dl_order, dl_frame, dl_i, dl_tc, dl_j, 
                                   dl_found, dl_new, dl_old, dl_jj, 
                                   dl_oldclass, ag_order, ag_class, ag_local, 
                                   ag_frame, ag_len, ag_start, ag_near, 
                                   ag_done, ap_frame, ap_order, ap_class, 
                                   ap_local, ad_c, ad_k, ad_old, cg_t, 
                                   cg_mclass, cg_mfree, cg_cclass, cg_cop, 
                                   cg_prev, cg_done, cg_fetched, cg_h, cg_v, 
                                   cg_next, cg_ok, cg_seen, ac_id, ac_mclass, 
                                   ac_mfree, ac_cclass, ac_cop, ac_i, ac_done, 
                                   pcx, cur, blk >>

ag_global_r(self) == /\ pc[self] = "ag_global_r"
                     /\ IF rv[self].ok
                           THEN /\ ag_done' = [ag_done EXCEPT ![self] = TRUE]
                           ELSE /\ TRUE
                                /\ UNCHANGED ag_done
                     /\ pc' = [pc EXCEPT ![self] = "ag_oom1"]
                     /\ UNCHANGED << mem, held, results, inflight, rv, 
                                     panicked, hid, lastop, stack, dp_why, 
                                     tu_loc, tu_fn, tu_arg, tu_prev, tu_next, 
                                     tu_done, tu_ok, tu_seen, lg_row, lg_order, 
                                     lg_tree, lg_off, lg_j, lg_i, lg_h, 
                                     lg_found, lg_frame, lg_n, ca_h0, ca_num, 
                                     ca_cur, ca_new, ca_i, ca_ok, ca_seen, 
                                     ca_j, sf_h, sf_start, sf_order, sf_i, 
                                     sf_r, sf_found, sf_off, sf_nrows, sf_c, 
                                     sf_k, sf_v, sf_zero, sf_ok, sf_seen, sf_u, 
                                     tg_h, tg_off, tg_order, tg_exp, tg_ok, 
                                     tg_i, tg_n, tg_seen, tg_u, tg_r0, 
                                     la_frame, la_order, la_h, ps_frame, 
                                     ps_order, lp_frame, lp_order, lp_h, 
                                     lp_old, lp_ok, lp_seen, lp_spin, lp_v, 
                                     tp_t, tp_n, tu2_t, tu2_free, tu2_class, 
                                     gl_order, gl_class, gl_local, gl_frame, 
                                     gl_sync, gl_row, gl_res, gl_min, gl_got, 
                                     sg_i, sg_class, sg_order, sg_frame, sg_c, 
                                     rs_i, rs_order, rs_class, rs_local, 
                                     rs_reserved, rs_free, rs_tc, rs_frame, 
                                     rs_old, sb_n, sb_start, sb_offset, sb_len, 
                                     sb_mode, sb_order, sb_class, sb_local, 
                                     sb_i, sb_idx, sb_t, sb_p, sb_best, 
                                     sb_done, sb_k, sl_class, sl_local, 
                                     sl_order, sl_frame, sl_i, sl_tc, sl_j, 
                                     sl_found, sl_row, sl_jj, dl_class, 
                                     dl_local, dl_order, dl_frame, dl_i, dl_tc, 
                                     dl_j, dl_found, dl_new, dl_old, dl_jj, 
                                     dl_oldclass, ag_order, ag_class, ag_local, 
                                     ag_frame, ag_len, ag_start, ag_near, 
                                     ap_frame, ap_order, ap_class, ap_local, 
                                     ad_c, ad_k, ad_old, cg_t, cg_mclass, 
                                     cg_mfree, cg_cclass, cg_cop, cg_prev, 
                                     cg_done, cg_fetched, cg_h, cg_v, cg_next, 
                                     cg_ok, cg_seen, ac_id, ac_mclass, 
                                     ac_mfree, ac_cclass, ac_cop, ac_i, 
                                     ac_done, pcx, cur, blk >>

ag_near_r(self) == /\ pc[self] = "ag_near_r"
                   /\ IF rv[self].ok
                         THEN /\ ag_done' = [ag_done EXCEPT ![self] = TRUE]
                         ELSE /\ TRUE
                              /\ UNCHANGED ag_done
                   /\ pc' = [pc EXCEPT ![self] = "ag_global"]
                   /\ UNCHANGED << mem, held, results, inflight, rv, panicked, 
                                   hid, lastop, stack, dp_why, tu_loc, tu_fn, 
                                   tu_arg, tu_prev, tu_next, tu_done, tu_ok, 
                                   tu_seen, lg_row, lg_order, lg_tree, lg_off, 
                                   lg_j, lg_i, lg_h, lg_found, lg_frame, lg_n, 
                                   ca_h0, ca_num, ca_cur, ca_new, ca_i, ca_ok, 
                                   ca_seen, ca_j, sf_h, sf_start, sf_order, 
                                   sf_i, sf_r, sf_found, sf_off, sf_nrows, 
                                   sf_c, sf_k, sf_v, sf_zero, sf_ok, sf_seen, 
                                   sf_u, tg_h, tg_off, tg_order, tg_exp, tg_ok, 
                                   tg_i, tg_n, tg_seen, tg_u, tg_r0, la_frame, 
                                   la_order, la_h, ps_frame, ps_order, 
                                   lp_frame, lp_order, lp_h, lp_old, lp_ok, 
                                   lp_seen, lp_spin, lp_v, tp_t, tp_n, tu2_t, 
                                   tu2_free, tu2_class, gl_order, gl_class, 
                                   gl_local, gl_frame, gl_sync, gl_row, gl_res, 
                                   gl_min, gl_got, sg_i, sg_class, sg_order, 
                                   sg_frame, sg_c, rs_i, rs_order, rs_class, 
                                   rs_local, rs_reserved, rs_free, rs_tc, 
                                   rs_frame, rs_old, sb_n, sb_start, sb_offset, 
                                   sb_len, sb_mode, sb_order, sb_class, 
                                   sb_local, sb_i, sb_idx, sb_t, sb_p, sb_best, 
                                   sb_done, sb_k, sl_class, sl_local, sl_order, 
                                   sl_frame, sl_i, sl_tc, sl_j, sl_found, 
                                   sl_row, sl_jj, dl_class, dl_local, dl_order, 
                                   dl_frame, dl_i, dl_tc, dl_j, dl_found, 
                                   dl_new, dl_old, dl_jj, dl_oldclass, 
                                   ag_order, ag_class, ag_local, ag_frame, 
                                   ag_len, ag_start, ag_near, ap_frame, 
                                   ap_order, ap_class, ap_local, ad_c, ad_k, 
                                   ad_old, cg_t, cg_mclass, cg_mfree, 
                                   cg_cclass, cg_cop, cg_prev, cg_done, 
                                   cg_fetched, cg_h, cg_v, cg_next, cg_ok, 
                                   cg_seen, ac_id, ac_mclass, ac_mfree, 
                                   ac_cclass, ac_cop, ac_i, ac_done, pcx, cur, 
                                   blk >>

ag_steal_r(self) == /\ pc[self] = "ag_steal_r"
                    /\ IF rv[self].ok
                          THEN /\ ag_done' = [ag_done EXCEPT ![self] = TRUE]
                          ELSE /\ TRUE
                               /\ UNCHANGED ag_done
                    /\ pc' = [pc EXCEPT ![self] = "ag_oom1"]
                    /\ UNCHANGED << mem, held, results, inflight, rv, panicked, 
                                    hid, lastop, stack, dp_why, tu_loc, tu_fn, 
                                    tu_arg, tu_prev, tu_next, tu_done, tu_ok, 
                                    tu_seen, lg_row, lg_order, lg_tree, lg_off, 
                                    lg_j, lg_i, lg_h, lg_found, lg_frame, lg_n, 
                                    ca_h0, ca_num, ca_cur, ca_new, ca_i, ca_ok, 
                                    ca_seen, ca_j, sf_h, sf_start, sf_order, 
                                    sf_i, sf_r, sf_found, sf_off, sf_nrows, 
                                    sf_c, sf_k, sf_v, sf_zero, sf_ok, sf_seen, 
                                    sf_u, tg_h, tg_off, tg_order, tg_exp, 
                                    tg_ok, tg_i, tg_n, tg_seen, tg_u, tg_r0, 
                                    la_frame, la_order, la_h, ps_frame, 
                                    ps_order, lp_frame, lp_order, lp_h, lp_old, 
                                    lp_ok, lp_seen, lp_spin, lp_v, tp_t, tp_n, 
                                    tu2_t, tu2_free, tu2_class, gl_order, 
                                    gl_class, gl_local, gl_frame, gl_sync, 
                                    gl_row, gl_res, gl_min, gl_got, sg_i, 
                                    sg_class, sg_order, sg_frame, sg_c, rs_i, 
                                    rs_order, rs_class, rs_local, rs_reserved, 
                                    rs_free, rs_tc, rs_frame, rs_old, sb_n, 
                                    sb_start, sb_offset, sb_len, sb_mode, 
                                    sb_order, sb_class, sb_local, sb_i, sb_idx, 
                                    sb_t, sb_p, sb_best, sb_done, sb_k, 
                                    sl_class, sl_local, sl_order, sl_frame, 
                                    sl_i, sl_tc, sl_j, sl_found, sl_row, sl_jj, 
                                    dl_class, dl_local, dl_order, dl_frame, 
                                    dl_i, dl_tc, dl_j, dl_found, dl_new, 
                                    dl_old, dl_jj, dl_oldclass, ag_order, 
                                    ag_class, ag_local, ag_frame, ag_len, 
                                    ag_start, ag_near, ap_frame, ap_order, 
                                    ap_class, ap_local, ad_c, ad_k, ad_old, 
                                    cg_t, cg_mclass, cg_mfree, cg_cclass, 
                                    cg_cop, cg_prev, cg_done, cg_fetched, cg_h, 
                                    cg_v, cg_next, cg_ok, cg_seen, ac_id, 
                                    ac_mclass, ac_mfree, ac_cclass, ac_cop, 
                                    ac_i, ac_done, pcx, cur, blk >>

api_get(self) == ag_begin(self) \/ Lbl_9(self) \/ ag_at_global(self)
                    \/ ag_at_global_r(self) \/ ag_at_steal(self)
                    \/ ag_at_steal_r(self) \/ ag_at_demote(self)
                    \/ ag_at_ret(self) \/ ag_oom1(self) \/ ag_oom1_r(self)
                    \/ ag_oom2(self) \/ ag_ret(self) \/ ag_at_local_r(self)
                    \/ ag_local_r(self) \/ ag_reserve(self)
                    \/ ag_global(self) \/ ag_global_r(self)
                    \/ ag_near_r(self) \/ ag_steal_r(self)

ap_begin(self) == /\ pc[self] = "ap_begin"
                  /\ IF ~(ap_order[self] <= TO /\ ap_frame[self] + P2(ap_order[self]) <= FRAMES /\ ap_frame[self] % P2(ap_order[self]) = 0 /\ Configured(ap_class[self]))
                        THEN /\ rv' = [rv EXCEPT ![self] = [ok |-> FALSE, err |-> "arg"]]
                             /\ pc' = [pc EXCEPT ![self] = Head(stack[self]).pc]
                             /\ ap_frame' = [ap_frame EXCEPT ![self] = Head(stack[self]).ap_frame]
                             /\ ap_order' = [ap_order EXCEPT ![self] = Head(stack[self]).ap_order]
                             /\ ap_class' = [ap_class EXCEPT ![self] = Head(stack[self]).ap_class]
                             /\ ap_local' = [ap_local EXCEPT ![self] = Head(stack[self]).ap_local]
                             /\ stack' = [stack EXCEPT ![self] = Tail(stack[self])]
                             /\ UNCHANGED << lp_frame, lp_order, lp_h, lp_old, 
                                             lp_ok, lp_seen, lp_spin, lp_v >>
                        ELSE /\ /\ lp_frame' = [lp_frame EXCEPT ![self] = ap_frame[self]]
                                /\ lp_order' = [lp_order EXCEPT ![self] = ap_order[self]]
                                /\ stack' = [stack EXCEPT ![self] = << [ procedure |->  "lower_put",
                                                                         pc        |->  "ap_lower_r",
                                                                         lp_h      |->  lp_h[self],
                                                                         lp_old    |->  lp_old[self],
                                                                         lp_ok     |->  lp_ok[self],
                                                                         lp_seen   |->  lp_seen[self],
                                                                         lp_spin   |->  lp_spin[self],
                                                                         lp_v      |->  lp_v[self],
                                                                         lp_frame  |->  lp_frame[self],
                                                                         lp_order  |->  lp_order[self] ] >>
                                                                     \o stack[self]]
                             /\ lp_h' = [lp_h EXCEPT ![self] = 0]
                             /\ lp_old' = [lp_old EXCEPT ![self] = 0]
                             /\ lp_ok' = [lp_ok EXCEPT ![self] = FALSE]
                             /\ lp_seen' = [lp_seen EXCEPT ![self] = 0]
                             /\ lp_spin' = [lp_spin EXCEPT ![self] = 0]
                             /\ lp_v' = [lp_v EXCEPT ![self] = 0]
                             /\ pc' = [pc EXCEPT ![self] = "lp_begin"]
                             /\ UNCHANGED << rv, ap_frame, ap_order, ap_class, 
                                             ap_local >>
                  /\ UNCHANGED << mem, held, results, inflight, panicked, hid, 
                                  lastop, dp_why, tu_loc, tu_fn, tu_arg, 
                                  tu_prev, tu_next, tu_done, tu_ok, tu_seen, 
                                  lg_row, lg_order, lg_tree, lg_off, lg_j, 
                                  lg_i, lg_h, lg_found, lg_frame, lg_n, ca_h0, 
                                  ca_num, ca_cur, ca_new, ca_i, ca_ok, ca_seen, 
                                  ca_j, sf_h, sf_start, sf_order, sf_i, sf_r, 
                                  sf_found, sf_off, sf_nrows, sf_c, sf_k, sf_v, 
                                  sf_zero, sf_ok, sf_seen, sf_u, tg_h, tg_off, 
                                  tg_order, tg_exp, tg_ok, tg_i, tg_n, tg_seen, 
                                  tg_u, tg_r0, la_frame, la_order, la_h, 
                                  ps_frame, ps_order, tp_t, tp_n, tu2_t, 
                                  tu2_free, tu2_class, gl_order, gl_class, 
                                  gl_local, gl_frame, gl_sync, gl_row, gl_res, 
                                  gl_min, gl_got, sg_i, sg_class, sg_order, 
                                  sg_frame, sg_c, rs_i, rs_order, rs_class, 
                                  rs_local, rs_reserved, rs_free, rs_tc, 
                                  rs_frame, rs_old, sb_n, sb_start, sb_offset, 
                                  sb_len, sb_mode, sb_order, sb_class, 
                                  sb_local, sb_i, sb_idx, sb_t, sb_p, sb_best, 
                                  sb_done, sb_k, sl_class, sl_local, sl_order, 
                                  sl_frame, sl_i, sl_tc, sl_j, sl_found, 
                                  sl_row, sl_jj, dl_class, dl_local, dl_order, 
                                  dl_frame, dl_i, dl_tc, dl_j, dl_found, 
                                  dl_new, dl_old, dl_jj, dl_oldclass, ag_order, 
                                  ag_class, ag_local, ag_frame, ag_len, 
                                  ag_start, ag_near, ag_done, ad_c, ad_k, 
                                  ad_old, cg_t, cg_mclass, cg_mfree, cg_cclass, 
                                  cg_cop, cg_prev, cg_done, cg_fetched, cg_h, 
                                  cg_v, cg_next, cg_ok, cg_seen, ac_id, 
                                  ac_mclass, ac_mfree, ac_cclass, ac_cop, ac_i, 
                                  ac_done, pcx, cur, blk >>

ap_lower_r(self) == /\ pc[self] = "ap_lower_r"
                    /\ IF ~rv[self].ok
                          THEN /\ rv' = [rv EXCEPT ![self] = [ok |-> FALSE, err |-> "mem"]]
                               /\ pc' = [pc EXCEPT ![self] = Head(stack[self]).pc]
                               /\ ap_frame' = [ap_frame EXCEPT ![self] = Head(stack[self]).ap_frame]
                               /\ ap_order' = [ap_order EXCEPT ![self] = Head(stack[self]).ap_order]
                               /\ ap_class' = [ap_class EXCEPT ![self] = Head(stack[self]).ap_class]
                               /\ ap_local' = [ap_local EXCEPT ![self] = Head(stack[self]).ap_local]
                               /\ stack' = [stack EXCEPT ![self] = Tail(stack[self])]
                               /\ UNCHANGED << tu_loc, tu_fn, tu_arg, tu_prev, 
                                               tu_next, tu_done, tu_ok, 
                                               tu_seen >>
                          ELSE /\ IF ap_local[self] # -1
                                     THEN /\ /\ stack' = [stack EXCEPT ![self] = << [ procedure |->  "try_update",
                                                                                      pc        |->  "ap_local_r",
                                                                                      tu_prev   |->  tu_prev[self],
                                                                                      tu_next   |->  tu_next[self],
                                                                                      tu_done   |->  tu_done[self],
                                                                                      tu_ok     |->  tu_ok[self],
                                                                                      tu_seen   |->  tu_seen[self],
                                                                                      tu_loc    |->  tu_loc[self],
                                                                                      tu_fn     |->  tu_fn[self],
                                                                                      tu_arg    |->  tu_arg[self] ] >>
                                                                                  \o stack[self]]
                                             /\ tu_arg' = [tu_arg EXCEPT ![self] = [tree |-> TreeOfFrame(ap_frame[self]), n |-> P2(ap_order[self])]]
                                             /\ tu_fn' = [tu_fn EXCEPT ![self] = "sput"]
                                             /\ tu_loc' = [tu_loc EXCEPT ![self] = Slot(ap_class[self], ap_local[self])]
                                          /\ tu_prev' = [tu_prev EXCEPT ![self] = 0]
                                          /\ tu_next' = [tu_next EXCEPT ![self] = <<>>]
                                          /\ tu_done' = [tu_done EXCEPT ![self] = FALSE]
                                          /\ tu_ok' = [tu_ok EXCEPT ![self] = FALSE]
                                          /\ tu_seen' = [tu_seen EXCEPT ![self] = 0]
                                          /\ pc' = [pc EXCEPT ![self] = "tu_load"]
                                     ELSE /\ pc' = [pc EXCEPT ![self] = "ap_global"]
                                          /\ UNCHANGED << stack, tu_loc, tu_fn, 
                                                          tu_arg, tu_prev, 
                                                          tu_next, tu_done, 
                                                          tu_ok, tu_seen >>
                               /\ UNCHANGED << rv, ap_frame, ap_order, 
                                               ap_class, ap_local >>
                    /\ UNCHANGED << mem, held, results, inflight, panicked, 
                                    hid, lastop, dp_why, lg_row, lg_order, 
                                    lg_tree, lg_off, lg_j, lg_i, lg_h, 
                                    lg_found, lg_frame, lg_n, ca_h0, ca_num, 
                                    ca_cur, ca_new, ca_i, ca_ok, ca_seen, ca_j, 
                                    sf_h, sf_start, sf_order, sf_i, sf_r, 
                                    sf_found, sf_off, sf_nrows, sf_c, sf_k, 
                                    sf_v, sf_zero, sf_ok, sf_seen, sf_u, tg_h, 
                                    tg_off, tg_order, tg_exp, tg_ok, tg_i, 
                                    tg_n, tg_seen, tg_u, tg_r0, la_frame, 
                                    la_order, la_h, ps_frame, ps_order, 
                                    lp_frame, lp_order, lp_h, lp_old, lp_ok, 
                                    lp_seen, lp_spin, lp_v, tp_t, tp_n, tu2_t, 
                                    tu2_free, tu2_class, gl_order, gl_class, 
                                    gl_local, gl_frame, gl_sync, gl_row, 
                                    gl_res, gl_min, gl_got, sg_i, sg_class, 
                                    sg_order, sg_frame, sg_c, rs_i, rs_order, 
                                    rs_class, rs_local, rs_reserved, rs_free, 
                                    rs_tc, rs_frame, rs_old, sb_n, sb_start, 
                                    sb_offset, sb_len, sb_mode, sb_order, 
                                    sb_class, sb_local, sb_i, sb_idx, sb_t, 
                                    sb_p, sb_best, sb_done, sb_k, sl_class, 
                                    sl_local, sl_order, sl_frame, sl_i, sl_tc, 
                                    sl_j, sl_found, sl_row, sl_jj, dl_class, 
                                    dl_local, dl_order, dl_frame, dl_i, dl_tc, 
                                    dl_j, dl_found, dl_new, dl_old, dl_jj, 
                                    dl_oldclass, ag_order, ag_class, ag_local, 
                                    ag_frame, ag_len, ag_start, ag_near, 
                                    ag_done, ad_c, ad_k, ad_old, cg_t, 
                                    cg_mclass, cg_mfree, cg_cclass, cg_cop, 
                                    cg_prev, cg_done, cg_fetched, cg_h, cg_v, 
                                    cg_next, cg_ok, cg_seen, ac_id, ac_mclass, 
                                    ac_mfree, ac_cclass, ac_cop, ac_i, ac_done, 
                                    pcx, cur, blk >>

ap_global(self) == /\ pc[self] = "ap_global"
                   /\ /\ stack' = [stack EXCEPT ![self] = << [ procedure |->  "trees_put",
                                                               pc        |->  "ap_global_r",
                                                               tp_t      |->  tp_t[self],
                                                               tp_n      |->  tp_n[self] ] >>
                                                           \o stack[self]]
                      /\ tp_n' = [tp_n EXCEPT ![self] = P2(ap_order[self])]
                      /\ tp_t' = [tp_t EXCEPT ![self] = TreeOfFrame(ap_frame[self])]
                   /\ pc' = [pc EXCEPT ![self] = "tp_begin"]
                   /\ UNCHANGED << mem, held, results, inflight, rv, panicked, 
                                   hid, lastop, dp_why, tu_loc, tu_fn, tu_arg, 
                                   tu_prev, tu_next, tu_done, tu_ok, tu_seen, 
                                   lg_row, lg_order, lg_tree, lg_off, lg_j, 
                                   lg_i, lg_h, lg_found, lg_frame, lg_n, ca_h0, 
                                   ca_num, ca_cur, ca_new, ca_i, ca_ok, 
                                   ca_seen, ca_j, sf_h, sf_start, sf_order, 
                                   sf_i, sf_r, sf_found, sf_off, sf_nrows, 
                                   sf_c, sf_k, sf_v, sf_zero, sf_ok, sf_seen, 
                                   sf_u, tg_h, tg_off, tg_order, tg_exp, tg_ok, 
                                   tg_i, tg_n, tg_seen, tg_u, tg_r0, la_frame, 
                                   la_order, la_h, ps_frame, ps_order, 
                                   lp_frame, lp_order, lp_h, lp_old, lp_ok, 
                                   lp_seen, lp_spin, lp_v, tu2_t, tu2_free, 
                                   tu2_class, gl_order, gl_class, gl_local, 
                                   gl_frame, gl_sync, gl_row, gl_res, gl_min, 
                                   gl_got, sg_i, sg_class, sg_order, sg_frame, 
                                   sg_c, rs_i, rs_order, rs_class, rs_local, 
                                   rs_reserved, rs_free, rs_tc, rs_frame, 
                                   rs_old, sb_n, sb_start, sb_offset, sb_len, 
                                   sb_mode, sb_order, sb_class, sb_local, sb_i, 
                                   sb_idx, sb_t, sb_p, sb_best, sb_done, sb_k, 
                                   sl_class, sl_local, sl_order, sl_frame, 
                                   sl_i, sl_tc, sl_j, sl_found, sl_row, sl_jj, 
                                   dl_class, dl_local, dl_order, dl_frame, 
                                   dl_i, dl_tc, dl_j, dl_found, dl_new, dl_old, 
                                   dl_jj, dl_oldclass, ag_order, ag_class, 
                                   ag_local, ag_frame, ag_len, ag_start, 
                                   ag_near, ag_done, ap_frame, ap_order, 
                                   ap_class, ap_local, ad_c, ad_k, ad_old, 
                                   cg_t, cg_mclass, cg_mfree, cg_cclass, 
                                   cg_cop, cg_prev, cg_done, cg_fetched, cg_h, 
                                   cg_v, cg_next, cg_ok, cg_seen, ac_id, 
                                   ac_mclass, ac_mfree, ac_cclass, ac_cop, 
                                   ac_i, ac_done, pcx, cur, blk >>

ap_global_r(self) == /\ pc[self] = "ap_global_r"
                     /\ rv' = [rv EXCEPT ![self] = [ok |-> TRUE, err |-> ""]]
                     /\ pc' = [pc EXCEPT ![self] = Head(stack[self]).pc]
                     /\ ap_frame' = [ap_frame EXCEPT ![self] = Head(stack[self]).ap_frame]
                     /\ ap_order' = [ap_order EXCEPT ![self] = Head(stack[self]).ap_order]
                     /\ ap_class' = [ap_class EXCEPT ![self] = Head(stack[self]).ap_class]
                     /\ ap_local' = [ap_local EXCEPT ![self] = Head(stack[self]).ap_local]
                     /\ stack' = [stack EXCEPT ![self] = Tail(stack[self])]
                     /\ UNCHANGED << mem, held, results, inflight, panicked, 
                                     hid, lastop, dp_why, tu_loc, tu_fn, 
                                     tu_arg, tu_prev, tu_next, tu_done, tu_ok, 
                                     tu_seen, lg_row, lg_order, lg_tree, 
                                     lg_off, lg_j, lg_i, lg_h, lg_found, 
                                     lg_frame, lg_n, ca_h0, ca_num, ca_cur, 
                                     ca_new, ca_i, ca_ok, ca_seen, ca_j, sf_h, 
                                     sf_start, sf_order, sf_i, sf_r, sf_found, 
                                     sf_off, sf_nrows, sf_c, sf_k, sf_v, 
                                     sf_zero, sf_ok, sf_seen, sf_u, tg_h, 
                                     tg_off, tg_order, tg_exp, tg_ok, tg_i, 
                                     tg_n, tg_seen, tg_u, tg_r0, la_frame, 
                                     la_order, la_h, ps_frame, ps_order, 
                                     lp_frame, lp_order, lp_h, lp_old, lp_ok, 
                                     lp_seen, lp_spin, lp_v, tp_t, tp_n, tu2_t, 
                                     tu2_free, tu2_class, gl_order, gl_class, 
                                     gl_local, gl_frame, gl_sync, gl_row, 
                                     gl_res, gl_min, gl_got, sg_i, sg_class, 
                                     sg_order, sg_frame, sg_c, rs_i, rs_order, 
                                     rs_class, rs_local, rs_reserved, rs_free, 
                                     rs_tc, rs_frame, rs_old, sb_n, sb_start, 
                                     sb_offset, sb_len, sb_mode, sb_order, 
                                     sb_class, sb_local, sb_i, sb_idx, sb_t, 
                                     sb_p, sb_best, sb_done, sb_k, sl_class, 
                                     sl_local, sl_order, sl_frame, sl_i, sl_tc, 
                                     sl_j, sl_found, sl_row, sl_jj, dl_class, 
                                     dl_local, dl_order, dl_frame, dl_i, dl_tc, 
                                     dl_j, dl_found, dl_new, dl_old, dl_jj, 
                                     dl_oldclass, ag_order, ag_class, ag_local, 
                                     ag_frame, ag_len, ag_start, ag_near, 
                                     ag_done, ad_c, ad_k, ad_old, cg_t, 
                                     cg_mclass, cg_mfree, cg_cclass, cg_cop, 
                                     cg_prev, cg_done, cg_fetched, cg_h, cg_v, 
                                     cg_next, cg_ok, cg_seen, ac_id, ac_mclass, 
                                     ac_mfree, ac_cclass, ac_cop, ac_i, 
                                     ac_done, pcx, cur, blk >>

ap_local_r(self) == /\ pc[self] = "ap_local_r"
                    /\ IF rv[self].ok
                          THEN /\ rv' = [rv EXCEPT ![self] = [ok |-> TRUE, err |-> ""]]
                               /\ pc' = [pc EXCEPT ![self] = Head(stack[self]).pc]
                               /\ ap_frame' = [ap_frame EXCEPT ![self] = Head(stack[self]).ap_frame]
                               /\ ap_order' = [ap_order EXCEPT ![self] = Head(stack[self]).ap_order]
                               /\ ap_class' = [ap_class EXCEPT ![self] = Head(stack[self]).ap_class]
                               /\ ap_local' = [ap_local EXCEPT ![self] = Head(stack[self]).ap_local]
                               /\ stack' = [stack EXCEPT ![self] = Tail(stack[self])]
                          ELSE /\ pc' = [pc EXCEPT ![self] = "ap_global"]
                               /\ UNCHANGED << rv, stack, ap_frame, ap_order, 
                                               ap_class, ap_local >>
                    /\ UNCHANGED << mem, held, results, inflight, panicked, 
                                    hid, lastop, dp_why, tu_loc, tu_fn, tu_arg, 
                                    tu_prev, tu_next, tu_done, tu_ok, tu_seen, 
                                    lg_row, lg_order, lg_tree, lg_off, lg_j, 
                                    lg_i, lg_h, lg_found, lg_frame, lg_n, 
                                    ca_h0, ca_num, ca_cur, ca_new, ca_i, ca_ok, 
                                    ca_seen, ca_j, sf_h, sf_start, sf_order, 
                                    sf_i, sf_r, sf_found, sf_off, sf_nrows, 
                                    sf_c, sf_k, sf_v, sf_zero, sf_ok, sf_seen, 
                                    sf_u, tg_h, tg_off, tg_order, tg_exp, 
                                    tg_ok, tg_i, tg_n, tg_seen, tg_u, tg_r0, 
                                    la_frame, la_order, la_h, ps_frame, 
                                    ps_order, lp_frame, lp_order, lp_h, lp_old, 
                                    lp_ok, lp_seen, lp_spin, lp_v, tp_t, tp_n, 
                                    tu2_t, tu2_free, tu2_class, gl_order, 
                                    gl_class, gl_local, gl_frame, gl_sync, 
                                    gl_row, gl_res, gl_min, gl_got, sg_i, 
                                    sg_class, sg_order, sg_frame, sg_c, rs_i, 
                                    rs_order, rs_class, rs_local, rs_reserved, 
                                    rs_free, rs_tc, rs_frame, rs_old, sb_n, 
                                    sb_start, sb_offset, sb_len, sb_mode, 
                                    sb_order, sb_class, sb_local, sb_i, sb_idx, 
                                    sb_t, sb_p, sb_best, sb_done, sb_k, 
                                    sl_class, sl_local, sl_order, sl_frame, 
                                    sl_i, sl_tc, sl_j, sl_found, sl_row, sl_jj, 
                                    dl_class, dl_local, dl_order, dl_frame, 
                                    dl_i, dl_tc, dl_j, dl_found, dl_new, 
                                    dl_old, dl_jj, dl_oldclass, ag_order, 
                                    ag_class, ag_local, ag_frame, ag_len, 
                                    ag_start, ag_near, ag_done, ad_c, ad_k, 
                                    ad_old, cg_t, cg_mclass, cg_mfree, 
                                    cg_cclass, cg_cop, cg_prev, cg_done, 
                                    cg_fetched, cg_h, cg_v, cg_next, cg_ok, 
                                    cg_seen, ac_id, ac_mclass, ac_mfree, 
                                    ac_cclass, ac_cop, ac_i, ac_done, pcx, cur, 
                                    blk >>

api_put(self) == ap_begin(self) \/ ap_lower_r(self) \/ ap_global(self)
                    \/ ap_global_r(self) \/ ap_local_r(self)

ad_begin(self) == /\ pc[self] = "ad_begin"
                  /\ ad_c' = [ad_c EXCEPT ![self] = 0]
                  /\ pc' = [pc EXCEPT ![self] = "ad_classes"]
                  /\ UNCHANGED << mem, held, results, inflight, rv, panicked, 
                                  hid, lastop, stack, dp_why, tu_loc, tu_fn, 
                                  tu_arg, tu_prev, tu_next, tu_done, tu_ok, 
                                  tu_seen, lg_row, lg_order, lg_tree, lg_off, 
                                  lg_j, lg_i, lg_h, lg_found, lg_frame, lg_n, 
                                  ca_h0, ca_num, ca_cur, ca_new, ca_i, ca_ok, 
                                  ca_seen, ca_j, sf_h, sf_start, sf_order, 
                                  sf_i, sf_r, sf_found, sf_off, sf_nrows, sf_c, 
                                  sf_k, sf_v, sf_zero, sf_ok, sf_seen, sf_u, 
                                  tg_h, tg_off, tg_order, tg_exp, tg_ok, tg_i, 
                                  tg_n, tg_seen, tg_u, tg_r0, la_frame, 
                                  la_order, la_h, ps_frame, ps_order, lp_frame, 
                                  lp_order, lp_h, lp_old, lp_ok, lp_seen, 
                                  lp_spin, lp_v, tp_t, tp_n, tu2_t, tu2_free, 
                                  tu2_class, gl_order, gl_class, gl_local, 
                                  gl_frame, gl_sync, gl_row, gl_res, gl_min, 
                                  gl_got, sg_i, sg_class, sg_order, sg_frame, 
                                  sg_c, rs_i, rs_order, rs_class, rs_local, 
                                  rs_reserved, rs_free, rs_tc, rs_frame, 
                                  rs_old, sb_n, sb_start, sb_offset, sb_len, 
                                  sb_mode, sb_order, sb_class, sb_local, sb_i, 
                                  sb_idx, sb_t, sb_p, sb_best, sb_done, sb_k, 
                                  sl_class, sl_local, sl_order, sl_frame, sl_i, 
                                  sl_tc, sl_j, sl_found, sl_row, sl_jj, 
                                  dl_class, dl_local, dl_order, dl_frame, dl_i, 
                                  dl_tc, dl_j, dl_found, dl_new, dl_old, dl_jj, 
                                  dl_oldclass, ag_order, ag_class, ag_local, 
                                  ag_frame, ag_len, ag_start, ag_near, ag_done, 
                                  ap_frame, ap_order, ap_class, ap_local, ad_k, 
                                  ad_old, cg_t, cg_mclass, cg_mfree, cg_cclass, 
                                  cg_cop, cg_prev, cg_done, cg_fetched, cg_h, 
                                  cg_v, cg_next, cg_ok, cg_seen, ac_id, 
                                  ac_mclass, ac_mfree, ac_cclass, ac_cop, ac_i, 
                                  ac_done, pcx, cur, blk >>

ad_classes(self) == /\ pc[self] = "ad_classes"
                    /\ IF ad_c[self] < 8
                          THEN /\ ad_k' = [ad_k EXCEPT ![self] = 0]
                               /\ pc' = [pc EXCEPT ![self] = "ad_slots"]
                               /\ UNCHANGED << rv, stack, ad_c, ad_old >>
                          ELSE /\ rv' = [rv EXCEPT ![self] = [ok |-> TRUE, err |-> ""]]
                               /\ pc' = [pc EXCEPT ![self] = Head(stack[self]).pc]
                               /\ ad_c' = [ad_c EXCEPT ![self] = Head(stack[self]).ad_c]
                               /\ ad_k' = [ad_k EXCEPT ![self] = Head(stack[self]).ad_k]
                               /\ ad_old' = [ad_old EXCEPT ![self] = Head(stack[self]).ad_old]
                               /\ stack' = [stack EXCEPT ![self] = Tail(stack[self])]
                    /\ UNCHANGED << mem, held, results, inflight, panicked, 
                                    hid, lastop, dp_why, tu_loc, tu_fn, tu_arg, 
                                    tu_prev, tu_next, tu_done, tu_ok, tu_seen, 
                                    lg_row, lg_order, lg_tree, lg_off, lg_j, 
                                    lg_i, lg_h, lg_found, lg_frame, lg_n, 
                                    ca_h0, ca_num, ca_cur, ca_new, ca_i, ca_ok, 
                                    ca_seen, ca_j, sf_h, sf_start, sf_order, 
                                    sf_i, sf_r, sf_found, sf_off, sf_nrows, 
                                    sf_c, sf_k, sf_v, sf_zero, sf_ok, sf_seen, 
                                    sf_u, tg_h, tg_off, tg_order, tg_exp, 
                                    tg_ok, tg_i, tg_n, tg_seen, tg_u, tg_r0, 
                                    la_frame, la_order, la_h, ps_frame, 
                                    ps_order, lp_frame, lp_order, lp_h, lp_old, 
                                    lp_ok, lp_seen, lp_spin, lp_v, tp_t, tp_n, 
                                    tu2_t, tu2_free, tu2_class, gl_order, 
                                    gl_class, gl_local, gl_frame, gl_sync, 
                                    gl_row, gl_res, gl_min, gl_got, sg_i, 
                                    sg_class, sg_order, sg_frame, sg_c, rs_i, 
                                    rs_order, rs_class, rs_local, rs_reserved, 
                                    rs_free, rs_tc, rs_frame, rs_old, sb_n, 
                                    sb_start, sb_offset, sb_len, sb_mode, 
                                    sb_order, sb_class, sb_local, sb_i, sb_idx, 
                                    sb_t, sb_p, sb_best, sb_done, sb_k, 
                                    sl_class, sl_local, sl_order, sl_frame, 
                                    sl_i, sl_tc, sl_j, sl_found, sl_row, sl_jj, 
                                    dl_class, dl_local, dl_order, dl_frame, 
                                    dl_i, dl_tc, dl_j, dl_found, dl_new, 
                                    dl_old, dl_jj, dl_oldclass, ag_order, 
                                    ag_class, ag_local, ag_frame, ag_len, 
                                    ag_start, ag_near, ag_done, ap_frame, 
                                    ap_order, ap_class, ap_local, cg_t, 
                                    cg_mclass, cg_mfree, cg_cclass, cg_cop, 
                                    cg_prev, cg_done, cg_fetched, cg_h, cg_v, 
                                    cg_next, cg_ok, cg_seen, ac_id, ac_mclass, 
                                    ac_mfree, ac_cclass, ac_cop, ac_i, ac_done, 
                                    pcx, cur, blk >>

ad_slots(self) == /\ pc[self] = "ad_slots"
                  /\ IF ad_k[self] < NSlots(ad_c[self])
                        THEN /\ ad_old' = [ad_old EXCEPT ![self] = mem[Slot(ad_c[self], ad_k[self])]]
                             /\ lastop' = [seq |-> lastop.seq + 1, t |-> self, k |-> "swap", loc |-> Slot(ad_c[self], ad_k[self]),
                                           old |-> mem[Slot(ad_c[self], ad_k[self])], new |-> SlotNone, ok |-> TRUE]
                             /\ mem' = [mem EXCEPT ![Slot(ad_c[self], ad_k[self])] = SlotNone]
                             /\ IF ad_old'[self].present
                                   THEN /\ /\ stack' = [stack EXCEPT ![self] = << [ procedure |->  "trees_unreserve",
                                                                                    pc        |->  "ad_next",
                                                                                    tu2_t     |->  tu2_t[self],
                                                                                    tu2_free  |->  tu2_free[self],
                                                                                    tu2_class |->  tu2_class[self] ] >>
                                                                                \o stack[self]]
                                           /\ tu2_class' = [tu2_class EXCEPT ![self] = ad_c[self]]
                                           /\ tu2_free' = [tu2_free EXCEPT ![self] = ad_old'[self].free]
                                           /\ tu2_t' = [tu2_t EXCEPT ![self] = TreeOfRow(ad_old'[self].row)]
                                        /\ pc' = [pc EXCEPT ![self] = "un_begin"]
                                   ELSE /\ pc' = [pc EXCEPT ![self] = "ad_next"]
                                        /\ UNCHANGED << stack, tu2_t, tu2_free, 
                                                        tu2_class >>
                             /\ ad_c' = ad_c
                        ELSE /\ ad_c' = [ad_c EXCEPT ![self] = ad_c[self] + 1]
                             /\ pc' = [pc EXCEPT ![self] = "ad_classes"]
                             /\ UNCHANGED << mem, lastop, stack, tu2_t, 
                                             tu2_free, tu2_class, ad_old >>
                  /\ UNCHANGED << held, results, inflight, rv, panicked, hid, 
                                  dp_why, tu_loc, tu_fn, tu_arg, tu_prev, 
                                  tu_next, tu_done, tu_ok, tu_seen, lg_row, 
                                  lg_order, lg_tree, lg_off, lg_j, lg_i, lg_h, 
                                  lg_found, lg_frame, lg_n, ca_h0, ca_num, 
                                  ca_cur, ca_new, ca_i, ca_ok, ca_seen, ca_j, 
                                  sf_h, sf_start, sf_order, sf_i, sf_r, 
                                  sf_found, sf_off, sf_nrows, sf_c, sf_k, sf_v, 
                                  sf_zero, sf_ok, sf_seen, sf_u, tg_h, tg_off, 
                                  tg_order, tg_exp, tg_ok, tg_i, tg_n, tg_seen, 
                                  tg_u, tg_r0, la_frame, la_order, la_h, 
                                  ps_frame, ps_order, lp_frame, lp_order, lp_h, 
                                  lp_old, lp_ok, lp_seen, lp_spin, lp_v, tp_t, 
                                  tp_n, gl_order, gl_class, gl_local, gl_frame, 
                                  gl_sync, gl_row, gl_res, gl_min, gl_got, 
                                  sg_i, sg_class, sg_order, sg_frame, sg_c, 
                                  rs_i, rs_order, rs_class, rs_local, 
                                  rs_reserved, rs_free, rs_tc, rs_frame, 
                                  rs_old, sb_n, sb_start, sb_offset, sb_len, 
                                  sb_mode, sb_order, sb_class, sb_local, sb_i, 
                                  sb_idx, sb_t, sb_p, sb_best, sb_done, sb_k, 
                                  sl_class, sl_local, sl_order, sl_frame, sl_i, 
                                  sl_tc, sl_j, sl_found, sl_row, sl_jj, 
                                  dl_class, dl_local, dl_order, dl_frame, dl_i, 
                                  dl_tc, dl_j, dl_found, dl_new, dl_old, dl_jj, 
                                  dl_oldclass, ag_order, ag_class, ag_local, 
                                  ag_frame, ag_len, ag_start, ag_near, ag_done, 
                                  ap_frame, ap_order, ap_class, ap_local, ad_k, 
                                  cg_t, cg_mclass, cg_mfree, cg_cclass, cg_cop, 
                                  cg_prev, cg_done, cg_fetched, cg_h, cg_v, 
                                  cg_next, cg_ok, cg_seen, ac_id, ac_mclass, 
                                  ac_mfree, ac_cclass, ac_cop, ac_i, ac_done, 
                                  pcx, cur, blk >>

ad_next(self) == /\ pc[self] = "ad_next"
                 /\ ad_k' = [ad_k EXCEPT ![self] = ad_k[self] + 1]
                 /\ pc' = [pc EXCEPT ![self] = "ad_slots"]
                 /\ UNCHANGED << mem, held, results, inflight, rv, panicked, 
                                 hid, lastop, stack, dp_why, tu_loc, tu_fn, 
                                 tu_arg, tu_prev, tu_next, tu_done, tu_ok, 
                                 tu_seen, lg_row, lg_order, lg_tree, lg_off, 
                                 lg_j, lg_i, lg_h, lg_found, lg_frame, lg_n, 
                                 ca_h0, ca_num, ca_cur, ca_new, ca_i, ca_ok, 
                                 ca_seen, ca_j, sf_h, sf_start, sf_order, sf_i, 
                                 sf_r, sf_found, sf_off, sf_nrows, sf_c, sf_k, 
                                 sf_v, sf_zero, sf_ok, sf_seen, sf_u, tg_h, 
                                 tg_off, tg_order, tg_exp, tg_ok, tg_i, tg_n, 
                                 tg_seen, tg_u, tg_r0, la_frame, la_order, 
                                 la_h, ps_frame, ps_order, lp_frame, lp_order, 
                                 lp_h, lp_old, lp_ok, lp_seen, lp_spin, lp_v, 
                                 tp_t, tp_n, tu2_t, tu2_free, tu2_class, 
                                 gl_order, gl_class, gl_local, gl_frame, 
                                 gl_sync, gl_row, gl_res, gl_min, gl_got, sg_i, 
                                 sg_class, sg_order, sg_frame, sg_c, rs_i, 
                                 rs_order, rs_class, rs_local, rs_reserved, 
                                 rs_free, rs_tc, rs_frame, rs_old, sb_n, 
                                 sb_start, sb_offset, sb_len, sb_mode, 
                                 sb_order, sb_class, sb_local, sb_i, sb_idx, 
                                 sb_t, sb_p, sb_best, sb_done, sb_k, sl_class, 
                                 sl_local, sl_order, sl_frame, sl_i, sl_tc, 
                                 sl_j, sl_found, sl_row, sl_jj, dl_class, 
                                 dl_local, dl_order, dl_frame, dl_i, dl_tc, 
                                 dl_j, dl_found, dl_new, dl_old, dl_jj, 
                                 dl_oldclass, ag_order, ag_class, ag_local, 
                                 ag_frame, ag_len, ag_start, ag_near, ag_done, 
                                 ap_frame, ap_order, ap_class, ap_local, ad_c, 
                                 ad_old, cg_t, cg_mclass, cg_mfree, cg_cclass, 
                                 cg_cop, cg_prev, cg_done, cg_fetched, cg_h, 
                                 cg_v, cg_next, cg_ok, cg_seen, ac_id, 
                                 ac_mclass, ac_mfree, ac_cclass, ac_cop, ac_i, 
                                 ac_done, pcx, cur, blk >>

api_drain(self) == ad_begin(self) \/ ad_classes(self) \/ ad_slots(self)
                      \/ ad_next(self)

cg_load(self) == /\ pc[self] = "cg_load"
                 /\ cg_prev' = [cg_prev EXCEPT ![self] = mem[(Tree(cg_t[self]))]]
                 /\ lastop' = [seq |-> lastop.seq + 1, t |-> self, k |-> "load", loc |-> (Tree(cg_t[self])), old |-> mem[(Tree(cg_t[self]))], new |-> mem[(Tree(cg_t[self]))], ok |-> TRUE]
                 /\ cg_done' = [cg_done EXCEPT ![self] = FALSE]
                 /\ pc' = [pc EXCEPT ![self] = "cg_loop"]
                 /\ UNCHANGED << mem, held, results, inflight, rv, panicked, 
                                 hid, stack, dp_why, tu_loc, tu_fn, tu_arg, 
                                 tu_prev, tu_next, tu_done, tu_ok, tu_seen, 
                                 lg_row, lg_order, lg_tree, lg_off, lg_j, lg_i, 
                                 lg_h, lg_found, lg_frame, lg_n, ca_h0, ca_num, 
                                 ca_cur, ca_new, ca_i, ca_ok, ca_seen, ca_j, 
                                 sf_h, sf_start, sf_order, sf_i, sf_r, 
                                 sf_found, sf_off, sf_nrows, sf_c, sf_k, sf_v, 
                                 sf_zero, sf_ok, sf_seen, sf_u, tg_h, tg_off, 
                                 tg_order, tg_exp, tg_ok, tg_i, tg_n, tg_seen, 
                                 tg_u, tg_r0, la_frame, la_order, la_h, 
                                 ps_frame, ps_order, lp_frame, lp_order, lp_h, 
                                 lp_old, lp_ok, lp_seen, lp_spin, lp_v, tp_t, 
                                 tp_n, tu2_t, tu2_free, tu2_class, gl_order, 
                                 gl_class, gl_local, gl_frame, gl_sync, gl_row, 
                                 gl_res, gl_min, gl_got, sg_i, sg_class, 
                                 sg_order, sg_frame, sg_c, rs_i, rs_order, 
                                 rs_class, rs_local, rs_reserved, rs_free, 
                                 rs_tc, rs_frame, rs_old, sb_n, sb_start, 
                                 sb_offset, sb_len, sb_mode, sb_order, 
                                 sb_class, sb_local, sb_i, sb_idx, sb_t, sb_p, 
                                 sb_best, sb_done, sb_k, sl_class, sl_local, 
                                 sl_order, sl_frame, sl_i, sl_tc, sl_j, 
                                 sl_found, sl_row, sl_jj, dl_class, dl_local, 
                                 dl_order, dl_frame, dl_i, dl_tc, dl_j, 
                                 dl_found, dl_new, dl_old, dl_jj, dl_oldclass, 
                                 ag_order, ag_class, ag_local, ag_frame, 
                                 ag_len, ag_start, ag_near, ag_done, ap_frame, 
                                 ap_order, ap_class, ap_local, ad_c, ad_k, 
                                 ad_old, cg_t, cg_mclass, cg_mfree, cg_cclass, 
                                 cg_cop, cg_fetched, cg_h, cg_v, cg_next, 
                                 cg_ok, cg_seen, ac_id, ac_mclass, ac_mfree, 
                                 ac_cclass, ac_cop, ac_i, ac_done, pcx, cur, 
                                 blk >>

cg_loop(self) == /\ pc[self] = "cg_loop"
                 /\ IF ~cg_done[self]
                       THEN /\ cg_fetched' = [cg_fetched EXCEPT ![self] = 0]
                            /\ IF ~cg_prev[self].res /\ (cg_mclass[self] = -1 \/ cg_mclass[self] = cg_prev[self].class) /\ cg_prev[self].free >= cg_mfree[self]
                                  /\ cg_cop[self] = 1 /\ cg_prev[self].free = 0
                                  THEN /\ cg_h' = [cg_h EXCEPT ![self] = 0]
                                       /\ pc' = [pc EXCEPT ![self] = "cg_fetch"]
                                  ELSE /\ pc' = [pc EXCEPT ![self] = "cg_cas"]
                                       /\ cg_h' = cg_h
                            /\ UNCHANGED << stack, cg_t, cg_mclass, cg_mfree, 
                                            cg_cclass, cg_cop, cg_prev, 
                                            cg_done, cg_v, cg_next, cg_ok, 
                                            cg_seen >>
                       ELSE /\ pc' = [pc EXCEPT ![self] = Head(stack[self]).pc]
                            /\ cg_prev' = [cg_prev EXCEPT ![self] = Head(stack[self]).cg_prev]
                            /\ cg_done' = [cg_done EXCEPT ![self] = Head(stack[self]).cg_done]
                            /\ cg_fetched' = [cg_fetched EXCEPT ![self] = Head(stack[self]).cg_fetched]
                            /\ cg_h' = [cg_h EXCEPT ![self] = Head(stack[self]).cg_h]
                            /\ cg_v' = [cg_v EXCEPT ![self] = Head(stack[self]).cg_v]
                            /\ cg_next' = [cg_next EXCEPT ![self] = Head(stack[self]).cg_next]
                            /\ cg_ok' = [cg_ok EXCEPT ![self] = Head(stack[self]).cg_ok]
                            /\ cg_seen' = [cg_seen EXCEPT ![self] = Head(stack[self]).cg_seen]
                            /\ cg_t' = [cg_t EXCEPT ![self] = Head(stack[self]).cg_t]
                            /\ cg_mclass' = [cg_mclass EXCEPT ![self] = Head(stack[self]).cg_mclass]
                            /\ cg_mfree' = [cg_mfree EXCEPT ![self] = Head(stack[self]).cg_mfree]
                            /\ cg_cclass' = [cg_cclass EXCEPT ![self] = Head(stack[self]).cg_cclass]
                            /\ cg_cop' = [cg_cop EXCEPT ![self] = Head(stack[self]).cg_cop]
                            /\ stack' = [stack EXCEPT ![self] = Tail(stack[self])]
                 /\ UNCHANGED << mem, held, results, inflight, rv, panicked, 
                                 hid, lastop, dp_why, tu_loc, tu_fn, tu_arg, 
                                 tu_prev, tu_next, tu_done, tu_ok, tu_seen, 
                                 lg_row, lg_order, lg_tree, lg_off, lg_j, lg_i, 
                                 lg_h, lg_found, lg_frame, lg_n, ca_h0, ca_num, 
                                 ca_cur, ca_new, ca_i, ca_ok, ca_seen, ca_j, 
                                 sf_h, sf_start, sf_order, sf_i, sf_r, 
                                 sf_found, sf_off, sf_nrows, sf_c, sf_k, sf_v, 
                                 sf_zero, sf_ok, sf_seen, sf_u, tg_h, tg_off, 
                                 tg_order, tg_exp, tg_ok, tg_i, tg_n, tg_seen, 
                                 tg_u, tg_r0, la_frame, la_order, la_h, 
                                 ps_frame, ps_order, lp_frame, lp_order, lp_h, 
                                 lp_old, lp_ok, lp_seen, lp_spin, lp_v, tp_t, 
                                 tp_n, tu2_t, tu2_free, tu2_class, gl_order, 
                                 gl_class, gl_local, gl_frame, gl_sync, gl_row, 
                                 gl_res, gl_min, gl_got, sg_i, sg_class, 
                                 sg_order, sg_frame, sg_c, rs_i, rs_order, 
                                 rs_class, rs_local, rs_reserved, rs_free, 
                                 rs_tc, rs_frame, rs_old, sb_n, sb_start, 
                                 sb_offset, sb_len, sb_mode, sb_order, 
                                 sb_class, sb_local, sb_i, sb_idx, sb_t, sb_p, 
                                 sb_best, sb_done, sb_k, sl_class, sl_local, 
                                 sl_order, sl_frame, sl_i, sl_tc, sl_j, 
                                 sl_found, sl_row, sl_jj, dl_class, dl_local, 
                                 dl_order, dl_frame, dl_i, dl_tc, dl_j, 
                                 dl_found, dl_new, dl_old, dl_jj, dl_oldclass, 
                                 ag_order, ag_class, ag_local, ag_frame, 
                                 ag_len, ag_start, ag_near, ag_done, ap_frame, 
                                 ap_order, ap_class, ap_local, ad_c, ad_k, 
                                 ad_old, ac_id, ac_mclass, ac_mfree, ac_cclass, 
                                 ac_cop, ac_i, ac_done, pcx, cur, blk >>

cg_cas(self) == /\ pc[self] = "cg_cas"
                /\ cg_next' = [cg_next EXCEPT ![self] = F("chg", [mclass |-> cg_mclass[self], mfree |-> cg_mfree[self], cclass |-> cg_cclass[self], cop |-> cg_cop[self], fetched |-> cg_fetched[self]], cg_prev[self])]
                /\ IF ~IsSome(cg_next'[self])
                      THEN /\ rv' = [rv EXCEPT ![self] = [ok |-> FALSE, err |-> "mem"]]
                           /\ cg_done' = [cg_done EXCEPT ![self] = TRUE]
                           /\ UNCHANGED << mem, hid, lastop, cg_prev, cg_ok, 
                                           cg_seen >>
                      ELSE /\ IF mem[(Tree(cg_t[self]))] = cg_prev[self]
                                 THEN /\ cg_ok' = [cg_ok EXCEPT ![self] = TRUE]
                                      /\ cg_seen' = [cg_seen EXCEPT ![self] = cg_prev[self]]
                                      /\ lastop' = [seq |-> lastop.seq + 1, t |-> self, k |-> "cas", loc |-> (Tree(cg_t[self])), old |-> cg_prev[self], new |-> (Val(cg_next'[self])), ok |-> TRUE]
                                      /\ mem' = [mem EXCEPT ![(Tree(cg_t[self]))] = Val(cg_next'[self])]
                                 ELSE /\ cg_ok' = [cg_ok EXCEPT ![self] = FALSE]
                                      /\ cg_seen' = [cg_seen EXCEPT ![self] = mem[(Tree(cg_t[self]))]]
                                      /\ lastop' = [seq |-> lastop.seq + 1, t |-> self, k |-> "cas", loc |-> (Tree(cg_t[self])), old |-> mem[(Tree(cg_t[self]))], new |-> (Val(cg_next'[self])), ok |-> FALSE]
                                      /\ mem' = mem
                           /\ IF cg_ok'[self]
                                 THEN /\ rv' = [rv EXCEPT ![self] = [ok |-> TRUE, err |-> ""]]
                                      /\ cg_done' = [cg_done EXCEPT ![self] = TRUE]
                                      /\ IF cg_cop[self] = 2
                                            THEN /\ hid' = [hid EXCEPT ![cg_t[self]] = hid[cg_t[self]] + cg_prev[self].free]
                                            ELSE /\ IF cg_cop[self] = 1
                                                       THEN /\ hid' = [hid EXCEPT ![cg_t[self]] = 0]
                                                       ELSE /\ TRUE
                                                            /\ hid' = hid
                                      /\ UNCHANGED cg_prev
                                 ELSE /\ cg_prev' = [cg_prev EXCEPT ![self] = cg_seen'[self]]
                                      /\ UNCHANGED << rv, hid, cg_done >>
                /\ pc' = [pc EXCEPT ![self] = "cg_loop"]
                /\ UNCHANGED << held, results, inflight, panicked, stack, 
                                dp_why, tu_loc, tu_fn, tu_arg, tu_prev, 
                                tu_next, tu_done, tu_ok, tu_seen, lg_row, 
                                lg_order, lg_tree, lg_off, lg_j, lg_i, lg_h, 
                                lg_found, lg_frame, lg_n, ca_h0, ca_num, 
                                ca_cur, ca_new, ca_i, ca_ok, ca_seen, ca_j, 
                                sf_h, sf_start, sf_order, sf_i, sf_r, sf_found, 
                                sf_off, sf_nrows, sf_c, sf_k, sf_v, sf_zero, 
                                sf_ok, sf_seen, sf_u, tg_h, tg_off, tg_order, 
                                tg_exp, tg_ok, tg_i, tg_n, tg_seen, tg_u, 
                                tg_r0, la_frame, la_order, la_h, ps_frame, 
                                ps_order, lp_frame, lp_order, lp_h, lp_old, 
                                lp_ok, lp_seen, lp_spin, lp_v, tp_t, tp_n, 
                                tu2_t, tu2_free, tu2_class, gl_order, gl_class, 
                                gl_local, gl_frame, gl_sync, gl_row, gl_res, 
                                gl_min, gl_got, sg_i, sg_class, sg_order, 
                                sg_frame, sg_c, rs_i, rs_order, rs_class, 
                                rs_local, rs_reserved, rs_free, rs_tc, 
                                rs_frame, rs_old, sb_n, sb_start, sb_offset, 
                                sb_len, sb_mode, sb_order, sb_class, sb_local, 
                                sb_i, sb_idx, sb_t, sb_p, sb_best, sb_done, 
                                sb_k, sl_class, sl_local, sl_order, sl_frame, 
                                sl_i, sl_tc, sl_j, sl_found, sl_row, sl_jj, 
                                dl_class, dl_local, dl_order, dl_frame, dl_i, 
                                dl_tc, dl_j, dl_found, dl_new, dl_old, dl_jj, 
                                dl_oldclass, ag_order, ag_class, ag_local, 
                                ag_frame, ag_len, ag_start, ag_near, ag_done, 
                                ap_frame, ap_order, ap_class, ap_local, ad_c, 
                                ad_k, ad_old, cg_t, cg_mclass, cg_mfree, 
                                cg_cclass, cg_cop, cg_fetched, cg_h, cg_v, 
                                ac_id, ac_mclass, ac_mfree, ac_cclass, ac_cop, 
                                ac_i, ac_done, pcx, cur, blk >>

cg_fetch(self) == /\ pc[self] = "cg_fetch"
                  /\ IF cg_h[self] < TH
                        THEN /\ cg_v' = [cg_v EXCEPT ![self] = mem[(Entry(cg_t[self] * TH + cg_h[self]))]]
                             /\ lastop' = [seq |-> lastop.seq + 1, t |-> self, k |-> "load", loc |-> (Entry(cg_t[self] * TH + cg_h[self])), old |-> mem[(Entry(cg_t[self] * TH + cg_h[self]))], new |-> mem[(Entry(cg_t[self] * TH + cg_h[self]))], ok |-> TRUE]
                             /\ cg_fetched' = [cg_fetched EXCEPT ![self] = cg_fetched[self] + (IF cg_v'[self] = HUGE THEN 0 ELSE cg_v'[self])]
                             /\ cg_h' = [cg_h EXCEPT ![self] = cg_h[self] + 1]
                             /\ pc' = [pc EXCEPT ![self] = "cg_fetch"]
                        ELSE /\ pc' = [pc EXCEPT ![self] = "cg_cas"]
                             /\ UNCHANGED << lastop, cg_fetched, cg_h, cg_v >>
                  /\ UNCHANGED << mem, held, results, inflight, rv, panicked, 
                                  hid, stack, dp_why, tu_loc, tu_fn, tu_arg, 
                                  tu_prev, tu_next, tu_done, tu_ok, tu_seen, 
                                  lg_row, lg_order, lg_tree, lg_off, lg_j, 
                                  lg_i, lg_h, lg_found, lg_frame, lg_n, ca_h0, 
                                  ca_num, ca_cur, ca_new, ca_i, ca_ok, ca_seen, 
                                  ca_j, sf_h, sf_start, sf_order, sf_i, sf_r, 
                                  sf_found, sf_off, sf_nrows, sf_c, sf_k, sf_v, 
                                  sf_zero, sf_ok, sf_seen, sf_u, tg_h, tg_off, 
                                  tg_order, tg_exp, tg_ok, tg_i, tg_n, tg_seen, 
                                  tg_u, tg_r0, la_frame, la_order, la_h, 
                                  ps_frame, ps_order, lp_frame, lp_order, lp_h, 
                                  lp_old, lp_ok, lp_seen, lp_spin, lp_v, tp_t, 
                                  tp_n, tu2_t, tu2_free, tu2_class, gl_order, 
                                  gl_class, gl_local, gl_frame, gl_sync, 
                                  gl_row, gl_res, gl_min, gl_got, sg_i, 
                                  sg_class, sg_order, sg_frame, sg_c, rs_i, 
                                  rs_order, rs_class, rs_local, rs_reserved, 
                                  rs_free, rs_tc, rs_frame, rs_old, sb_n, 
                                  sb_start, sb_offset, sb_len, sb_mode, 
                                  sb_order, sb_class, sb_local, sb_i, sb_idx, 
                                  sb_t, sb_p, sb_best, sb_done, sb_k, sl_class, 
                                  sl_local, sl_order, sl_frame, sl_i, sl_tc, 
                                  sl_j, sl_found, sl_row, sl_jj, dl_class, 
                                  dl_local, dl_order, dl_frame, dl_i, dl_tc, 
                                  dl_j, dl_found, dl_new, dl_old, dl_jj, 
                                  dl_oldclass, ag_order, ag_class, ag_local, 
                                  ag_frame, ag_len, ag_start, ag_near, ag_done, 
                                  ap_frame, ap_order, ap_class, ap_local, ad_c, 
                                  ad_k, ad_old, cg_t, cg_mclass, cg_mfree, 
                                  cg_cclass, cg_cop, cg_prev, cg_done, cg_next, 
                                  cg_ok, cg_seen, ac_id, ac_mclass, ac_mfree, 
                                  ac_cclass, ac_cop, ac_i, ac_done, pcx, cur, 
                                  blk >>

change_at(self) == cg_load(self) \/ cg_loop(self) \/ cg_cas(self)
                      \/ cg_fetch(self)

ac_begin(self) == /\ pc[self] = "ac_begin"
                  /\ IF ac_id[self] # -1
                        THEN /\ IF ac_id[self] >= NT
                                   THEN /\ rv' = [rv EXCEPT ![self] = [ok |-> FALSE, err |-> "arg"]]
                                        /\ pc' = [pc EXCEPT ![self] = Head(stack[self]).pc]
                                        /\ ac_i' = [ac_i EXCEPT ![self] = Head(stack[self]).ac_i]
                                        /\ ac_done' = [ac_done EXCEPT ![self] = Head(stack[self]).ac_done]
                                        /\ ac_id' = [ac_id EXCEPT ![self] = Head(stack[self]).ac_id]
                                        /\ ac_mclass' = [ac_mclass EXCEPT ![self] = Head(stack[self]).ac_mclass]
                                        /\ ac_mfree' = [ac_mfree EXCEPT ![self] = Head(stack[self]).ac_mfree]
                                        /\ ac_cclass' = [ac_cclass EXCEPT ![self] = Head(stack[self]).ac_cclass]
                                        /\ ac_cop' = [ac_cop EXCEPT ![self] = Head(stack[self]).ac_cop]
                                        /\ stack' = [stack EXCEPT ![self] = Tail(stack[self])]
                                        /\ UNCHANGED << cg_t, cg_mclass, 
                                                        cg_mfree, cg_cclass, 
                                                        cg_cop, cg_prev, 
                                                        cg_done, cg_fetched, 
                                                        cg_h, cg_v, cg_next, 
                                                        cg_ok, cg_seen >>
                                   ELSE /\ /\ cg_cclass' = [cg_cclass EXCEPT ![self] = ac_cclass[self]]
                                           /\ cg_cop' = [cg_cop EXCEPT ![self] = ac_cop[self]]
                                           /\ cg_mclass' = [cg_mclass EXCEPT ![self] = ac_mclass[self]]
                                           /\ cg_mfree' = [cg_mfree EXCEPT ![self] = ac_mfree[self]]
                                           /\ cg_t' = [cg_t EXCEPT ![self] = ac_id[self]]
                                           /\ stack' = [stack EXCEPT ![self] = << [ procedure |->  "change_at",
                                                                                    pc        |->  "ac_id_r",
                                                                                    cg_prev   |->  cg_prev[self],
                                                                                    cg_done   |->  cg_done[self],
                                                                                    cg_fetched |->  cg_fetched[self],
                                                                                    cg_h      |->  cg_h[self],
                                                                                    cg_v      |->  cg_v[self],
                                                                                    cg_next   |->  cg_next[self],
                                                                                    cg_ok     |->  cg_ok[self],
                                                                                    cg_seen   |->  cg_seen[self],
                                                                                    cg_t      |->  cg_t[self],
                                                                                    cg_mclass |->  cg_mclass[self],
                                                                                    cg_mfree  |->  cg_mfree[self],
                                                                                    cg_cclass |->  cg_cclass[self],
                                                                                    cg_cop    |->  cg_cop[self] ] >>
                                                                                \o stack[self]]
                                        /\ cg_prev' = [cg_prev EXCEPT ![self] = TreeW(0, FALSE, 0)]
                                        /\ cg_done' = [cg_done EXCEPT ![self] = FALSE]
                                        /\ cg_fetched' = [cg_fetched EXCEPT ![self] = 0]
                                        /\ cg_h' = [cg_h EXCEPT ![self] = 0]
                                        /\ cg_v' = [cg_v EXCEPT ![self] = 0]
                                        /\ cg_next' = [cg_next EXCEPT ![self] = <<>>]
                                        /\ cg_ok' = [cg_ok EXCEPT ![self] = FALSE]
                                        /\ cg_seen' = [cg_seen EXCEPT ![self] = TreeW(0, FALSE, 0)]
                                        /\ pc' = [pc EXCEPT ![self] = "cg_load"]
                                        /\ UNCHANGED << rv, ac_id, ac_mclass, 
                                                        ac_mfree, ac_cclass, 
                                                        ac_cop, ac_i, ac_done >>
                        ELSE /\ ac_i' = [ac_i EXCEPT ![self] = 0]
                             /\ ac_done' = [ac_done EXCEPT ![self] = FALSE]
                             /\ pc' = [pc EXCEPT ![self] = "ac_search"]
                             /\ UNCHANGED << rv, stack, cg_t, cg_mclass, 
                                             cg_mfree, cg_cclass, cg_cop, 
                                             cg_prev, cg_done, cg_fetched, 
                                             cg_h, cg_v, cg_next, cg_ok, 
                                             cg_seen, ac_id, ac_mclass, 
                                             ac_mfree, ac_cclass, ac_cop >>
                  /\ UNCHANGED << mem, held, results, inflight, panicked, hid, 
                                  lastop, dp_why, tu_loc, tu_fn, tu_arg, 
                                  tu_prev, tu_next, tu_done, tu_ok, tu_seen, 
                                  lg_row, lg_order, lg_tree, lg_off, lg_j, 
                                  lg_i, lg_h, lg_found, lg_frame, lg_n, ca_h0, 
                                  ca_num, ca_cur, ca_new, ca_i, ca_ok, ca_seen, 
                                  ca_j, sf_h, sf_start, sf_order, sf_i, sf_r, 
                                  sf_found, sf_off, sf_nrows, sf_c, sf_k, sf_v, 
                                  sf_zero, sf_ok, sf_seen, sf_u, tg_h, tg_off, 
                                  tg_order, tg_exp, tg_ok, tg_i, tg_n, tg_seen, 
                                  tg_u, tg_r0, la_frame, la_order, la_h, 
                                  ps_frame, ps_order, lp_frame, lp_order, lp_h, 
                                  lp_old, lp_ok, lp_seen, lp_spin, lp_v, tp_t, 
                                  tp_n, tu2_t, tu2_free, tu2_class, gl_order, 
                                  gl_class, gl_local, gl_frame, gl_sync, 
                                  gl_row, gl_res, gl_min, gl_got, sg_i, 
                                  sg_class, sg_order, sg_frame, sg_c, rs_i, 
                                  rs_order, rs_class, rs_local, rs_reserved, 
                                  rs_free, rs_tc, rs_frame, rs_old, sb_n, 
                                  sb_start, sb_offset, sb_len, sb_mode, 
                                  sb_order, sb_class, sb_local, sb_i, sb_idx, 
                                  sb_t, sb_p, sb_best, sb_done, sb_k, sl_class, 
                                  sl_local, sl_order, sl_frame, sl_i, sl_tc, 
                                  sl_j, sl_found, sl_row, sl_jj, dl_class, 
                                  dl_local, dl_order, dl_frame, dl_i, dl_tc, 
                                  dl_j, dl_found, dl_new, dl_old, dl_jj, 
                                  dl_oldclass, ag_order, ag_class, ag_local, 
                                  ag_frame, ag_len, ag_start, ag_near, ag_done, 
                                  ap_frame, ap_order, ap_class, ap_local, ad_c, 
                                  ad_k, ad_old, pcx, cur, blk >>

ac_search(self) == /\ pc[self] = "ac_search"
                   /\ IF ac_i[self] < NT /\ ~ac_done[self]
                         THEN /\ /\ cg_cclass' = [cg_cclass EXCEPT ![self] = ac_cclass[self]]
                                 /\ cg_cop' = [cg_cop EXCEPT ![self] = ac_cop[self]]
                                 /\ cg_mclass' = [cg_mclass EXCEPT ![self] = ac_mclass[self]]
                                 /\ cg_mfree' = [cg_mfree EXCEPT ![self] = ac_mfree[self]]
                                 /\ cg_t' = [cg_t EXCEPT ![self] = SearchIdx(0, ac_i[self])]
                                 /\ stack' = [stack EXCEPT ![self] = << [ procedure |->  "change_at",
                                                                          pc        |->  "ac_search_r",
                                                                          cg_prev   |->  cg_prev[self],
                                                                          cg_done   |->  cg_done[self],
                                                                          cg_fetched |->  cg_fetched[self],
                                                                          cg_h      |->  cg_h[self],
                                                                          cg_v      |->  cg_v[self],
                                                                          cg_next   |->  cg_next[self],
                                                                          cg_ok     |->  cg_ok[self],
                                                                          cg_seen   |->  cg_seen[self],
                                                                          cg_t      |->  cg_t[self],
                                                                          cg_mclass |->  cg_mclass[self],
                                                                          cg_mfree  |->  cg_mfree[self],
                                                                          cg_cclass |->  cg_cclass[self],
                                                                          cg_cop    |->  cg_cop[self] ] >>
                                                                      \o stack[self]]
                              /\ cg_prev' = [cg_prev EXCEPT ![self] = TreeW(0, FALSE, 0)]
                              /\ cg_done' = [cg_done EXCEPT ![self] = FALSE]
                              /\ cg_fetched' = [cg_fetched EXCEPT ![self] = 0]
                              /\ cg_h' = [cg_h EXCEPT ![self] = 0]
                              /\ cg_v' = [cg_v EXCEPT ![self] = 0]
                              /\ cg_next' = [cg_next EXCEPT ![self] = <<>>]
                              /\ cg_ok' = [cg_ok EXCEPT ![self] = FALSE]
                              /\ cg_seen' = [cg_seen EXCEPT ![self] = TreeW(0, FALSE, 0)]
                              /\ pc' = [pc EXCEPT ![self] = "cg_load"]
                              /\ UNCHANGED << rv, ac_id, ac_mclass, ac_mfree, 
                                              ac_cclass, ac_cop, ac_i, ac_done >>
                         ELSE /\ IF ~ac_done[self]
                                    THEN /\ rv' = [rv EXCEPT ![self] = [ok |-> FALSE, err |-> "mem"]]
                                    ELSE /\ TRUE
                                         /\ rv' = rv
                              /\ pc' = [pc EXCEPT ![self] = Head(stack[self]).pc]
                              /\ ac_i' = [ac_i EXCEPT ![self] = Head(stack[self]).ac_i]
                              /\ ac_done' = [ac_done EXCEPT ![self] = Head(stack[self]).ac_done]
                              /\ ac_id' = [ac_id EXCEPT ![self] = Head(stack[self]).ac_id]
                              /\ ac_mclass' = [ac_mclass EXCEPT ![self] = Head(stack[self]).ac_mclass]
                              /\ ac_mfree' = [ac_mfree EXCEPT ![self] = Head(stack[self]).ac_mfree]
                              /\ ac_cclass' = [ac_cclass EXCEPT ![self] = Head(stack[self]).ac_cclass]
                              /\ ac_cop' = [ac_cop EXCEPT ![self] = Head(stack[self]).ac_cop]
                              /\ stack' = [stack EXCEPT ![self] = Tail(stack[self])]
                              /\ UNCHANGED << cg_t, cg_mclass, cg_mfree, 
                                              cg_cclass, cg_cop, cg_prev, 
                                              cg_done, cg_fetched, cg_h, cg_v, 
                                              cg_next, cg_ok, cg_seen >>
                   /\ UNCHANGED << mem, held, results, inflight, panicked, hid, 
                                   lastop, dp_why, tu_loc, tu_fn, tu_arg, 
                                   tu_prev, tu_next, tu_done, tu_ok, tu_seen, 
                                   lg_row, lg_order, lg_tree, lg_off, lg_j, 
                                   lg_i, lg_h, lg_found, lg_frame, lg_n, ca_h0, 
                                   ca_num, ca_cur, ca_new, ca_i, ca_ok, 
                                   ca_seen, ca_j, sf_h, sf_start, sf_order, 
                                   sf_i, sf_r, sf_found, sf_off, sf_nrows, 
                                   sf_c, sf_k, sf_v, sf_zero, sf_ok, sf_seen, 
                                   sf_u, tg_h, tg_off, tg_order, tg_exp, tg_ok, 
                                   tg_i, tg_n, tg_seen, tg_u, tg_r0, la_frame, 
                                   la_order, la_h, ps_frame, ps_order, 
                                   lp_frame, lp_order, lp_h, lp_old, lp_ok, 
                                   lp_seen, lp_spin, lp_v, tp_t, tp_n, tu2_t, 
                                   tu2_free, tu2_class, gl_order, gl_class, 
                                   gl_local, gl_frame, gl_sync, gl_row, gl_res, 
                                   gl_min, gl_got, sg_i, sg_class, sg_order, 
                                   sg_frame, sg_c, rs_i, rs_order, rs_class, 
                                   rs_local, rs_reserved, rs_free, rs_tc, 
                                   rs_frame, rs_old, sb_n, sb_start, sb_offset, 
                                   sb_len, sb_mode, sb_order, sb_class, 
                                   sb_local, sb_i, sb_idx, sb_t, sb_p, sb_best, 
                                   sb_done, sb_k, sl_class, sl_local, sl_order, 
                                   sl_frame, sl_i, sl_tc, sl_j, sl_found, 
                                   sl_row, sl_jj, dl_class, dl_local, dl_order, 
                                   dl_frame, dl_i, dl_tc, dl_j, dl_found, 
                                   dl_new, dl_old, dl_jj, dl_oldclass, 
                                   ag_order, ag_class, ag_local, ag_frame, 
                                   ag_len, ag_start, ag_near, ag_done, 
                                   ap_frame, ap_order, ap_class, ap_local, 
                                   ad_c, ad_k, ad_old, pcx, cur, blk >>

ac_search_r(self) == /\ pc[self] = "ac_search_r"
                     /\ IF rv[self].ok
                           THEN /\ ac_done' = [ac_done EXCEPT ![self] = TRUE]
                                /\ ac_i' = ac_i
                           ELSE /\ ac_i' = [ac_i EXCEPT ![self] = ac_i[self] + 1]
                                /\ UNCHANGED ac_done
                     /\ pc' = [pc EXCEPT ![self] = "ac_search"]
                     /\ UNCHANGED << mem, held, results, inflight, rv, 
                                     panicked, hid, lastop, stack, dp_why, 
                                     tu_loc, tu_fn, tu_arg, tu_prev, tu_next, 
                                     tu_done, tu_ok, tu_seen, lg_row, lg_order, 
                                     lg_tree, lg_off, lg_j, lg_i, lg_h, 
                                     lg_found, lg_frame, lg_n, ca_h0, ca_num, 
                                     ca_cur, ca_new, ca_i, ca_ok, ca_seen, 
                                     ca_j, sf_h, sf_start, sf_order, sf_i, 
                                     sf_r, sf_found, sf_off, sf_nrows, sf_c, 
                                     sf_k, sf_v, sf_zero, sf_ok, sf_seen, sf_u, 
                                     tg_h, tg_off, tg_order, tg_exp, tg_ok, 
                                     tg_i, tg_n, tg_seen, tg_u, tg_r0, 
                                     la_frame, la_order, la_h, ps_frame, 
                                     ps_order, lp_frame, lp_order, lp_h, 
                                     lp_old, lp_ok, lp_seen, lp_spin, lp_v, 
                                     tp_t, tp_n, tu2_t, tu2_free, tu2_class, 
                                     gl_order, gl_class, gl_local, gl_frame, 
                                     gl_sync, gl_row, gl_res, gl_min, gl_got, 
                                     sg_i, sg_class, sg_order, sg_frame, sg_c, 
                                     rs_i, rs_order, rs_class, rs_local, 
                                     rs_reserved, rs_free, rs_tc, rs_frame, 
                                     rs_old, sb_n, sb_start, sb_offset, sb_len, 
                                     sb_mode, sb_order, sb_class, sb_local, 
                                     sb_i, sb_idx, sb_t, sb_p, sb_best, 
                                     sb_done, sb_k, sl_class, sl_local, 
                                     sl_order, sl_frame, sl_i, sl_tc, sl_j, 
                                     sl_found, sl_row, sl_jj, dl_class, 
                                     dl_local, dl_order, dl_frame, dl_i, dl_tc, 
                                     dl_j, dl_found, dl_new, dl_old, dl_jj, 
                                     dl_oldclass, ag_order, ag_class, ag_local, 
                                     ag_frame, ag_len, ag_start, ag_near, 
                                     ag_done, ap_frame, ap_order, ap_class, 
                                     ap_local, ad_c, ad_k, ad_old, cg_t, 
                                     cg_mclass, cg_mfree, cg_cclass, cg_cop, 
                                     cg_prev, cg_done, cg_fetched, cg_h, cg_v, 
                                     cg_next, cg_ok, cg_seen, ac_id, ac_mclass, 
                                     ac_mfree, ac_cclass, ac_cop, pcx, cur, 
                                     blk >>

ac_id_r(self) == /\ pc[self] = "ac_id_r"
                 /\ pc' = [pc EXCEPT ![self] = Head(stack[self]).pc]
                 /\ ac_i' = [ac_i EXCEPT ![self] = Head(stack[self]).ac_i]
                 /\ ac_done' = [ac_done EXCEPT ![self] = Head(stack[self]).ac_done]
                 /\ ac_id' = [ac_id EXCEPT ![self] = Head(stack[self]).ac_id]
                 /\ ac_mclass' = [ac_mclass EXCEPT ![self] = Head(stack[self]).ac_mclass]
                 /\ ac_mfree' = [ac_mfree EXCEPT ![self] = Head(stack[self]).ac_mfree]
                 /\ ac_cclass' = [ac_cclass EXCEPT ![self] = Head(stack[self]).ac_cclass]
                 /\ ac_cop' = [ac_cop EXCEPT ![self] = Head(stack[self]).ac_cop]
                 /\ stack' = [stack EXCEPT ![self] = Tail(stack[self])]
                 /\ UNCHANGED << mem, held, results, inflight, rv, panicked, 
                                 hid, lastop, dp_why, tu_loc, tu_fn, tu_arg, 
                                 tu_prev, tu_next, tu_done, tu_ok, tu_seen, 
                                 lg_row, lg_order, lg_tree, lg_off, lg_j, lg_i, 
                                 lg_h, lg_found, lg_frame, lg_n, ca_h0, ca_num, 
                                 ca_cur, ca_new, ca_i, ca_ok, ca_seen, ca_j, 
                                 sf_h, sf_start, sf_order, sf_i, sf_r, 
                                 sf_found, sf_off, sf_nrows, sf_c, sf_k, sf_v, 
                                 sf_zero, sf_ok, sf_seen, sf_u, tg_h, tg_off, 
                                 tg_order, tg_exp, tg_ok, tg_i, tg_n, tg_seen, 
                                 tg_u, tg_r0, la_frame, la_order, la_h, 
                                 ps_frame, ps_order, lp_frame, lp_order, lp_h, 
                                 lp_old, lp_ok, lp_seen, lp_spin, lp_v, tp_t, 
                                 tp_n, tu2_t, tu2_free, tu2_class, gl_order, 
                                 gl_class, gl_local, gl_frame, gl_sync, gl_row, 
                                 gl_res, gl_min, gl_got, sg_i, sg_class, 
                                 sg_order, sg_frame, sg_c, rs_i, rs_order, 
                                 rs_class, rs_local, rs_reserved, rs_free, 
                                 rs_tc, rs_frame, rs_old, sb_n, sb_start, 
                                 sb_offset, sb_len, sb_mode, sb_order, 
                                 sb_class, sb_local, sb_i, sb_idx, sb_t, sb_p, 
                                 sb_best, sb_done, sb_k, sl_class, sl_local, 
                                 sl_order, sl_frame, sl_i, sl_tc, sl_j, 
                                 sl_found, sl_row, sl_jj, dl_class, dl_local, 
                                 dl_order, dl_frame, dl_i, dl_tc, dl_j, 
                                 dl_found, dl_new, dl_old, dl_jj, dl_oldclass, 
                                 ag_order, ag_class, ag_local, ag_frame, 
                                 ag_len, ag_start, ag_near, ag_done, ap_frame, 
                                 ap_order, ap_class, ap_local, ad_c, ad_k, 
                                 ad_old, cg_t, cg_mclass, cg_mfree, cg_cclass, 
                                 cg_cop, cg_prev, cg_done, cg_fetched, cg_h, 
                                 cg_v, cg_next, cg_ok, cg_seen, pcx, cur, blk >>

api_change(self) == ac_begin(self) \/ ac_search(self) \/ ac_search_r(self)
                       \/ ac_id_r(self)

t_loop(self) == /\ pc[self] = "t_loop"
                /\ IF pcx[self] <= Len(Prog[self])
                      THEN /\ cur' = [cur EXCEPT ![self] = Prog[self][pcx[self]]]
                           /\ IF cur'[self].op = "get"
                                 THEN /\ inflight' = [inflight EXCEPT ![self] = cur'[self]]
                                      /\ /\ ag_class' = [ag_class EXCEPT ![self] = cur'[self].class]
                                         /\ ag_frame' = [ag_frame EXCEPT ![self] = cur'[self].target]
                                         /\ ag_local' = [ag_local EXCEPT ![self] = cur'[self].slot]
                                         /\ ag_order' = [ag_order EXCEPT ![self] = cur'[self].order]
                                         /\ stack' = [stack EXCEPT ![self] = << [ procedure |->  "api_get",
                                                                                  pc        |->  "t_get_r",
                                                                                  ag_len    |->  ag_len[self],
                                                                                  ag_start  |->  ag_start[self],
                                                                                  ag_near   |->  ag_near[self],
                                                                                  ag_done   |->  ag_done[self],
                                                                                  ag_order  |->  ag_order[self],
                                                                                  ag_class  |->  ag_class[self],
                                                                                  ag_local  |->  ag_local[self],
                                                                                  ag_frame  |->  ag_frame[self] ] >>
                                                                              \o stack[self]]
                                      /\ ag_len' = [ag_len EXCEPT ![self] = 0]
                                      /\ ag_start' = [ag_start EXCEPT ![self] = 0]
                                      /\ ag_near' = [ag_near EXCEPT ![self] = 0]
                                      /\ ag_done' = [ag_done EXCEPT ![self] = FALSE]
                                      /\ pc' = [pc EXCEPT ![self] = "ag_begin"]
                                      /\ UNCHANGED << held, ap_frame, ap_order, 
                                                      ap_class, ap_local, ad_c, 
                                                      ad_k, ad_old, ac_id, 
                                                      ac_mclass, ac_mfree, 
                                                      ac_cclass, ac_cop, ac_i, 
                                                      ac_done, blk >>
                                 ELSE /\ IF cur'[self].op = "put"
                                            THEN /\ IF cur'[self].idx <= Len(held[self]) /\ held[self][cur'[self].idx] # Freed
                                                       THEN /\ blk' = [blk EXCEPT ![self] = held[self][cur'[self].idx]]
                                                            /\ held' = [held EXCEPT ![self][cur'[self].idx] = Freed]
                                                            /\ inflight' = [inflight EXCEPT ![self] = [op |-> "put", frame |-> blk'[self][1] + (IF cur'[self].sub < blk'[self][2] THEN (cur'[self].part % P2(blk'[self][2] - cur'[self].sub)) * P2(cur'[self].sub) ELSE 0),
                                                                                                       order |-> MinI(cur'[self].sub, blk'[self][2]), of |-> blk'[self]]]
                                                            /\ /\ ap_class' = [ap_class EXCEPT ![self] = cur'[self].class]
                                                               /\ ap_frame' = [ap_frame EXCEPT ![self] = inflight'[self].frame]
                                                               /\ ap_local' = [ap_local EXCEPT ![self] = cur'[self].slot]
                                                               /\ ap_order' = [ap_order EXCEPT ![self] = inflight'[self].order]
                                                               /\ stack' = [stack EXCEPT ![self] = << [ procedure |->  "api_put",
                                                                                                        pc        |->  "t_put_r",
                                                                                                        ap_frame  |->  ap_frame[self],
                                                                                                        ap_order  |->  ap_order[self],
                                                                                                        ap_class  |->  ap_class[self],
                                                                                                        ap_local  |->  ap_local[self] ] >>
                                                                                                    \o stack[self]]
                                                            /\ pc' = [pc EXCEPT ![self] = "ap_begin"]
                                                       ELSE /\ pc' = [pc EXCEPT ![self] = "t_next"]
                                                            /\ UNCHANGED << held, 
                                                                            inflight, 
                                                                            stack, 
                                                                            ap_frame, 
                                                                            ap_order, 
                                                                            ap_class, 
                                                                            ap_local, 
                                                                            blk >>
                                                 /\ UNCHANGED << ad_c, ad_k, 
                                                                 ad_old, ac_id, 
                                                                 ac_mclass, 
                                                                 ac_mfree, 
                                                                 ac_cclass, 
                                                                 ac_cop, ac_i, 
                                                                 ac_done >>
                                            ELSE /\ IF cur'[self].op = "putraw"
                                                       THEN /\ inflight' = [inflight EXCEPT ![self] = [op |-> "put", frame |-> cur'[self].frame, order |-> cur'[self].order, of |-> Freed]]
                                                            /\ /\ ap_class' = [ap_class EXCEPT ![self] = cur'[self].class]
                                                               /\ ap_frame' = [ap_frame EXCEPT ![self] = cur'[self].frame]
                                                               /\ ap_local' = [ap_local EXCEPT ![self] = cur'[self].slot]
                                                               /\ ap_order' = [ap_order EXCEPT ![self] = cur'[self].order]
                                                               /\ stack' = [stack EXCEPT ![self] = << [ procedure |->  "api_put",
                                                                                                        pc        |->  "t_putraw_r",
                                                                                                        ap_frame  |->  ap_frame[self],
                                                                                                        ap_order  |->  ap_order[self],
                                                                                                        ap_class  |->  ap_class[self],
                                                                                                        ap_local  |->  ap_local[self] ] >>
                                                                                                    \o stack[self]]
                                                            /\ pc' = [pc EXCEPT ![self] = "ap_begin"]
                                                            /\ UNCHANGED << ad_c, 
                                                                            ad_k, 
                                                                            ad_old, 
                                                                            ac_id, 
                                                                            ac_mclass, 
                                                                            ac_mfree, 
                                                                            ac_cclass, 
                                                                            ac_cop, 
                                                                            ac_i, 
                                                                            ac_done >>
                                                       ELSE /\ IF cur'[self].op = "change"
                                                                  THEN /\ inflight' = [inflight EXCEPT ![self] = cur'[self]]
                                                                       /\ /\ ac_cclass' = [ac_cclass EXCEPT ![self] = cur'[self].cclass]
                                                                          /\ ac_cop' = [ac_cop EXCEPT ![self] = cur'[self].cop]
                                                                          /\ ac_id' = [ac_id EXCEPT ![self] = cur'[self].id]
                                                                          /\ ac_mclass' = [ac_mclass EXCEPT ![self] = cur'[self].mclass]
                                                                          /\ ac_mfree' = [ac_mfree EXCEPT ![self] = cur'[self].mfree]
                                                                          /\ stack' = [stack EXCEPT ![self] = << [ procedure |->  "api_change",
                                                                                                                   pc        |->  "t_change_r",
                                                                                                                   ac_i      |->  ac_i[self],
                                                                                                                   ac_done   |->  ac_done[self],
                                                                                                                   ac_id     |->  ac_id[self],
                                                                                                                   ac_mclass |->  ac_mclass[self],
                                                                                                                   ac_mfree  |->  ac_mfree[self],
                                                                                                                   ac_cclass |->  ac_cclass[self],
                                                                                                                   ac_cop    |->  ac_cop[self] ] >>
                                                                                                               \o stack[self]]
                                                                       /\ ac_i' = [ac_i EXCEPT ![self] = 0]
                                                                       /\ ac_done' = [ac_done EXCEPT ![self] = FALSE]
                                                                       /\ pc' = [pc EXCEPT ![self] = "ac_begin"]
                                                                       /\ UNCHANGED << ad_c, 
                                                                                       ad_k, 
                                                                                       ad_old >>
                                                                  ELSE /\ IF cur'[self].op = "drain"
                                                                             THEN /\ inflight' = [inflight EXCEPT ![self] = cur'[self]]
                                                                                  /\ stack' = [stack EXCEPT ![self] = << [ procedure |->  "api_drain",
                                                                                                                           pc        |->  "t_drain_r",
                                                                                                                           ad_c      |->  ad_c[self],
                                                                                                                           ad_k      |->  ad_k[self],
                                                                                                                           ad_old    |->  ad_old[self] ] >>
                                                                                                                       \o stack[self]]
                                                                                  /\ ad_c' = [ad_c EXCEPT ![self] = 0]
                                                                                  /\ ad_k' = [ad_k EXCEPT ![self] = 0]
                                                                                  /\ ad_old' = [ad_old EXCEPT ![self] = SlotNone]
                                                                                  /\ pc' = [pc EXCEPT ![self] = "ad_begin"]
                                                                             ELSE /\ pc' = [pc EXCEPT ![self] = "t_next"]
                                                                                  /\ UNCHANGED << inflight, 
                                                                                                  stack, 
                                                                                                  ad_c, 
                                                                                                  ad_k, 
                                                                                                  ad_old >>
                                                                       /\ UNCHANGED << ac_id, 
                                                                                       ac_mclass, 
                                                                                       ac_mfree, 
                                                                                       ac_cclass, 
                                                                                       ac_cop, 
                                                                                       ac_i, 
                                                                                       ac_done >>
                                                            /\ UNCHANGED << ap_frame, 
                                                                            ap_order, 
                                                                            ap_class, 
                                                                            ap_local >>
                                                 /\ UNCHANGED << held, blk >>
                                      /\ UNCHANGED << ag_order, ag_class, 
                                                      ag_local, ag_frame, 
                                                      ag_len, ag_start, 
                                                      ag_near, ag_done >>
                      ELSE /\ pc' = [pc EXCEPT ![self] = "Done"]
                           /\ UNCHANGED << held, inflight, stack, ag_order, 
                                           ag_class, ag_local, ag_frame, 
                                           ag_len, ag_start, ag_near, ag_done, 
                                           ap_frame, ap_order, ap_class, 
                                           ap_local, ad_c, ad_k, ad_old, ac_id, 
                                           ac_mclass, ac_mfree, ac_cclass, 
                                           ac_cop, ac_i, ac_done, cur, blk >>
                /\ UNCHANGED << mem, results, rv, panicked, hid, lastop, 
                                dp_why, tu_loc, tu_fn, tu_arg, tu_prev, 
                                tu_next, tu_done, tu_ok, tu_seen, lg_row, 
                                lg_order, lg_tree, lg_off, lg_j, lg_i, lg_h, 
                                lg_found, lg_frame, lg_n, ca_h0, ca_num, 
                                ca_cur, ca_new, ca_i, ca_ok, ca_seen, ca_j, 
                                sf_h, sf_start, sf_order, sf_i, sf_r, sf_found, 
                                sf_off, sf_nrows, sf_c, sf_k, sf_v, sf_zero, 
                                sf_ok, sf_seen, sf_u, tg_h, tg_off, tg_order, 
                                tg_exp, tg_ok, tg_i, tg_n, tg_seen, tg_u, 
                                tg_r0, la_frame, la_order, la_h, ps_frame, 
                                ps_order, lp_frame, lp_order, lp_h, lp_old, 
                                lp_ok, lp_seen, lp_spin, lp_v, tp_t, tp_n, 
                                tu2_t, tu2_free, tu2_class, gl_order, gl_class, 
                                gl_local, gl_frame, gl_sync, gl_row, gl_res, 
                                gl_min, gl_got, sg_i, sg_class, sg_order, 
                                sg_frame, sg_c, rs_i, rs_order, rs_class, 
                                rs_local, rs_reserved, rs_free, rs_tc, 
                                rs_frame, rs_old, sb_n, sb_start, sb_offset, 
                                sb_len, sb_mode, sb_order, sb_class, sb_local, 
                                sb_i, sb_idx, sb_t, sb_p, sb_best, sb_done, 
                                sb_k, sl_class, sl_local, sl_order, sl_frame, 
                                sl_i, sl_tc, sl_j, sl_found, sl_row, sl_jj, 
                                dl_class, dl_local, dl_order, dl_frame, dl_i, 
                                dl_tc, dl_j, dl_found, dl_new, dl_old, dl_jj, 
                                dl_oldclass, cg_t, cg_mclass, cg_mfree, 
                                cg_cclass, cg_cop, cg_prev, cg_done, 
                                cg_fetched, cg_h, cg_v, cg_next, cg_ok, 
                                cg_seen, pcx >>

t_next(self) == /\ pc[self] = "t_next"
                /\ pcx' = [pcx EXCEPT ![self] = pcx[self] + 1]
                /\ pc' = [pc EXCEPT ![self] = "t_loop"]
                /\ UNCHANGED << mem, held, results, inflight, rv, panicked, 
                                hid, lastop, stack, dp_why, tu_loc, tu_fn, 
                                tu_arg, tu_prev, tu_next, tu_done, tu_ok, 
                                tu_seen, lg_row, lg_order, lg_tree, lg_off, 
                                lg_j, lg_i, lg_h, lg_found, lg_frame, lg_n, 
                                ca_h0, ca_num, ca_cur, ca_new, ca_i, ca_ok, 
                                ca_seen, ca_j, sf_h, sf_start, sf_order, sf_i, 
                                sf_r, sf_found, sf_off, sf_nrows, sf_c, sf_k, 
                                sf_v, sf_zero, sf_ok, sf_seen, sf_u, tg_h, 
                                tg_off, tg_order, tg_exp, tg_ok, tg_i, tg_n, 
                                tg_seen, tg_u, tg_r0, la_frame, la_order, la_h, 
                                ps_frame, ps_order, lp_frame, lp_order, lp_h, 
                                lp_old, lp_ok, lp_seen, lp_spin, lp_v, tp_t, 
                                tp_n, tu2_t, tu2_free, tu2_class, gl_order, 
                                gl_class, gl_local, gl_frame, gl_sync, gl_row, 
                                gl_res, gl_min, gl_got, sg_i, sg_class, 
                                sg_order, sg_frame, sg_c, rs_i, rs_order, 
                                rs_class, rs_local, rs_reserved, rs_free, 
                                rs_tc, rs_frame, rs_old, sb_n, sb_start, 
                                sb_offset, sb_len, sb_mode, sb_order, sb_class, 
                                sb_local, sb_i, sb_idx, sb_t, sb_p, sb_best, 
                                sb_done, sb_k, sl_class, sl_local, sl_order, 
                                sl_frame, sl_i, sl_tc, sl_j, sl_found, sl_row, 
                                sl_jj, dl_class, dl_local, dl_order, dl_frame, 
                                dl_i, dl_tc, dl_j, dl_found, dl_new, dl_old, 
                                dl_jj, dl_oldclass, ag_order, ag_class, 
                                ag_local, ag_frame, ag_len, ag_start, ag_near, 
                                ag_done, ap_frame, ap_order, ap_class, 
                                ap_local, ad_c, ad_k, ad_old, cg_t, cg_mclass, 
                                cg_mfree, cg_cclass, cg_cop, cg_prev, cg_done, 
                                cg_fetched, cg_h, cg_v, cg_next, cg_ok, 
                                cg_seen, ac_id, ac_mclass, ac_mfree, ac_cclass, 
                                ac_cop, ac_i, ac_done, cur, blk >>

t_get_r(self) == /\ pc[self] = "t_get_r"
                 /\ results' = [results EXCEPT ![self] = Append(results[self], [op |-> "get", ok |-> rv[self].ok,
                                                                frame |-> IF rv[self].ok THEN rv[self].frame ELSE -1,
                                                                class |-> IF rv[self].ok THEN rv[self].class ELSE -1, err |-> rv[self].err])]
                 /\ IF rv[self].ok
                       THEN /\ held' = [held EXCEPT ![self] = Append(held[self], <<rv[self].frame, cur[self].order>>)]
                       ELSE /\ TRUE
                            /\ held' = held
                 /\ inflight' = [inflight EXCEPT ![self] = <<>>]
                 /\ pc' = [pc EXCEPT ![self] = "t_next"]
                 /\ UNCHANGED << mem, rv, panicked, hid, lastop, stack, dp_why, 
                                 tu_loc, tu_fn, tu_arg, tu_prev, tu_next, 
                                 tu_done, tu_ok, tu_seen, lg_row, lg_order, 
                                 lg_tree, lg_off, lg_j, lg_i, lg_h, lg_found, 
                                 lg_frame, lg_n, ca_h0, ca_num, ca_cur, ca_new, 
                                 ca_i, ca_ok, ca_seen, ca_j, sf_h, sf_start, 
                                 sf_order, sf_i, sf_r, sf_found, sf_off, 
                                 sf_nrows, sf_c, sf_k, sf_v, sf_zero, sf_ok, 
                                 sf_seen, sf_u, tg_h, tg_off, tg_order, tg_exp, 
                                 tg_ok, tg_i, tg_n, tg_seen, tg_u, tg_r0, 
                                 la_frame, la_order, la_h, ps_frame, ps_order, 
                                 lp_frame, lp_order, lp_h, lp_old, lp_ok, 
                                 lp_seen, lp_spin, lp_v, tp_t, tp_n, tu2_t, 
                                 tu2_free, tu2_class, gl_order, gl_class, 
                                 gl_local, gl_frame, gl_sync, gl_row, gl_res, 
                                 gl_min, gl_got, sg_i, sg_class, sg_order, 
                                 sg_frame, sg_c, rs_i, rs_order, rs_class, 
                                 rs_local, rs_reserved, rs_free, rs_tc, 
                                 rs_frame, rs_old, sb_n, sb_start, sb_offset, 
                                 sb_len, sb_mode, sb_order, sb_class, sb_local, 
                                 sb_i, sb_idx, sb_t, sb_p, sb_best, sb_done, 
                                 sb_k, sl_class, sl_local, sl_order, sl_frame, 
                                 sl_i, sl_tc, sl_j, sl_found, sl_row, sl_jj, 
                                 dl_class, dl_local, dl_order, dl_frame, dl_i, 
                                 dl_tc, dl_j, dl_found, dl_new, dl_old, dl_jj, 
                                 dl_oldclass, ag_order, ag_class, ag_local, 
                                 ag_frame, ag_len, ag_start, ag_near, ag_done, 
                                 ap_frame, ap_order, ap_class, ap_local, ad_c, 
                                 ad_k, ad_old, cg_t, cg_mclass, cg_mfree, 
                                 cg_cclass, cg_cop, cg_prev, cg_done, 
                                 cg_fetched, cg_h, cg_v, cg_next, cg_ok, 
                                 cg_seen, ac_id, ac_mclass, ac_mfree, 
                                 ac_cclass, ac_cop, ac_i, ac_done, pcx, cur, 
                                 blk >>

t_put_r(self) == /\ pc[self] = "t_put_r"
                 /\ results' = [results EXCEPT ![self] = Append(results[self], [op |-> "put", ok |-> rv[self].ok, frame |-> inflight[self].frame,
                                                                class |-> -1, err |-> rv[self].err])]
                 /\ inflight' = [inflight EXCEPT ![self] = <<>>]
                 /\ pc' = [pc EXCEPT ![self] = "t_next"]
                 /\ UNCHANGED << mem, held, rv, panicked, hid, lastop, stack, 
                                 dp_why, tu_loc, tu_fn, tu_arg, tu_prev, 
                                 tu_next, tu_done, tu_ok, tu_seen, lg_row, 
                                 lg_order, lg_tree, lg_off, lg_j, lg_i, lg_h, 
                                 lg_found, lg_frame, lg_n, ca_h0, ca_num, 
                                 ca_cur, ca_new, ca_i, ca_ok, ca_seen, ca_j, 
                                 sf_h, sf_start, sf_order, sf_i, sf_r, 
                                 sf_found, sf_off, sf_nrows, sf_c, sf_k, sf_v, 
                                 sf_zero, sf_ok, sf_seen, sf_u, tg_h, tg_off, 
                                 tg_order, tg_exp, tg_ok, tg_i, tg_n, tg_seen, 
                                 tg_u, tg_r0, la_frame, la_order, la_h, 
                                 ps_frame, ps_order, lp_frame, lp_order, lp_h, 
                                 lp_old, lp_ok, lp_seen, lp_spin, lp_v, tp_t, 
                                 tp_n, tu2_t, tu2_free, tu2_class, gl_order, 
                                 gl_class, gl_local, gl_frame, gl_sync, gl_row, 
                                 gl_res, gl_min, gl_got, sg_i, sg_class, 
                                 sg_order, sg_frame, sg_c, rs_i, rs_order, 
                                 rs_class, rs_local, rs_reserved, rs_free, 
                                 rs_tc, rs_frame, rs_old, sb_n, sb_start, 
                                 sb_offset, sb_len, sb_mode, sb_order, 
                                 sb_class, sb_local, sb_i, sb_idx, sb_t, sb_p, 
                                 sb_best, sb_done, sb_k, sl_class, sl_local, 
                                 sl_order, sl_frame, sl_i, sl_tc, sl_j, 
                                 sl_found, sl_row, sl_jj, dl_class, dl_local, 
                                 dl_order, dl_frame, dl_i, dl_tc, dl_j, 
                                 dl_found, dl_new, dl_old, dl_jj, dl_oldclass, 
                                 ag_order, ag_class, ag_local, ag_frame, 
                                 ag_len, ag_start, ag_near, ag_done, ap_frame, 
                                 ap_order, ap_class, ap_local, ad_c, ad_k, 
                                 ad_old, cg_t, cg_mclass, cg_mfree, cg_cclass, 
                                 cg_cop, cg_prev, cg_done, cg_fetched, cg_h, 
                                 cg_v, cg_next, cg_ok, cg_seen, ac_id, 
                                 ac_mclass, ac_mfree, ac_cclass, ac_cop, ac_i, 
                                 ac_done, pcx, cur, blk >>

t_putraw_r(self) == /\ pc[self] = "t_putraw_r"
                    /\ results' = [results EXCEPT ![self] = Append(results[self], [op |-> "put", ok |-> rv[self].ok, frame |-> cur[self].frame,
                                                                   class |-> -1, err |-> rv[self].err])]
                    /\ inflight' = [inflight EXCEPT ![self] = <<>>]
                    /\ pc' = [pc EXCEPT ![self] = "t_next"]
                    /\ UNCHANGED << mem, held, rv, panicked, hid, lastop, 
                                    stack, dp_why, tu_loc, tu_fn, tu_arg, 
                                    tu_prev, tu_next, tu_done, tu_ok, tu_seen, 
                                    lg_row, lg_order, lg_tree, lg_off, lg_j, 
                                    lg_i, lg_h, lg_found, lg_frame, lg_n, 
                                    ca_h0, ca_num, ca_cur, ca_new, ca_i, ca_ok, 
                                    ca_seen, ca_j, sf_h, sf_start, sf_order, 
                                    sf_i, sf_r, sf_found, sf_off, sf_nrows, 
                                    sf_c, sf_k, sf_v, sf_zero, sf_ok, sf_seen, 
                                    sf_u, tg_h, tg_off, tg_order, tg_exp, 
                                    tg_ok, tg_i, tg_n, tg_seen, tg_u, tg_r0, 
                                    la_frame, la_order, la_h, ps_frame, 
                                    ps_order, lp_frame, lp_order, lp_h, lp_old, 
                                    lp_ok, lp_seen, lp_spin, lp_v, tp_t, tp_n, 
                                    tu2_t, tu2_free, tu2_class, gl_order, 
                                    gl_class, gl_local, gl_frame, gl_sync, 
                                    gl_row, gl_res, gl_min, gl_got, sg_i, 
                                    sg_class, sg_order, sg_frame, sg_c, rs_i, 
                                    rs_order, rs_class, rs_local, rs_reserved, 
                                    rs_free, rs_tc, rs_frame, rs_old, sb_n, 
                                    sb_start, sb_offset, sb_len, sb_mode, 
                                    sb_order, sb_class, sb_local, sb_i, sb_idx, 
                                    sb_t, sb_p, sb_best, sb_done, sb_k, 
                                    sl_class, sl_local, sl_order, sl_frame, 
                                    sl_i, sl_tc, sl_j, sl_found, sl_row, sl_jj, 
                                    dl_class, dl_local, dl_order, dl_frame, 
                                    dl_i, dl_tc, dl_j, dl_found, dl_new, 
                                    dl_old, dl_jj, dl_oldclass, ag_order, 
                                    ag_class, ag_local, ag_frame, ag_len, 
                                    ag_start, ag_near, ag_done, ap_frame, 
                                    ap_order, ap_class, ap_local, ad_c, ad_k, 
                                    ad_old, cg_t, cg_mclass, cg_mfree, 
                                    cg_cclass, cg_cop, cg_prev, cg_done, 
                                    cg_fetched, cg_h, cg_v, cg_next, cg_ok, 
                                    cg_seen, ac_id, ac_mclass, ac_mfree, 
                                    ac_cclass, ac_cop, ac_i, ac_done, pcx, cur, 
                                    blk >>

t_change_r(self) == /\ pc[self] = "t_change_r"
                    /\ results' = [results EXCEPT ![self] = Append(results[self], [op |-> "change", ok |-> rv[self].ok, frame |-> -1, class |-> -1, err |-> rv[self].err])]
                    /\ inflight' = [inflight EXCEPT ![self] = <<>>]
                    /\ pc' = [pc EXCEPT ![self] = "t_next"]
                    /\ UNCHANGED << mem, held, rv, panicked, hid, lastop, 
                                    stack, dp_why, tu_loc, tu_fn, tu_arg, 
                                    tu_prev, tu_next, tu_done, tu_ok, tu_seen, 
                                    lg_row, lg_order, lg_tree, lg_off, lg_j, 
                                    lg_i, lg_h, lg_found, lg_frame, lg_n, 
                                    ca_h0, ca_num, ca_cur, ca_new, ca_i, ca_ok, 
                                    ca_seen, ca_j, sf_h, sf_start, sf_order, 
                                    sf_i, sf_r, sf_found, sf_off, sf_nrows, 
                                    sf_c, sf_k, sf_v, sf_zero, sf_ok, sf_seen, 
                                    sf_u, tg_h, tg_off, tg_order, tg_exp, 
                                    tg_ok, tg_i, tg_n, tg_seen, tg_u, tg_r0, 
                                    la_frame, la_order, la_h, ps_frame, 
                                    ps_order, lp_frame, lp_order, lp_h, lp_old, 
                                    lp_ok, lp_seen, lp_spin, lp_v, tp_t, tp_n, 
                                    tu2_t, tu2_free, tu2_class, gl_order, 
                                    gl_class, gl_local, gl_frame, gl_sync, 
                                    gl_row, gl_res, gl_min, gl_got, sg_i, 
                                    sg_class, sg_order, sg_frame, sg_c, rs_i, 
                                    rs_order, rs_class, rs_local, rs_reserved, 
                                    rs_free, rs_tc, rs_frame, rs_old, sb_n, 
                                    sb_start, sb_offset, sb_len, sb_mode, 
                                    sb_order, sb_class, sb_local, sb_i, sb_idx, 
                                    sb_t, sb_p, sb_best, sb_done, sb_k, 
                                    sl_class, sl_local, sl_order, sl_frame, 
                                    sl_i, sl_tc, sl_j, sl_found, sl_row, sl_jj, 
                                    dl_class, dl_local, dl_order, dl_frame, 
                                    dl_i, dl_tc, dl_j, dl_found, dl_new, 
                                    dl_old, dl_jj, dl_oldclass, ag_order, 
                                    ag_class, ag_local, ag_frame, ag_len, 
                                    ag_start, ag_near, ag_done, ap_frame, 
                                    ap_order, ap_class, ap_local, ad_c, ad_k, 
                                    ad_old, cg_t, cg_mclass, cg_mfree, 
                                    cg_cclass, cg_cop, cg_prev, cg_done, 
                                    cg_fetched, cg_h, cg_v, cg_next, cg_ok, 
                                    cg_seen, ac_id, ac_mclass, ac_mfree, 
                                    ac_cclass, ac_cop, ac_i, ac_done, pcx, cur, 
                                    blk >>

t_drain_r(self) == /\ pc[self] = "t_drain_r"
                   /\ results' = [results EXCEPT ![self] = Append(results[self], [op |-> "drain", ok |-> TRUE, frame |-> -1, class |-> -1, err |-> ""])]
                   /\ inflight' = [inflight EXCEPT ![self] = <<>>]
                   /\ pc' = [pc EXCEPT ![self] = "t_next"]
                   /\ UNCHANGED << mem, held, rv, panicked, hid, lastop, stack, 
                                   dp_why, tu_loc, tu_fn, tu_arg, tu_prev, 
                                   tu_next, tu_done, tu_ok, tu_seen, lg_row, 
                                   lg_order, lg_tree, lg_off, lg_j, lg_i, lg_h, 
                                   lg_found, lg_frame, lg_n, ca_h0, ca_num, 
                                   ca_cur, ca_new, ca_i, ca_ok, ca_seen, ca_j, 
                                   sf_h, sf_start, sf_order, sf_i, sf_r, 
                                   sf_found, sf_off, sf_nrows, sf_c, sf_k, 
                                   sf_v, sf_zero, sf_ok, sf_seen, sf_u, tg_h, 
                                   tg_off, tg_order, tg_exp, tg_ok, tg_i, tg_n, 
                                   tg_seen, tg_u, tg_r0, la_frame, la_order, 
                                   la_h, ps_frame, ps_order, lp_frame, 
                                   lp_order, lp_h, lp_old, lp_ok, lp_seen, 
                                   lp_spin, lp_v, tp_t, tp_n, tu2_t, tu2_free, 
                                   tu2_class, gl_order, gl_class, gl_local, 
                                   gl_frame, gl_sync, gl_row, gl_res, gl_min, 
                                   gl_got, sg_i, sg_class, sg_order, sg_frame, 
                                   sg_c, rs_i, rs_order, rs_class, rs_local, 
                                   rs_reserved, rs_free, rs_tc, rs_frame, 
                                   rs_old, sb_n, sb_start, sb_offset, sb_len, 
                                   sb_mode, sb_order, sb_class, sb_local, sb_i, 
                                   sb_idx, sb_t, sb_p, sb_best, sb_done, sb_k, 
                                   sl_class, sl_local, sl_order, sl_frame, 
                                   sl_i, sl_tc, sl_j, sl_found, sl_row, sl_jj, 
                                   dl_class, dl_local, dl_order, dl_frame, 
                                   dl_i, dl_tc, dl_j, dl_found, dl_new, dl_old, 
                                   dl_jj, dl_oldclass, ag_order, ag_class, 
                                   ag_local, ag_frame, ag_len, ag_start, 
                                   ag_near, ag_done, ap_frame, ap_order, 
                                   ap_class, ap_local, ad_c, ad_k, ad_old, 
                                   cg_t, cg_mclass, cg_mfree, cg_cclass, 
                                   cg_cop, cg_prev, cg_done, cg_fetched, cg_h, 
                                   cg_v, cg_next, cg_ok, cg_seen, ac_id, 
                                   ac_mclass, ac_mfree, ac_cclass, ac_cop, 
                                   ac_i, ac_done, pcx, cur, blk >>

T(self) == t_loop(self) \/ t_next(self) \/ t_get_r(self) \/ t_put_r(self)
              \/ t_putraw_r(self) \/ t_change_r(self) \/ t_drain_r(self)

(* Allow infinite stuttering to prevent deadlock on termination. *)
Terminating == /\ \A self \in ProcSet: pc[self] = "Done"
               /\ UNCHANGED vars

Next == (\E self \in ProcSet:  \/ do_panic(self) \/ try_update(self)
                               \/ lower_get(self) \/ cmpxchg_all(self)
                               \/ set_first_zeros(self) \/ toggle(self)
                               \/ lower_get_at(self) \/ put_small(self)
                               \/ lower_put(self) \/ trees_put(self)
                               \/ trees_unreserve(self) \/ get_local(self)
                               \/ steal_global(self)
                               \/ reserve_or_steal(self)
                               \/ search_best(self) \/ steal_local(self)
                               \/ demote_local(self) \/ api_get(self)
                               \/ api_put(self) \/ api_drain(self)
                               \/ change_at(self) \/ api_change(self))
           \/ (\E self \in Threads: T(self))
           \/ Terminating

Spec == Init /\ [][Next]_vars

Termination == <>(\A self \in ProcSet: pc[self] = "Done")

\* END TRANSLATION 

----------------------------------------------------------------------------
\* Properties of the FINE model (checked by TLC in every reachable state)

HeldRefs == {<<t, i>> \in Threads \X (1 .. 64) : i <= Len(held[t]) /\ held[t][i] # Freed}
BlockOf(ref) == held[ref[1]][ref[2]]
FramesOf(b) == b[1] .. (b[1] + P2(b[2]) - 1)

\* C01: blocks handed out and not yet freed are disjoint, aligned, in range
NoOverlap ==
  /\ \A x \in HeldRefs : LET b == BlockOf(x) IN b[1] % P2(b[2]) = 0 /\ b[1] >= 0 /\ b[1] + P2(b[2]) <= FRAMES
  /\ \A x, y \in HeldRefs : x # y => FramesOf(BlockOf(x)) \cap FramesOf(BlockOf(y)) = {}

\* C03 / C09: no panic, frees of held blocks succeed
\* KnownPanics: reasons of panics recorded as known findings (see known_findings.json); empty = none tolerated
NoPanic == \A t \in Threads : panicked[t] = "" \/ panicked[t] \in KnownPanics
PutsOk == \A t \in Threads : \A i \in DOMAIN results[t] : results[t][i].op = "put" => results[t][i].ok

\* a held block stays allocated in the metadata at every instant (nobody else may clear it)
FrameAllocated(f) ==
  LET h == HugeOfFrame(f) IN
  \/ mem[Entry(h)] = HUGE
  \/ (f % 64) \in mem[Row(h, (f % HF) \div 64)]
HeldAllocated == \A x \in HeldRefs : \A f \in FramesOf(BlockOf(x)) : FrameAllocated(f)

\* C05: the state recovered from the persistent metadata alone (Lower::recover):
\* a huge entry wins over its bitfield, otherwise the counter is recomputed from the bitfield
RecHuge(h) == mem[Entry(h)] = HUGE
RecAllocated(f) == LET h == HugeOfFrame(f) IN RecHuge(h) \/ (f % 64) \in mem[Row(h, (f % HF) \div 64)]
RecPutOk(b) ==
  IF b[2] >= HO THEN \A h \in HugeOfFrame(b[1]) .. (HugeOfFrame(b[1]) + P2(b[2] - HO) - 1) : RecHuge(h)
  ELSE \A f \in FramesOf(b) : RecAllocated(f)
CrashConsistent == \A x \in HeldRefs : RecPutOk(BlockOf(x))

\* C04: when no call is in flight, counters and bitfields agree
AllDone == \A t \in Threads : pc[t] = "Done" \/ panicked[t] # ""
Quiet == \A t \in Threads : pc[t] = "Done"
EntryOk(h) ==
  \/ mem[Entry(h)] = HUGE /\ \A r \in 0 .. ROWS - 1 : mem[Row(h, r)] = {}
  \/ mem[Entry(h)] # HUGE /\ mem[Entry(h)] = ZerosOf(h)
HugeFree(h) == IF mem[Entry(h)] = HUGE THEN 0 ELSE mem[Entry(h)]
TreeHuges(t) == (t * TH) .. (t * TH + TH - 1)
RECURSIVE SumFn(_, _)
SumFn(fn, S) == IF S = {} THEN 0 ELSE LET x == CHOOSE x \in S : TRUE IN fn[x] + SumFn(fn, S \ {x})
LowerFree(t) == SumFn([h \in TreeHuges(t) |-> HugeFree(h)], TreeHuges(t))
SlotRefs == {<<c, k>> \in Classes \X (0 .. 7) : k < NSlots(c)}
SlotsOn(t) == {s \in SlotRefs : mem[Slot(s[1], s[2])].present /\ TreeOfRow(mem[Slot(s[1], s[2])].row) = t}
SlotFreeOf(s) == mem[Slot(s[1], s[2])].free
QuiescentAccounting ==
  Quiet =>
    /\ \A h \in 0 .. NHUGE - 1 : EntryOk(h)
    /\ \A t \in 0 .. NT - 1 :
         /\ mem[Tree(t)].free + SumFn([s \in SlotsOn(t) |-> SlotFreeOf(s)], SlotsOn(t)) + hid[t] = LowerFree(t)
         /\ mem[Tree(t)].res <=> Cardinality(SlotsOn(t)) = 1
         /\ Cardinality(SlotsOn(t)) <= 1

\* counters never exceed what is free (holds in every state, also mid-call)
CounterBound == \A h \in 0 .. NHUGE - 1 : mem[Entry(h)] = HUGE \/ mem[Entry(h)] <= ZerosOf(h)

\* hide the instrumentation from the fingerprint
\* (the MC modules define View as the tuple of all variables except lastop)

\* every action of one thread (procedures + process body): used by the trace specification
ThreadStep(self) ==
  \/ do_panic(self) \/ try_update(self) \/ lower_get(self) \/ cmpxchg_all(self) \/ set_first_zeros(self)
  \/ toggle(self) \/ lower_get_at(self) \/ put_small(self) \/ lower_put(self) \/ trees_put(self)
  \/ trees_unreserve(self) \/ get_local(self) \/ steal_global(self) \/ reserve_or_steal(self)
  \/ search_best(self) \/ steal_local(self) \/ demote_local(self) \/ api_get(self) \/ api_put(self)
  \/ api_drain(self) \/ change_at(self) \/ api_change(self) \/ T(self)

=============================================================================

SPECIFICATION Spec
CONSTANTS
  Letters <- AllLetters
  Depth = 3
INVARIANT Emit
CHECK_DEADLOCK FALSE

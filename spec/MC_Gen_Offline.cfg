SPECIFICATION Spec
CONSTANTS
  Letters <- Offline
  Depth = 3
INVARIANT Emit
CHECK_DEADLOCK FALSE

SPECIFICATION Spec
CONSTRAINT Progress
POSTCONDITION Accepted
CHECK_DEADLOCK FALSE

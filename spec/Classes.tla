------------------------------ MODULE Classes ------------------------------
(***************************************************************************)
(* C19: requests generated from a benchmark class configuration.           *)
(* classes = <<<<id, slot count>>, ...>> is the classing handed to the     *)
(* allocator; a request <<class, local>> (local = -1: none) is valid iff   *)
(* the class is configured and the local index is below its slot count.    *)
(* Which slot a kind maps a (core, pid) to is deliberately not prescribed. *)
(***************************************************************************)
EXTENDS Integers, Sequences

Configured(classes, c) == \E i \in DOMAIN classes : classes[i][1] = c
Count(classes, c) == classes[CHOOSE i \in DOMAIN classes : classes[i][1] = c][2]
ValidRequest(classes, class, local) ==
  /\ Configured(classes, class)
  /\ local = -1 \/ (0 <= local /\ local < Count(classes, class))
=============================================================================

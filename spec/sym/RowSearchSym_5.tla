---------------------------- MODULE RowSearchSym_5 ----------------------------
(***************************************************************************)
(* C23, symbolic leg (Apalache), orders without a subtraction:             *)
(*   order 0:  off = v.trailing_ones()                                     *)
(*   order 1:  off = ((v | (v >> 1)) | 0xaaaa...).trailing_ones()          *)
(*   order 5:  low half zero -> 0, else high half zero -> 32, else none    *)
(*   order 6:  v == 0 -> 0, else none                                      *)
(* X(i) is bit i of the word whose trailing ones / first zero is taken;    *)
(* the invariant: its lowest clear bit is the lowest aligned free block.   *)
(***************************************************************************)
EXTENDS Integers

VARIABLES
  \* @type: Int -> Bool;
  v

W == 32
Bits == 0 .. 63
Starts == { i \in Bits : i % W = 0 }
V(i) == IF i <= 63 THEN v[i] ELSE FALSE

\* bit i of the searched word (clear = candidate)
X(i) == ~((i = 0 /\ (\A j \in Bits : j < 32 => ~v[j])) \/ (i = 32 /\ ~(\A j \in Bits : j < 32 => ~v[j]) /\ (\A j \in Bits : j >= 32 => ~v[j])))

ZeroBlock(b) == \A j \in Bits : (j >= b /\ j < b + W) => ~v[j]

Init == v \in [Bits -> BOOLEAN]
Next == UNCHANGED v

Inv ==
  /\ (\A i \in Bits : X(i)) <=> (\A b \in Starts : ~ZeroBlock(b))
  /\ \A i \in Bits :
       (~X(i) /\ \A c \in Bits : c < i => X(c))
         => (i \in Starts /\ ZeroBlock(i) /\ \A c \in Starts : c < i => ~ZeroBlock(c))
=============================================================================
